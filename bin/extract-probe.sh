#!/bin/bash
# dev helper: run the extractor on /repo into /verif/.cache/facts-probe
cd /repo && rm -rf /verif/.cache/target/debug/.fingerprint/fml-* && LD_LIBRARY_PATH=$(rustc +nightly --print sysroot)/lib RUSTFLAGS="-Zmir-opt-level=0 -Awarnings" RUSTC_WORKSPACE_WRAPPER=/verif/driver/target/release/fml-facts FML_FACTS_OUT=/verif/.cache/facts-probe FML_FACTS_SRC_ROOT=/repo FML_FACTS_NONCE=n1 CARGO_TARGET_DIR=/verif/.cache/target cargo +nightly check --offline --locked 2>&1 | grep -A25 "panicked at\|^error" | head -60
