//! HIR + typeck dump. Every expression node carries kind, span, type and resolution.

use crate::json::J;
use crate::{FmtInfo, FmtPiece};
use rustc_hir as hir;
use rustc_hir::def::{CtorOf, DefKind, Res};
use rustc_hir::def_id::{DefId, LocalDefId};
use rustc_middle::ty::print::PrintTraitRefExt;
use rustc_middle::ty::{self, GenericArgsRef, Ty, TyCtxt, TypeckResults};
use rustc_span::Span;
use std::cell::RefCell;
use std::collections::HashMap;

pub struct Cx<'tcx, 'a> {
    pub tcx: TyCtxt<'tcx>,
    pub fmt: &'a HashMap<crate::SpanKey, FmtInfo>,
    pub src_root: String,
    pub types: RefCell<(Vec<String>, HashMap<String, usize>)>,
}

fn no_trim<T>(f: impl FnOnce() -> T) -> T {
    rustc_middle::ty::print::with_no_trimmed_paths!(f())
}

impl<'tcx, 'a> Cx<'tcx, 'a> {
    pub fn new(tcx: TyCtxt<'tcx>, fmt: &'a HashMap<crate::SpanKey, FmtInfo>, src_root: String) -> Self {
        Cx { tcx, fmt, src_root, types: RefCell::new((Vec::new(), HashMap::new())) }
    }

    // ---------------------------------------------------------------- spans

    pub fn file_of(&self, sp: Span) -> String {
        let sm = self.tcx.sess.source_map();
        let loc = sm.lookup_char_pos(sp.lo());
        let name = format!("{}", loc.file.name.prefer_local_unconditionally());
        self.rel(name)
    }

    fn rel(&self, name: String) -> String {
        if !self.src_root.is_empty() {
            if let Some(r) = name.strip_prefix(&self.src_root) {
                return r.trim_start_matches('/').to_string();
            }
        }
        name
    }

    pub fn span_json(&self, sp: Span) -> J {
        let sm = self.tcx.sess.source_map();
        let cs = sp.source_callsite();
        let lo = sm.lookup_char_pos(cs.lo());
        let hi = sm.lookup_char_pos(cs.hi());
        let mut o = J::obj()
            .with("f", J::s(self.rel(format!("{}", lo.file.name.prefer_local_unconditionally()))))
            .with("l", J::Int(lo.line as i128))
            .with("c", J::Int(lo.col.0 as i128 + 1))
            .with("el", J::Int(hi.line as i128))
            .with("ec", J::Int(hi.col.0 as i128 + 1));
        if sp.from_expansion() {
            let mut ms = Vec::new();
            for ed in sp.macro_backtrace() {
                match ed.kind {
                    rustc_span::ExpnKind::Macro(_, name) => ms.push(J::s(name.as_str().to_string())),
                    rustc_span::ExpnKind::Desugaring(k) => ms.push(J::s(format!("desugar:{:?}", k))),
                    rustc_span::ExpnKind::AstPass(k) => ms.push(J::s(format!("astpass:{:?}", k))),
                    rustc_span::ExpnKind::Root => {}
                }
            }
            o.set("ms", J::Arr(ms));
        }
        o
    }

    /// true when the span's (call-site) file lies under <src_root>/src
    pub fn in_src(&self, sp: Span) -> bool {
        let f = self.file_of(sp.source_callsite());
        f.starts_with("src/")
    }

    // ---------------------------------------------------------------- types

    pub fn ty_id(&self, ty: Ty<'tcx>) -> J {
        let s = no_trim(|| format!("{}", ty));
        let mut t = self.types.borrow_mut();
        if let Some(i) = t.1.get(&s) {
            return J::Int(*i as i128);
        }
        let i = t.0.len();
        t.0.push(s.clone());
        t.1.insert(s, i);
        J::Int(i as i128)
    }

    pub fn ty_s(&self, ty: Ty<'tcx>) -> String {
        no_trim(|| format!("{}", ty))
    }

    pub fn def_path(&self, did: DefId) -> String {
        no_trim(|| self.tcx.def_path_str(did))
    }

    fn did_key(&self, did: DefId) -> String {
        format!("{}:{}", did.krate.as_u32(), did.index.as_u32())
    }

    // ---------------------------------------------------------------- resolution

    pub fn res_json(&self, res: Res) -> J {
        match res {
            Res::Local(hid) => {
                let name = self.tcx.hir_name(hid).to_string();
                J::obj()
                    .with("k", J::s("Local"))
                    .with("name", J::s(name))
                    .with("lid", J::Int(hid.local_id.as_u32() as i128))
            }
            Res::Def(dk, did) => {
                let mut o = J::obj()
                    .with("k", J::s("Def"))
                    .with("dk", J::s(format!("{:?}", dk)))
                    .with("path", J::s(self.def_path(did)))
                    .with("did", J::s(self.did_key(did)));
                match dk {
                    DefKind::Ctor(of, _) => {
                        // parent of a ctor is the variant (or the struct)
                        let parent = self.tcx.parent(did);
                        match of {
                            CtorOf::Variant => {
                                let en = self.tcx.parent(parent);
                                o.set("variant", J::s(self.tcx.item_name(parent).to_string()));
                                o.set("adt", J::s(self.def_path(en)));
                            }
                            CtorOf::Struct => {
                                o.set("adt", J::s(self.def_path(parent)));
                            }
                        }
                    }
                    DefKind::Variant => {
                        let en = self.tcx.parent(did);
                        o.set("variant", J::s(self.tcx.item_name(did).to_string()));
                        o.set("adt", J::s(self.def_path(en)));
                    }
                    _ => {}
                }
                o
            }
            Res::SelfCtor(did) => J::obj().with("k", J::s("SelfCtor")).with("path", J::s(self.def_path(did))),
            Res::SelfTyAlias { alias_to, .. } => {
                J::obj().with("k", J::s("SelfTy")).with("path", J::s(self.def_path(alias_to)))
            }
            Res::SelfTyParam { .. } => J::obj().with("k", J::s("SelfTyParam")),
            Res::PrimTy(p) => J::obj().with("k", J::s("PrimTy")).with("name", J::s(p.name_str())),
            other => J::obj().with("k", J::s("Other")).with("dbg", J::s(format!("{:?}", other))),
        }
    }

    /// Resolution of a call target: generic definition, generic args and — when the
    /// instance can be resolved in the caller's typing environment — the concrete
    /// implementation.
    pub fn callee_json(&self, did: DefId, args: GenericArgsRef<'tcx>, owner: LocalDefId) -> J {
        let tcx = self.tcx;
        let dk = tcx.def_kind(did);
        let mut o = J::obj()
            .with("def", J::s(self.def_path(did)))
            .with("dk", J::s(format!("{:?}", dk)))
            .with("did", J::s(self.did_key(did)))
            .with("local", J::Bool(did.is_local()))
            .with("name", J::s(tcx.item_name(did).to_string()));
        let gargs: Vec<J> = args.iter().map(|a| J::s(no_trim(|| format!("{}", a)))).collect();
        o.set("gargs", J::Arr(gargs));
        if matches!(dk, DefKind::Fn | DefKind::AssocFn) {
            if let Some(tr) = tcx.trait_of_assoc(did) {
                o.set("trait", J::s(self.def_path(tr)));
                if args.len() > 0 {
                    if let Some(t) = args.get(0).and_then(|a| a.as_type()) {
                        o.set("self_ty", J::s(self.ty_s(t)));
                    }
                }
            }
            if let Some(imp) = tcx.impl_of_assoc(did) {
                let st = tcx.type_of(imp).instantiate_identity().skip_norm_wip();
                o.set("impl_self", J::s(self.ty_s(st)));
            }
            let has_infer = args.iter().any(|a| {
                use rustc_middle::ty::TypeVisitableExt;
                a.has_infer() || a.has_escaping_bound_vars()
            });
            let arity_ok = tcx.generics_of(did).count() == args.len();
            if !arity_ok {
                o.set("args_mismatch", J::Bool(true));
            }
            if !has_infer && arity_ok {
                let env = ty::TypingEnv::post_analysis(tcx, owner.to_def_id());
                let erased = tcx.erase_and_anonymize_regions(args);
                if let Ok(Some(inst)) = ty::Instance::try_resolve(tcx, env, did, erased) {
                    let idid = inst.def_id();
                    o.set("inst", J::s(self.def_path(idid)));
                    o.set("inst_did", J::s(self.did_key(idid)));
                    o.set("inst_local", J::Bool(idid.is_local()));
                    o.set("inst_kind", J::s(inst_kind(&inst)));
                    if let Some(imp) = tcx.impl_of_assoc(idid) {
                        let st = tcx.type_of(imp).instantiate_identity().skip_norm_wip();
                        o.set("inst_self", J::s(self.ty_s(st)));
                    }
                }
            }
        }
        o
    }

    // ---------------------------------------------------------------- bodies

    pub fn dump_bodies(&self) -> J {
        let tcx = self.tcx;
        let mut bodies = Vec::new();
        let mut generated = Vec::new();
        let mut productions = Vec::new();
        let mut skipped = 0i128;
        let mut unsafe_non_src = 0i128;
        for ldid in tcx.hir_body_owners() {
            let kind = tcx.def_kind(ldid);
            if matches!(kind, DefKind::Closure | DefKind::InlineConst | DefKind::AnonConst) {
                continue; // dumped inline in their parent
            }
            let sp = tcx.def_span(ldid);
            if !self.in_src(sp) {
                skipped += 1;
                // generated code (LALRPOP output): only count user-level `unsafe`
                let body = tcx.hir_body_owned_by(ldid);
                let mut uc = UnsafeCounter { n: 0 };
                rustc_hir::intravisit::Visitor::visit_expr(&mut uc, body.value);
                unsafe_non_src += uc.n;
                if matches!(kind, DefKind::Fn | DefKind::AssocFn) {
                    let sig = tcx.fn_sig(ldid.to_def_id()).instantiate_identity().skip_norm_wip();
                    if matches!(sig.safety(), hir::Safety::Unsafe) {
                        unsafe_non_src += 1;
                    }
                }
                // the semantic actions of the generated parser (one function per grammar alternative) are dumped
                // apart from the source bodies: they are the type-checked form of the grammar file's action code
                if matches!(kind, DefKind::Fn) && tcx.item_name(ldid.to_def_id()).as_str().starts_with("__action") {
                    if generated.is_empty() {
                        // the generated parser documents, next to every reduction, which production runs which action:
                        // `// Lhs = Sym, Sym => ActionFn(N);` — taken from the very text rustc compiled
                        let sf = tcx.sess.source_map().lookup_source_file(sp.lo());
                        if let Some(src) = sf.src.as_ref() {
                            for line in src.lines() {
                                if line.contains("ActionFn(") && line.trim_start().starts_with("//") {
                                    productions.push(J::s(line.trim().to_string()));
                                }
                            }
                        }
                    }
                    generated.push(self.body_json(ldid));
                }
                continue;
            }
            bodies.push(self.body_json(ldid));
        }
        let types = self.types.borrow().0.iter().map(|s| J::s(s.clone())).collect();
        J::obj()
            .with("bodies", J::Arr(bodies))
            .with("generated_actions", J::Arr(generated))
            .with("generated_productions", J::Arr(productions))
            .with("skipped_non_src", J::Int(skipped))
            .with("unsafe_non_src", J::Int(unsafe_non_src))
            .with("types", J::Arr(types))
    }

    fn body_json(&self, ldid: LocalDefId) -> J {
        let tcx = self.tcx;
        let did = ldid.to_def_id();
        let kind = tcx.def_kind(ldid);
        let body = tcx.hir_body_owned_by(ldid);
        let typeck = tcx.typeck(ldid);
        let mut o = J::obj()
            .with("path", J::s(self.def_path(did)))
            .with("did", J::s(self.did_key(did)))
            .with("dk", J::s(format!("{:?}", kind)))
            .with("name", J::s(tcx.item_name(did).to_string()))
            .with("span", self.span_json(tcx.def_span(ldid)))
            .with("from_expansion", J::Bool(tcx.def_span(ldid).from_expansion()));
        if let Some(imp) = tcx.impl_of_assoc(did) {
            let st = tcx.type_of(imp).instantiate_identity().skip_norm_wip();
            o.set("impl_self", J::s(self.ty_s(st)));
            if let Some(tr) = tcx.impl_opt_trait_ref(imp) {
                let tr = tr.instantiate_identity().skip_norm_wip();
                o.set("impl_trait", J::s(no_trim(|| format!("{}", tr.print_only_trait_path()))));
                o.set("impl_trait_def", J::s(self.def_path(tr.def_id)));
            }
        }
        if let Some(tr) = tcx.trait_of_assoc(did) {
            o.set("in_trait", J::s(self.def_path(tr)));
        }
        if matches!(kind, DefKind::Fn | DefKind::AssocFn) {
            // generic parameter names in substitution order (parent's first): lets the engine bind const generics
            let mut gnames: Vec<J> = Vec::new();
            let mut chain = Vec::new();
            let mut cur = Some(did);
            while let Some(d) = cur {
                let g = tcx.generics_of(d);
                chain.push(g);
                cur = g.parent;
            }
            for g in chain.iter().rev() {
                for p in g.own_params.iter() {
                    gnames.push(J::s(p.name.to_string()));
                }
            }
            o.set("generics", J::Arr(gnames));
            let sig = tcx.fn_sig(did).instantiate_identity().skip_norm_wip().skip_binder();
            o.set("ret_ty", self.ty_id(sig.output()));
            o.set("param_tys", J::Arr(sig.inputs().iter().map(|t| self.ty_id(*t)).collect()));
            o.set("vis", J::s(format!("{:?}", tcx.visibility(did))));
        }
        o.set("attrs", self.attrs_json(tcx.local_def_id_to_hir_id(ldid)));
        let params: Vec<J> = body.params.iter().map(|p| self.pat(p.pat, typeck)).collect();
        o.set("params", J::Arr(params));
        o.set("value", self.expr(body.value, typeck, ldid));
        o
    }

    pub fn attrs_json(&self, hid: hir::HirId) -> J {
        let mut v = Vec::new();
        for a in self.tcx.hir_attrs(hid) {
            let s = format!("{:?}", a);
            // keep it short: parsed attributes print as `Parsed(Kind { .. })`
            let s = if s.len() > 400 { format!("{}…", &s[..s.char_indices().nth(400).map(|x| x.0).unwrap_or(s.len())]) } else { s };
            v.push(J::s(s));
        }
        J::Arr(v)
    }

    // ---------------------------------------------------------------- patterns

    pub fn pat(&self, p: &'tcx hir::Pat<'tcx>, tr: &TypeckResults<'tcx>) -> J {
        let mut o = J::obj();
        let ty = tr.pat_ty(p);
        match &p.kind {
            hir::PatKind::Wild => o.set("k", J::s("Wild")),
            hir::PatKind::Missing => o.set("k", J::s("Missing")),
            hir::PatKind::Never => o.set("k", J::s("Never")),
            hir::PatKind::Binding(mode, hid, ident, sub) => {
                o.set("k", J::s("Binding"));
                o.set("name", J::s(ident.name.as_str().to_string()));
                o.set("lid", J::Int(hid.local_id.as_u32() as i128));
                o.set("by_ref", J::Bool(!matches!(mode.0, hir::ByRef::No)));
                o.set("mut", J::Bool(mode.1.is_mut()));
                if let Some(s) = sub {
                    o.set("sub", self.pat(s, tr));
                }
            }
            hir::PatKind::Struct(qp, fields, rest) => {
                o.set("k", J::s("Struct"));
                o.set("res", self.res_json(tr.qpath_res(qp, p.hir_id)));
                let fs = fields
                    .iter()
                    .map(|f| {
                        J::obj()
                            .with("name", J::s(f.ident.name.as_str().to_string()))
                            .with("shorthand", J::Bool(f.is_shorthand))
                            .with("pat", self.pat(f.pat, tr))
                    })
                    .collect();
                o.set("fields", J::Arr(fs));
                o.set("rest", J::Bool(rest.is_some()));
            }
            hir::PatKind::TupleStruct(qp, pats, ddp) => {
                o.set("k", J::s("TupleStruct"));
                o.set("res", self.res_json(tr.qpath_res(qp, p.hir_id)));
                o.set("pats", J::Arr(pats.iter().map(|x| self.pat(x, tr)).collect()));
                if let Some(i) = ddp.as_opt_usize() {
                    o.set("dotdot", J::Int(i as i128));
                }
            }
            hir::PatKind::Or(pats) => {
                o.set("k", J::s("Or"));
                o.set("pats", J::Arr(pats.iter().map(|x| self.pat(x, tr)).collect()));
            }
            hir::PatKind::Tuple(pats, ddp) => {
                o.set("k", J::s("Tuple"));
                o.set("pats", J::Arr(pats.iter().map(|x| self.pat(x, tr)).collect()));
                if let Some(i) = ddp.as_opt_usize() {
                    o.set("dotdot", J::Int(i as i128));
                }
            }
            hir::PatKind::Box(x) => {
                o.set("k", J::s("Box"));
                o.set("pat", self.pat(x, tr));
            }
            hir::PatKind::Deref(x) => {
                o.set("k", J::s("Deref"));
                o.set("pat", self.pat(x, tr));
            }
            hir::PatKind::Ref(x, _, m) => {
                o.set("k", J::s("Ref"));
                o.set("mut", J::Bool(m.is_mut()));
                o.set("pat", self.pat(x, tr));
            }
            hir::PatKind::Expr(pe) => {
                self.pat_expr(pe, tr, &mut o);
            }
            hir::PatKind::Guard(x, g) => {
                o.set("k", J::s("Guard"));
                o.set("pat", self.pat(x, tr));
                let _ = g;
            }
            hir::PatKind::Range(lo, hi, end) => {
                o.set("k", J::s("Range"));
                if let Some(lo) = lo {
                    let mut l = J::obj();
                    self.pat_expr(lo, tr, &mut l);
                    o.set("lo", l);
                }
                if let Some(hi) = hi {
                    let mut h = J::obj();
                    self.pat_expr(hi, tr, &mut h);
                    o.set("hi", h);
                }
                o.set("inclusive", J::Bool(matches!(end, hir::RangeEnd::Included)));
            }
            hir::PatKind::Slice(a, m, b) => {
                o.set("k", J::s("Slice"));
                o.set("before", J::Arr(a.iter().map(|x| self.pat(x, tr)).collect()));
                if let Some(m) = m {
                    o.set("mid", self.pat(m, tr));
                }
                o.set("after", J::Arr(b.iter().map(|x| self.pat(x, tr)).collect()));
            }
            hir::PatKind::Err(_) => o.set("k", J::s("Err")),
        }
        o.set("ty", self.ty_id(ty));
        o.set("sp", self.span_json(p.span));
        o
    }

    fn pat_expr(&self, pe: &'tcx hir::PatExpr<'tcx>, tr: &TypeckResults<'tcx>, o: &mut J) {
        match &pe.kind {
            hir::PatExprKind::Lit { lit, negated } => {
                o.set("k", J::s("Lit"));
                o.set("lit", lit_json(lit, *negated));
            }
            hir::PatExprKind::Path(qp) => {
                o.set("k", J::s("Path"));
                o.set("res", self.res_json(tr.qpath_res(qp, pe.hir_id)));
            }
        }
    }

    // ---------------------------------------------------------------- expressions

    fn block(&self, b: &'tcx hir::Block<'tcx>, tr: &TypeckResults<'tcx>, owner: LocalDefId) -> J {
        let mut stmts = Vec::new();
        for s in b.stmts {
            match &s.kind {
                hir::StmtKind::Let(l) => {
                    let mut o = J::obj().with("k", J::s("Let")).with("pat", self.pat(l.pat, tr));
                    if let Some(i) = l.init {
                        o.set("init", self.expr(i, tr, owner));
                    }
                    if let Some(e) = l.els {
                        o.set("els", self.block(e, tr, owner));
                    }
                    if l.super_.is_some() {
                        o.set("super", J::Bool(true));
                    }
                    o.set("src", J::s(format!("{:?}", l.source)));
                    o.set("sp", self.span_json(s.span));
                    stmts.push(o);
                }
                hir::StmtKind::Item(_) => {
                    stmts.push(J::obj().with("k", J::s("Item")).with("sp", self.span_json(s.span)));
                }
                hir::StmtKind::Expr(e) => {
                    stmts.push(
                        J::obj().with("k", J::s("Expr")).with("e", self.expr(e, tr, owner)).with("sp", self.span_json(s.span)),
                    );
                }
                hir::StmtKind::Semi(e) => {
                    stmts.push(
                        J::obj().with("k", J::s("Semi")).with("e", self.expr(e, tr, owner)).with("sp", self.span_json(s.span)),
                    );
                }
            }
        }
        let mut o = J::obj().with("stmts", J::Arr(stmts));
        if let Some(e) = b.expr {
            o.set("expr", self.expr(e, tr, owner));
        }
        if !matches!(b.rules, hir::BlockCheckMode::DefaultBlock) {
            o.set("unsafe", J::Bool(true));
            o.set("unsafe_src", J::s(format!("{:?}", b.rules)));
        }
        o.set("sp", self.span_json(b.span));
        o
    }

    /// Lowered `format_args!` → FormatArgs node (template captured on the AST).
    fn try_format_args(&self, e: &'tcx hir::Expr<'tcx>, tr: &TypeckResults<'tcx>, owner: LocalDefId) -> Option<J> {
        let info = self.fmt.get(&crate::span_key(e.span))?;
        // find the HIR expressions of the arguments by span
        let mut finder = ArgFinder { want: &info.arg_spans, found: vec![None; info.arg_spans.len()] };
        rustc_hir::intravisit::Visitor::visit_expr(&mut finder, e);
        let mut args = Vec::new();
        for (i, f) in finder.found.iter().enumerate() {
            match f {
                Some(x) => args.push(self.expr(x, tr, owner)),
                None => match info.arg_lits.get(i).and_then(|x| x.clone()) {
                    // an integer / bool literal the lowering inlined: kept as its source text
                    Some(text) => args.push(
                        J::obj().with("k", J::s("Lit")).with("lit", J::obj().with("t", J::s("fmtlit")).with("v", J::s(text))).with("id", J::Int(-1)),
                    ),
                    None => args.push(J::obj().with("k", J::s("Unknown"))),
                },
            }
        }
        let pieces = info
            .pieces
            .iter()
            .map(|p| match p {
                FmtPiece::Lit(s) => J::obj().with("lit", J::s(s.clone())),
                FmtPiece::Arg { index, tr, spec } => {
                    let mut o = J::obj().with("arg", J::Int(*index as i128)).with("tr", J::s(tr.clone()));
                    if !spec.is_empty() {
                        o.set("spec", J::s(spec.clone()));
                    }
                    o
                }
            })
            .collect();
        Some(J::obj().with("k", J::s("FormatArgs")).with("pieces", J::Arr(pieces)).with("args", J::Arr(args)))
    }

    pub fn expr(&self, e: &'tcx hir::Expr<'tcx>, tr: &TypeckResults<'tcx>, owner: LocalDefId) -> J {
        let mut o = if let Some(fa) = self.try_format_args(e, tr, owner) { fa } else { self.expr_kind(e, tr, owner) };
        if let Some(t) = tr.expr_ty_opt(e) {
            o.set("ty", self.ty_id(t));
            if let ty::Adt(ad, _) = t.peel_refs().kind() {
                o.set("tadt", J::s(self.def_path(ad.did())));
            }
        }
        let adj = tr.expr_adjustments(e);
        if !adj.is_empty() {
            let mut v = Vec::new();
            for a in adj {
                let k = match &a.kind {
                    ty::adjustment::Adjust::NeverToAny => "NeverToAny".to_string(),
                    ty::adjustment::Adjust::Deref(ty::adjustment::DerefAdjustKind::Builtin) => "Deref".to_string(),
                    ty::adjustment::Adjust::Deref(ty::adjustment::DerefAdjustKind::Overloaded(od)) => {
                        format!("DerefOverloaded:{}", if od.mutbl.is_mut() { "mut" } else { "not" })
                    }
                    ty::adjustment::Adjust::Deref(_) => "DerefPin".to_string(),
                    ty::adjustment::Adjust::Borrow(ab) => match ab {
                        ty::adjustment::AutoBorrow::Ref(m) => {
                            let is_mut = matches!(m, ty::adjustment::AutoBorrowMutability::Mut { .. });
                            format!("Borrow:{}", if is_mut { "mut" } else { "not" })
                        }
                        _ => "BorrowRaw".to_string(),
                    },
                    ty::adjustment::Adjust::Pointer(pc) => format!("Pointer:{:?}", pc),
                };
                v.push(J::obj().with("k", J::s(k)).with("to", self.ty_id(a.target)));
            }
            o.set("adj", J::Arr(v));
            o.set("aty", self.ty_id(tr.expr_ty_adjusted(e)));
        }
        o.set("sp", self.span_json(e.span));
        o.set("id", J::Int(e.hir_id.local_id.as_u32() as i128));
        o
    }

    fn peeled_prim(&self, t: Ty<'tcx>) -> String {
        self.ty_s(t.peel_refs())
    }

    fn expr_kind(&self, e: &'tcx hir::Expr<'tcx>, tr: &TypeckResults<'tcx>, owner: LocalDefId) -> J {
        use hir::ExprKind as K;
        let mut o = J::obj();
        match &e.kind {
            K::ConstBlock(_) => o.set("k", J::s("ConstBlock")),
            K::Array(xs) => {
                o.set("k", J::s("Array"));
                o.set("elems", J::Arr(xs.iter().map(|x| self.expr(x, tr, owner)).collect()));
            }
            K::Call(f, args) => {
                o.set("k", J::s("Call"));
                o.set("fun", self.expr(f, tr, owner));
                o.set("args", J::Arr(args.iter().map(|x| self.expr(x, tr, owner)).collect()));
                // resolve the callee from the type of the callee expression (FnDef carries
                // the definition and its generic arguments, also for lang-item paths)
                if let ty::FnDef(did, fargs) = tr.expr_ty(f).kind() {
                    match self.tcx.def_kind(*did) {
                        DefKind::Fn | DefKind::AssocFn => {
                            o.set("callee", self.callee_json(*did, fargs, owner));
                        }
                        DefKind::Ctor(..) => {
                            o.set("ctor", self.res_json(Res::Def(self.tcx.def_kind(*did), *did)));
                        }
                        _ => {}
                    }
                } else if let K::Path(qp) = &f.kind {
                    if let Res::SelfCtor(_) = tr.qpath_res(qp, f.hir_id) {
                        o.set("ctor", self.res_json(tr.qpath_res(qp, f.hir_id)));
                    }
                }
            }
            K::MethodCall(seg, recv, args, _) => {
                o.set("k", J::s("MethodCall"));
                o.set("name", J::s(seg.ident.name.as_str().to_string()));
                o.set("recv", self.expr(recv, tr, owner));
                o.set("args", J::Arr(args.iter().map(|x| self.expr(x, tr, owner)).collect()));
                if let Some(did) = tr.type_dependent_def_id(e.hir_id) {
                    let ga = tr.node_args(e.hir_id);
                    o.set("callee", self.callee_json(did, ga, owner));
                }
            }
            K::Use(x, _) => {
                o.set("k", J::s("Use"));
                o.set("e", self.expr(x, tr, owner));
            }
            K::Tup(xs) => {
                o.set("k", J::s("Tup"));
                o.set("elems", J::Arr(xs.iter().map(|x| self.expr(x, tr, owner)).collect()));
            }
            K::Binary(op, l, r) => {
                o.set("k", J::s("Binary"));
                o.set("op", J::s(format!("{:?}", op.node)));
                o.set("lhs", self.expr(l, tr, owner));
                o.set("rhs", self.expr(r, tr, owner));
                o.set("lprim", J::s(self.peeled_prim(tr.expr_ty(l))));
                o.set("rprim", J::s(self.peeled_prim(tr.expr_ty(r))));
                if tr.is_method_call(e) {
                    o.set("overloaded", J::Bool(true));
                    if let Some(did) = tr.type_dependent_def_id(e.hir_id) {
                        o.set("callee", self.callee_json(did, tr.node_args(e.hir_id), owner));
                    }
                }
            }
            K::Unary(op, x) => {
                o.set("k", J::s("Unary"));
                o.set("op", J::s(format!("{:?}", op)));
                o.set("e", self.expr(x, tr, owner));
                o.set("prim", J::s(self.peeled_prim(tr.expr_ty(x))));
                if tr.is_method_call(e) {
                    o.set("overloaded", J::Bool(true));
                    if let Some(did) = tr.type_dependent_def_id(e.hir_id) {
                        o.set("callee", self.callee_json(did, tr.node_args(e.hir_id), owner));
                    }
                }
            }
            K::Lit(l) => {
                o.set("k", J::s("Lit"));
                o.set("lit", lit_json(l, false));
            }
            K::Cast(x, _) => {
                o.set("k", J::s("Cast"));
                o.set("e", self.expr(x, tr, owner));
                o.set("from", J::s(self.ty_s(tr.expr_ty(x))));
                o.set("to", J::s(self.ty_s(tr.expr_ty(e))));
            }
            K::Type(x, _) => {
                o.set("k", J::s("Type"));
                o.set("e", self.expr(x, tr, owner));
            }
            K::DropTemps(x) => {
                o.set("k", J::s("DropTemps"));
                o.set("e", self.expr(x, tr, owner));
            }
            K::Let(l) => {
                o.set("k", J::s("Let"));
                o.set("pat", self.pat(l.pat, tr));
                o.set("init", self.expr(l.init, tr, owner));
            }
            K::If(c, t, el) => {
                o.set("k", J::s("If"));
                o.set("cond", self.expr(c, tr, owner));
                o.set("then", self.expr(t, tr, owner));
                if let Some(el) = el {
                    o.set("else", self.expr(el, tr, owner));
                }
            }
            K::Loop(b, label, src, _) => {
                o.set("k", J::s("Loop"));
                o.set("src", J::s(format!("{:?}", src)));
                if let Some(l) = label {
                    o.set("label", J::s(l.ident.name.as_str().to_string()));
                }
                o.set("body", self.block(b, tr, owner));
            }
            K::Match(s, arms, src) => {
                o.set("k", J::s("Match"));
                let srcs = format!("{:?}", src);
                let srcs = match srcs.find('(') {
                    Some(i) => srcs[..i].to_string(),
                    None => srcs,
                };
                o.set("src", J::s(srcs));
                o.set("scrut", self.expr(s, tr, owner));
                let mut av = Vec::new();
                for a in arms.iter() {
                    let mut ao = J::obj().with("pat", self.pat(a.pat, tr));
                    if let Some(g) = a.guard {
                        ao.set("guard", self.expr(g, tr, owner));
                    }
                    ao.set("body", self.expr(a.body, tr, owner));
                    ao.set("sp", self.span_json(a.span));
                    av.push(ao);
                }
                o.set("arms", J::Arr(av));
            }
            K::Closure(c) => {
                o.set("k", J::s("Closure"));
                let body = self.tcx.hir_body(c.body);
                o.set("def", J::s(self.def_path(c.def_id.to_def_id())));
                o.set("did", J::s(self.did_key(c.def_id.to_def_id())));
                o.set("params", J::Arr(body.params.iter().map(|p| self.pat(p.pat, tr)).collect()));
                o.set("body", self.expr(body.value, tr, owner));
                o.set("by_move", J::Bool(matches!(c.capture_clause, hir::CaptureBy::Value { .. })));
            }
            K::Block(b, label) => {
                o.set("k", J::s("Block"));
                if let Some(l) = label {
                    o.set("label", J::s(l.ident.name.as_str().to_string()));
                }
                o.set("block", self.block(b, tr, owner));
            }
            K::Assign(l, r, _) => {
                o.set("k", J::s("Assign"));
                o.set("lhs", self.expr(l, tr, owner));
                o.set("rhs", self.expr(r, tr, owner));
            }
            K::AssignOp(op, l, r) => {
                o.set("k", J::s("AssignOp"));
                o.set("op", J::s(format!("{:?}", op.node)));
                o.set("lhs", self.expr(l, tr, owner));
                o.set("rhs", self.expr(r, tr, owner));
                o.set("lprim", J::s(self.peeled_prim(tr.expr_ty(l))));
                o.set("rprim", J::s(self.peeled_prim(tr.expr_ty(r))));
                if tr.is_method_call(e) {
                    o.set("overloaded", J::Bool(true));
                }
            }
            K::Field(b, ident) => {
                o.set("k", J::s("Field"));
                o.set("base", self.expr(b, tr, owner));
                o.set("name", J::s(ident.name.as_str().to_string()));
                let bt = tr.expr_ty_adjusted(b);
                if let ty::Adt(ad, _) = bt.peel_refs().kind() {
                    o.set("adt", J::s(self.def_path(ad.did())));
                }
            }
            K::Index(b, i, _) => {
                o.set("k", J::s("Index"));
                o.set("base", self.expr(b, tr, owner));
                o.set("idx", self.expr(i, tr, owner));
                if tr.is_method_call(e) {
                    o.set("overloaded", J::Bool(true));
                }
            }
            K::Path(qp) => {
                o.set("k", J::s("Path"));
                let res = tr.qpath_res(qp, e.hir_id);
                o.set("res", self.res_json(res));
                if let Res::Def(DefKind::Fn | DefKind::AssocFn, _) = res {
                    // a function used as a value (e.g. `.map(ConstantPoolIndex::new)`)
                    if let ty::FnDef(did, fargs) = tr.expr_ty(e).kind() {
                        o.set("callee", self.callee_json(*did, fargs, owner));
                    }
                }
            }
            K::AddrOf(_, m, x) => {
                o.set("k", J::s("AddrOf"));
                o.set("mut", J::Bool(m.is_mut()));
                o.set("e", self.expr(x, tr, owner));
            }
            K::Break(dest, x) => {
                o.set("k", J::s("Break"));
                if let Some(l) = dest.label {
                    o.set("label", J::s(l.ident.name.as_str().to_string()));
                }
                if let Ok(t) = dest.target_id {
                    o.set("target", J::Int(t.local_id.as_u32() as i128));
                }
                if let Some(x) = x {
                    o.set("e", self.expr(x, tr, owner));
                }
            }
            K::Continue(dest) => {
                o.set("k", J::s("Continue"));
                if let Ok(t) = dest.target_id {
                    o.set("target", J::Int(t.local_id.as_u32() as i128));
                }
            }
            K::Ret(x) => {
                o.set("k", J::s("Ret"));
                if let Some(x) = x {
                    o.set("e", self.expr(x, tr, owner));
                }
            }
            K::Become(x) => {
                o.set("k", J::s("Become"));
                o.set("e", self.expr(x, tr, owner));
            }
            K::InlineAsm(_) => o.set("k", J::s("InlineAsm")),
            K::OffsetOf(..) => o.set("k", J::s("OffsetOf")),
            K::Struct(qp, fields, tail) => {
                o.set("k", J::s("Struct"));
                o.set("res", self.res_json(tr.qpath_res(qp, e.hir_id)));
                let fs = fields
                    .iter()
                    .map(|f| {
                        J::obj()
                            .with("name", J::s(f.ident.name.as_str().to_string()))
                            .with("e", self.expr(f.expr, tr, owner))
                    })
                    .collect();
                o.set("fields", J::Arr(fs));
                if let hir::StructTailExpr::Base(b) = tail {
                    o.set("base", self.expr(b, tr, owner));
                }
            }
            K::Repeat(x, _) => {
                o.set("k", J::s("Repeat"));
                o.set("e", self.expr(x, tr, owner));
            }
            K::Yield(..) => o.set("k", J::s("Yield")),
            K::UnsafeBinderCast(..) => o.set("k", J::s("UnsafeBinderCast")),
            K::Err(_) => o.set("k", J::s("Err")),
        }
        o
    }

    // ---------------------------------------------------------------- ADTs / impls

    pub fn dump_adts(&self) -> J {
        let tcx = self.tcx;
        let mut adts = Vec::new();
        let mut impls = Vec::new();
        let mut unsafe_items = 0i128;
        let mut macros = Vec::new();
        for id in tcx.hir_free_items() {
            let item = tcx.hir_item(id);
            let did = item.owner_id.to_def_id();
            let in_src = self.in_src(item.span);
            match &item.kind {
                hir::ItemKind::Struct(..) | hir::ItemKind::Enum(..) | hir::ItemKind::Union(..) => {
                    let ad = tcx.adt_def(did);
                    let mut variants = Vec::new();
                    for v in ad.variants().iter() {
                        let mut fields = Vec::new();
                        for f in v.fields.iter() {
                            let fty = tcx.type_of(f.did).instantiate_identity().skip_norm_wip();
                            let mut fo = J::obj()
                                .with("name", J::s(f.name.as_str().to_string()))
                                .with("ty", J::s(self.ty_s(fty)))
                                .with("vis", J::s(format!("{:?}", f.vis)));
                            if let Some(l) = f.did.as_local() {
                                fo.set("attrs", self.attrs_json(tcx.local_def_id_to_hir_id(l)));
                            }
                            fields.push(fo);
                        }
                        let mut vo = J::obj()
                            .with("name", J::s(v.name.as_str().to_string()))
                            .with("ctor", J::s(format!("{:?}", v.ctor_kind())))
                            .with("fields", J::Arr(fields));
                        if let Some(l) = v.def_id.as_local() {
                            vo.set("attrs", self.attrs_json(tcx.local_def_id_to_hir_id(l)));
                            vo.set("doc", J::s(self.doc_of(tcx.local_def_id_to_hir_id(l))));
                        }
                        variants.push(vo);
                    }
                    let mut o = J::obj()
                        .with("path", J::s(self.def_path(did)))
                        .with("kind", J::s(format!("{:?}", ad.adt_kind())))
                        .with("in_src", J::Bool(in_src))
                        .with("vis", J::s(format!("{:?}", tcx.visibility(did))))
                        .with("variants", J::Arr(variants))
                        .with("attrs", self.attrs_json(item.hir_id()))
                        .with("span", self.span_json(item.span));
                    // size_of where it can be computed
                    let ty = tcx.type_of(did).instantiate_identity().skip_norm_wip();
                    let env = ty::TypingEnv::fully_monomorphized();
                    if tcx.generics_of(did).is_empty() {
                        if let Ok(layout) = tcx.layout_of(env.as_query_input(ty)) {
                            o.set("size", J::Int(layout.size.bytes() as i128));
                        }
                    }
                    adts.push(o);
                }
                hir::ItemKind::Impl(imp) => {
                    let st = tcx.type_of(did).instantiate_identity().skip_norm_wip();
                    let mut o = J::obj()
                        .with("self_ty", J::s(self.ty_s(st)))
                        .with("in_src", J::Bool(in_src))
                        .with("from_expansion", J::Bool(item.span.from_expansion()))
                        .with("span", self.span_json(item.span));
                    if let ty::Adt(ad, _) = st.kind() {
                        o.set("self_adt", J::s(self.def_path(ad.did())));
                    }
                    if let Some(trf) = tcx.impl_opt_trait_ref(did) {
                        let trf = trf.instantiate_identity().skip_norm_wip();
                        o.set("trait", J::s(self.def_path(trf.def_id)));
                        o.set("trait_full", J::s(no_trim(|| format!("{}", trf.print_only_trait_path()))));
                    }
                    let mut is_unsafe = false;
                    if let Some(of) = imp.of_trait {
                        if matches!(of.safety, hir::Safety::Unsafe) {
                            is_unsafe = true;
                        }
                    }
                    if is_unsafe {
                        o.set("unsafe", J::Bool(true));
                        if in_src {
                            unsafe_items += 1;
                        }
                    }
                    let items = imp
                        .items
                        .iter()
                        .map(|r| J::s(tcx.item_name(r.owner_id.to_def_id()).to_string()))
                        .collect();
                    o.set("items", J::Arr(items));
                    impls.push(o);
                }
                hir::ItemKind::Macro(..) => {
                    macros.push(J::s(self.def_path(did)));
                }
                _ => {}
            }
        }
        J::obj()
            .with("adts", J::Arr(adts))
            .with("impls", J::Arr(impls))
            .with("macros", J::Arr(macros))
            .with("unsafe_impls_in_src", J::Int(unsafe_items))
    }

    fn doc_of(&self, hid: hir::HirId) -> String {
        let mut s = String::new();
        for a in self.tcx.hir_attrs(hid) {
            if let Some((sym, _)) = a.doc_str_and_fragment_kind() {
                s.push_str(sym.as_str());
                s.push('\n');
            }
        }
        s
    }
}

fn inst_kind(inst: &ty::Instance<'_>) -> String {
    let s = format!("{:?}", inst.def);
    match s.find('(') {
        Some(i) => s[..i].to_string(),
        None => s,
    }
}

pub fn lit_json(l: &hir::Lit, negated: bool) -> J {
    use rustc_ast::LitKind;
    let mut o = J::obj();
    match &l.node {
        LitKind::Str(s, _) => {
            o.set("t", J::s("str"));
            o.set("v", J::s(s.as_str().to_string()));
        }
        LitKind::ByteStr(b, _) | LitKind::CStr(b, _) => {
            o.set("t", J::s("bytes"));
            o.set("v", J::Arr(b.as_byte_str().iter().map(|x| J::Int(*x as i128)).collect()));
        }
        LitKind::Byte(b) => {
            o.set("t", J::s("byte"));
            o.set("v", J::Int(*b as i128));
        }
        LitKind::Char(c) => {
            o.set("t", J::s("char"));
            o.set("v", J::s(c.to_string()));
        }
        LitKind::Int(n, t) => {
            o.set("t", J::s("int"));
            let v = n.get() as i128;
            o.set("v", J::Int(if negated { -v } else { v }));
            o.set("suffix", J::s(format!("{:?}", t)));
        }
        LitKind::Float(s, _) => {
            o.set("t", J::s("float"));
            o.set("v", J::s(s.as_str().to_string()));
        }
        LitKind::Bool(b) => {
            o.set("t", J::s("bool"));
            o.set("v", J::Bool(*b));
        }
        LitKind::Err(_) => {
            o.set("t", J::s("err"));
        }
    }
    o
}

struct ArgFinder<'h, 's> {
    want: &'s [Span],
    found: Vec<Option<&'h hir::Expr<'h>>>,
}

impl<'h, 's> rustc_hir::intravisit::Visitor<'h> for ArgFinder<'h, 's> {
    fn visit_expr(&mut self, e: &'h hir::Expr<'h>) {
        let mut hit = false;
        for (i, w) in self.want.iter().enumerate() {
            if self.found[i].is_none() && crate::span_key(*w) == crate::span_key(e.span) {
                self.found[i] = Some(e);
                hit = true;
            }
        }
        if !hit {
            rustc_hir::intravisit::walk_expr(self, e);
        }
    }
}

struct UnsafeCounter {
    n: i128,
}

impl<'h> rustc_hir::intravisit::Visitor<'h> for UnsafeCounter {
    fn visit_block(&mut self, b: &'h hir::Block<'h>) {
        if let hir::BlockCheckMode::UnsafeBlock(hir::UnsafeSource::UserProvided) = b.rules {
            self.n += 1;
        }
        rustc_hir::intravisit::walk_block(self, b);
    }
}
