//! Minimal JSON value + writer (no external crates are available to the driver).

use std::fmt::Write;

#[derive(Clone, Debug)]
pub enum J {
    Null,
    Bool(bool),
    Int(i128),
    Str(String),
    Arr(Vec<J>),
    Obj(Vec<(&'static str, J)>),
}

impl J {
    pub fn s<S: Into<String>>(s: S) -> J {
        J::Str(s.into())
    }
    pub fn obj() -> J {
        J::Obj(Vec::new())
    }
    pub fn set(&mut self, k: &'static str, v: J) {
        if let J::Obj(o) = self {
            o.push((k, v));
        }
    }
    pub fn with(mut self, k: &'static str, v: J) -> J {
        self.set(k, v);
        self
    }
    pub fn write(&self, out: &mut String) {
        match self {
            J::Null => out.push_str("null"),
            J::Bool(b) => out.push_str(if *b { "true" } else { "false" }),
            J::Int(i) => {
                let _ = write!(out, "{}", i);
            }
            J::Str(s) => write_str(s, out),
            J::Arr(a) => {
                out.push('[');
                for (i, x) in a.iter().enumerate() {
                    if i > 0 {
                        out.push(',');
                    }
                    x.write(out);
                }
                out.push(']');
            }
            J::Obj(o) => {
                out.push('{');
                for (i, (k, v)) in o.iter().enumerate() {
                    if i > 0 {
                        out.push(',');
                    }
                    write_str(k, out);
                    out.push(':');
                    v.write(out);
                }
                out.push('}');
            }
        }
    }
}

fn write_str(s: &str, out: &mut String) {
    out.push('"');
    for c in s.chars() {
        match c {
            '"' => out.push_str("\\\""),
            '\\' => out.push_str("\\\\"),
            '\n' => out.push_str("\\n"),
            '\r' => out.push_str("\\r"),
            '\t' => out.push_str("\\t"),
            c if (c as u32) < 0x20 => {
                let _ = write!(out, "\\u{:04x}", c as u32);
            }
            c => out.push(c),
        }
    }
    out.push('"');
}
