//! fml-facts: a rustc_private *dumper*. Run as RUSTC_WORKSPACE_WRAPPER under
//! `cargo +nightly check`; for the selected crate(s) it writes the resolved program
//! (HIR + type-check results, MIR, ADTs, format_args templates) as JSON facts.
//! It decides nothing; all rules live in /verif/engine.
#![feature(rustc_private)]
#![allow(clippy::all)]

extern crate rustc_abi;
extern crate rustc_ast;
extern crate rustc_ast_pretty;
extern crate rustc_data_structures;
extern crate rustc_driver;
extern crate rustc_hir;
extern crate rustc_interface;
extern crate rustc_middle;
extern crate rustc_session;
extern crate rustc_span;

mod hirdump;
mod json;
mod mirdump;

use json::J;
use rustc_driver::Compilation;
use rustc_interface::interface;
use rustc_middle::ty::TyCtxt;
use rustc_span::Span;
use std::collections::HashMap;

/// One `format_args!` invocation captured on the expanded AST.
#[derive(Clone, Debug)]
pub struct FmtInfo {
    /// template pieces: literal text or placeholder (argument index, trait, options)
    pub pieces: Vec<FmtPiece>,
    /// spans of the argument expressions, in `all_args()` order
    pub arg_spans: Vec<Span>,
    /// source text of arguments that are plain literals (`0`, `'S'`, `"x"`): the lowering may inline them, so that no
    /// HIR expression with that span is left to find
    pub arg_lits: Vec<Option<String>>,
}

#[derive(Clone, Debug)]
pub enum FmtPiece {
    Lit(String),
    Arg { index: usize, tr: String, spec: String },
}

pub type SpanKey = (u32, u32, rustc_span::SyntaxContext);

/// Span identity that ignores the incremental-compilation `parent` field.
pub fn span_key(sp: Span) -> SpanKey {
    let d = sp.data();
    (d.lo.0, d.hi.0, d.ctxt)
}

/// A derive-helper / tool attribute found on an item, variant or field of the expanded AST.
#[derive(Clone, Debug)]
pub struct HelperAttr {
    pub item: String,
    pub on: String,
    pub text: String,
}

struct Cb {
    helper_attrs: Vec<HelperAttr>,
    fmt: HashMap<SpanKey, FmtInfo>,
    selected: bool,
}

struct FmtCollector<'a> {
    out: &'a mut HashMap<SpanKey, FmtInfo>,
    attrs: &'a mut Vec<HelperAttr>,
    item_stack: Vec<String>,
}

impl<'a> FmtCollector<'a> {
    fn record(&mut self, on: String, attrs: &[rustc_ast::Attribute]) {
        for a in attrs {
            if let rustc_ast::AttrKind::Normal(n) = &a.kind {
                let first = n.item.path.segments.first().map(|s| s.ident.name.as_str().to_string()).unwrap_or_default();
                if first == "serde" || first == "clap" {
                    self.attrs.push(HelperAttr {
                        item: self.item_stack.last().cloned().unwrap_or_default(),
                        on: on.clone(),
                        text: rustc_ast_pretty::pprust::attribute_to_string(a),
                    });
                }
            }
        }
    }
}

impl<'ast, 'a> rustc_ast::visit::Visitor<'ast> for FmtCollector<'a> {
    fn visit_item(&mut self, i: &'ast rustc_ast::Item) {
        let name = i.kind.ident().map(|id| id.name.as_str().to_string()).unwrap_or_default();
        self.item_stack.push(name);
        self.record("item".to_string(), &i.attrs);
        rustc_ast::visit::walk_item(self, i);
        self.item_stack.pop();
    }
    fn visit_variant(&mut self, v: &'ast rustc_ast::Variant) {
        self.record(format!("variant {}", v.ident.name.as_str()), &v.attrs);
        self.item_stack.push(format!("{}::{}", self.item_stack.last().cloned().unwrap_or_default(), v.ident.name.as_str()));
        rustc_ast::visit::walk_variant(self, v);
        self.item_stack.pop();
    }
    fn visit_field_def(&mut self, f: &'ast rustc_ast::FieldDef) {
        let n = f.ident.map(|i| i.name.as_str().to_string()).unwrap_or_else(|| "?".to_string());
        self.record(format!("field {}", n), &f.attrs);
        rustc_ast::visit::walk_field_def(self, f);
    }
    fn visit_expr(&mut self, e: &'ast rustc_ast::Expr) {
        if let rustc_ast::ExprKind::FormatArgs(fa) = &e.kind {
            let mut pieces = Vec::new();
            for p in fa.template.iter() {
                match p {
                    rustc_ast::FormatArgsPiece::Literal(s) => {
                        pieces.push(FmtPiece::Lit(s.as_str().to_string()))
                    }
                    rustc_ast::FormatArgsPiece::Placeholder(ph) => {
                        let index = match ph.argument.index {
                            Ok(i) => i,
                            Err(i) => i,
                        };
                        let o = &ph.format_options;
                        let spec = format!(
                            "w={:?};p={:?};a={:?};f={:?};s={:?};alt={};z={};x={:?}",
                            o.width, o.precision, o.alignment, o.fill, o.sign, o.alternate, o.zero_pad, o.debug_hex
                        );
                        let default_spec = o.width.is_none()
                            && o.precision.is_none()
                            && o.alignment.is_none()
                            && o.fill.is_none()
                            && o.sign.is_none()
                            && !o.alternate
                            && !o.zero_pad
                            && o.debug_hex.is_none();
                        pieces.push(FmtPiece::Arg {
                            index,
                            tr: format!("{:?}", ph.format_trait),
                            spec: if default_spec { String::new() } else { spec },
                        });
                    }
                }
            }
            let arg_spans = fa.arguments.all_args().iter().map(|a| a.expr.span).collect();
            let arg_lits = fa
                .arguments
                .all_args()
                .iter()
                .map(|a| match &a.expr.kind {
                    rustc_ast::ExprKind::Lit(l) => match l.kind {
                        rustc_ast::token::LitKind::Integer | rustc_ast::token::LitKind::Bool => Some(l.symbol.as_str().to_string()),
                        _ => None,
                    },
                    _ => None,
                })
                .collect();
            self.out.insert(span_key(e.span), FmtInfo { pieces, arg_spans, arg_lits });
        }
        rustc_ast::visit::walk_expr(self, e);
    }
}

impl rustc_driver::Callbacks for Cb {
    fn config(&mut self, _config: &mut interface::Config) {}

    fn after_expansion<'tcx>(&mut self, _c: &interface::Compiler, tcx: TyCtxt<'tcx>) -> Compilation {
        if !self.selected {
            return Compilation::Continue;
        }
        let resolver_and_krate = tcx.resolver_for_lowering().borrow();
        let krate = &resolver_and_krate.1;
        let mut v = FmtCollector { out: &mut self.fmt, attrs: &mut self.helper_attrs, item_stack: Vec::new() };
        rustc_ast::visit::walk_crate(&mut v, krate);
        Compilation::Continue
    }

    fn after_analysis<'tcx>(&mut self, _c: &interface::Compiler, tcx: TyCtxt<'tcx>) -> Compilation {
        if !self.selected {
            return Compilation::Continue;
        }
        let out_dir = match std::env::var("FML_FACTS_OUT") {
            Ok(d) => std::path::PathBuf::from(d),
            Err(_) => return Compilation::Continue,
        };
        let crate_name = tcx.crate_name(rustc_hir::def_id::LOCAL_CRATE).to_string();
        let src_root = std::env::var("FML_FACTS_SRC_ROOT").unwrap_or_default();
        let cx = hirdump::Cx::new(tcx, &self.fmt, src_root);
        let hir = cx.dump_bodies();
        let adts = cx.dump_adts();
        let mir = mirdump::dump_mir(&cx);
        let meta = dump_meta(tcx, &crate_name);
        let ha = J::Arr(
            self.helper_attrs
                .iter()
                .map(|h| J::obj().with("item", J::s(h.item.clone())).with("on", J::s(h.on.clone())).with("text", J::s(h.text.clone())))
                .collect(),
        );
        let all = J::obj()
            .with("helper_attrs", ha)
            .with("meta", meta)
            .with("hir", hir)
            .with("adts", adts)
            .with("mir", mir);
        let mut s = String::with_capacity(1 << 24);
        all.write(&mut s);
        let _ = std::fs::create_dir_all(&out_dir);
        let tmp = out_dir.join(format!(".{}.facts.json.tmp{}", crate_name, std::process::id()));
        let fin = out_dir.join(format!("{}.facts.json", crate_name));
        std::fs::write(&tmp, s).expect("fml-facts: cannot write facts");
        std::fs::rename(&tmp, &fin).expect("fml-facts: cannot rename facts");
        Compilation::Continue
    }
}

fn dump_meta<'tcx>(tcx: TyCtxt<'tcx>, crate_name: &str) -> J {
    let sess = tcx.sess;
    let mut cfgs: Vec<String> = sess
        .config
        .iter()
        .map(|(k, v)| match v {
            Some(v) => format!("{}={}", k, v),
            None => k.to_string(),
        })
        .collect();
    cfgs.sort();
    J::obj()
        .with("crate", J::s(crate_name))
        .with("nonce", J::s(std::env::var("FML_FACTS_NONCE").unwrap_or_default()))
        .with("rustc", J::s(option_env!("CFG_VERSION").unwrap_or("nightly").to_string()))
        .with("overflow_checks", J::Bool(sess.overflow_checks()))
        .with("debug_assertions", J::Bool(sess.opts.debug_assertions))
        .with("opt_level", J::s(format!("{:?}", sess.opts.optimize)))
        .with("panic", J::s(format!("{:?}", sess.panic_strategy())))
        .with("cfgs", J::Arr(cfgs.into_iter().map(J::s).collect()))
}

fn main() {
    let mut args: Vec<String> = std::env::args().collect();
    // RUSTC_WORKSPACE_WRAPPER: argv[1] is the path of the real rustc; drop it.
    if args.len() > 1 && (args[1].ends_with("rustc") || args[1].contains("/rustc")) {
        args.remove(1);
    }
    let wanted = std::env::var("FML_FACTS_CRATES").unwrap_or_else(|_| "fml".to_string());
    let mut crate_name = String::new();
    let mut i = 0;
    while i < args.len() {
        if args[i] == "--crate-name" && i + 1 < args.len() {
            crate_name = args[i + 1].clone();
        }
        i += 1;
    }
    let selected = wanted.split(',').any(|w| w == crate_name);
    let mut cb = Cb { helper_attrs: Vec::new(), fmt: HashMap::new(), selected };
    rustc_driver::run_compiler(&args, &mut cb);
}
