//! MIR dump (built with -Zmir-opt-level=0): CFG, places with named field projections,
//! resolved call targets. Bodies outside <src_root>/src (the generated parser) are
//! reduced to their call edges.

use crate::hirdump::Cx;
use crate::json::J;
use rustc_hir::def::DefKind;
use rustc_hir::def_id::LocalDefId;
use rustc_middle::mir::{self, PlaceTy, Operand, Place, ProjectionElem, Rvalue, StatementKind, TerminatorKind};
use rustc_middle::ty::{self, TyCtxt};

pub fn dump_mir<'tcx, 'a>(cx: &Cx<'tcx, 'a>) -> J {
    let tcx = cx.tcx;
    let mut bodies = Vec::new();
    for ldid in tcx.mir_keys(()).iter().copied() {
        let dk = tcx.def_kind(ldid);
        if !matches!(dk, DefKind::Fn | DefKind::AssocFn | DefKind::Closure | DefKind::Ctor(..)) {
            continue;
        }
        if matches!(dk, DefKind::Ctor(..)) {
            continue;
        }
        let body = tcx.optimized_mir(ldid.to_def_id());
        let in_src = cx.in_src(tcx.def_span(ldid));
        bodies.push(body_json(cx, tcx, ldid, body, in_src));
    }
    J::obj().with("bodies", J::Arr(bodies))
}

fn body_json<'tcx, 'a>(cx: &Cx<'tcx, 'a>, tcx: TyCtxt<'tcx>, ldid: LocalDefId, body: &mir::Body<'tcx>, in_src: bool) -> J {
    let did = ldid.to_def_id();
    let mut o = J::obj()
        .with("path", J::s(cx.def_path(did)))
        .with("did", J::s(format!("{}:{}", did.krate.as_u32(), did.index.as_u32())))
        .with("dk", J::s(format!("{:?}", tcx.def_kind(ldid))))
        .with("in_src", J::Bool(in_src))
        .with("from_expansion", J::Bool(tcx.def_span(ldid).from_expansion()))
        .with("span", cx.span_json(tcx.def_span(ldid)));
    if matches!(tcx.def_kind(ldid), DefKind::Closure) {
        let parent = tcx.typeck_root_def_id(did);
        o.set("closure_of", J::s(cx.def_path(parent)));
    }
    if !in_src {
        // call edges only
        let mut calls = Vec::new();
        for bb in body.basic_blocks.iter() {
            if let Some(t) = &bb.terminator {
                if let TerminatorKind::Call { func, .. } = &t.kind {
                    if let Some(c) = callee_of(cx, func, ldid) {
                        calls.push(c);
                    }
                }
            }
        }
        o.set("calls", J::Arr(calls));
        return o;
    }
    // locals
    let mut names: Vec<Option<String>> = vec![None; body.local_decls.len()];
    for vdi in body.var_debug_info.iter() {
        if let mir::VarDebugInfoContents::Place(p) = &vdi.value {
            if p.projection.is_empty() {
                names[p.local.as_usize()] = Some(vdi.name.as_str().to_string());
            }
        }
    }
    let locals: Vec<J> = body
        .local_decls
        .iter_enumerated()
        .map(|(l, d)| {
            let mut lo = J::obj().with("ty", cx.ty_id(d.ty));
            if let Some(n) = &names[l.as_usize()] {
                lo.set("name", J::s(n.clone()));
            }
            lo
        })
        .collect();
    o.set("locals", J::Arr(locals));
    o.set("arg_count", J::Int(body.arg_count as i128));
    let mut blocks = Vec::new();
    for bb in body.basic_blocks.iter() {
        let mut stmts = Vec::new();
        for s in bb.statements.iter() {
            match &s.kind {
                StatementKind::Assign(b) => {
                    let (p, rv) = &**b;
                    stmts.push(
                        J::obj()
                            .with("k", J::s("Assign"))
                            .with("p", place_json(cx, tcx, body, p))
                            .with("rv", rvalue_json(cx, tcx, body, rv, ldid))
                            .with("sp", cx.span_json(s.source_info.span)),
                    );
                }
                StatementKind::SetDiscriminant { place, variant_index } => {
                    stmts.push(
                        J::obj()
                            .with("k", J::s("SetDiscriminant"))
                            .with("p", place_json(cx, tcx, body, place))
                            .with("v", J::Int(variant_index.as_u32() as i128)),
                    );
                }
                StatementKind::Intrinsic(_) => {
                    stmts.push(J::obj().with("k", J::s("Intrinsic")));
                }
                _ => {}
            }
        }
        let mut bo = J::obj().with("stmts", J::Arr(stmts));
        if bb.is_cleanup {
            bo.set("cleanup", J::Bool(true));
        }
        if let Some(t) = &bb.terminator {
            bo.set("term", term_json(cx, tcx, body, t, ldid));
        }
        blocks.push(bo);
    }
    o.set("blocks", J::Arr(blocks));
    o
}

fn callee_of<'tcx, 'a>(cx: &Cx<'tcx, 'a>, func: &Operand<'tcx>, owner: LocalDefId) -> Option<J> {
    if let Operand::Constant(c) = func {
        if let ty::FnDef(did, args) = c.const_.ty().kind() {
            return Some(cx.callee_json(*did, args, owner));
        }
    }
    None
}

fn place_json<'tcx, 'a>(cx: &Cx<'tcx, 'a>, tcx: TyCtxt<'tcx>, body: &mir::Body<'tcx>, p: &Place<'tcx>) -> J {
    let mut proj = Vec::new();
    let mut pty = PlaceTy::from_ty(body.local_decls[p.local].ty);
    for elem in p.projection.iter() {
        match elem {
            ProjectionElem::Deref => proj.push(J::obj().with("k", J::s("Deref"))),
            ProjectionElem::Field(f, _) => {
                let mut fo = J::obj().with("k", J::s("Field")).with("i", J::Int(f.as_u32() as i128));
                match pty.ty.kind() {
                    ty::Adt(ad, _) => {
                        let vi = pty.variant_index.unwrap_or(rustc_abi::FIRST_VARIANT);
                        let v = ad.variant(vi);
                        fo.set("adt", J::s(cx.def_path(ad.did())));
                        if ad.is_enum() {
                            fo.set("variant", J::s(v.name.as_str().to_string()));
                        }
                        fo.set("name", J::s(v.fields[f].name.as_str().to_string()));
                    }
                    ty::Closure(..) => {
                        fo.set("upvar", J::Bool(true));
                    }
                    _ => {}
                }
                proj.push(fo);
            }
            ProjectionElem::Index(l) => {
                proj.push(J::obj().with("k", J::s("Index")).with("l", J::Int(l.as_u32() as i128)))
            }
            ProjectionElem::ConstantIndex { offset, from_end, .. } => proj.push(
                J::obj().with("k", J::s("ConstantIndex")).with("off", J::Int(offset as i128)).with("from_end", J::Bool(from_end)),
            ),
            ProjectionElem::Subslice { .. } => proj.push(J::obj().with("k", J::s("Subslice"))),
            ProjectionElem::Downcast(name, vi) => {
                let mut d = J::obj().with("k", J::s("Downcast")).with("vi", J::Int(vi.as_u32() as i128));
                if let Some(n) = name {
                    d.set("v", J::s(n.as_str().to_string()));
                }
                proj.push(d)
            }
            ProjectionElem::OpaqueCast(_) => proj.push(J::obj().with("k", J::s("OpaqueCast"))),
            ProjectionElem::UnwrapUnsafeBinder(_) => proj.push(J::obj().with("k", J::s("UnwrapUnsafeBinder"))),
        }
        pty = pty.projection_ty(tcx, elem);
    }
    let mut o = J::obj().with("l", J::Int(p.local.as_u32() as i128));
    if !proj.is_empty() {
        o.set("proj", J::Arr(proj));
    }
    o
}

fn operand_json<'tcx, 'a>(cx: &Cx<'tcx, 'a>, tcx: TyCtxt<'tcx>, body: &mir::Body<'tcx>, op: &Operand<'tcx>, owner: LocalDefId) -> J {
    match op {
        Operand::Copy(p) => J::obj().with("k", J::s("Copy")).with("p", place_json(cx, tcx, body, p)),
        Operand::Move(p) => J::obj().with("k", J::s("Move")).with("p", place_json(cx, tcx, body, p)),
        Operand::Constant(c) => {
            let mut o = J::obj().with("k", J::s("Const")).with("ty", cx.ty_id(c.const_.ty()));
            if let ty::FnDef(did, args) = c.const_.ty().kind() {
                o.set("fn", cx.callee_json(*did, args, owner));
            } else {
                let s = rustc_middle::ty::print::with_no_trimmed_paths!(format!("{}", c.const_));
                let s = if s.len() > 200 { s.chars().take(200).collect() } else { s };
                o.set("v", J::s(s));
            }
            o
        }
        #[allow(unreachable_patterns)]
        _ => J::obj().with("k", J::s("OtherOperand")),
    }
}

fn rvalue_json<'tcx, 'a>(cx: &Cx<'tcx, 'a>, tcx: TyCtxt<'tcx>, body: &mir::Body<'tcx>, rv: &Rvalue<'tcx>, owner: LocalDefId) -> J {
    match rv {
        Rvalue::Use(op, ..) => J::obj().with("k", J::s("Use")).with("op", operand_json(cx, tcx, body, op, owner)),
        Rvalue::Repeat(op, _) => J::obj().with("k", J::s("Repeat")).with("op", operand_json(cx, tcx, body, op, owner)),
        Rvalue::Ref(_, bk, p) => J::obj()
            .with("k", J::s("Ref"))
            .with("mut", J::Bool(matches!(bk, mir::BorrowKind::Mut { .. })))
            .with("bk", J::s(format!("{:?}", bk)))
            .with("p", place_json(cx, tcx, body, p)),
        Rvalue::ThreadLocalRef(_) => J::obj().with("k", J::s("ThreadLocalRef")),
        Rvalue::RawPtr(k, p) => {
            J::obj().with("k", J::s("RawPtr")).with("kind", J::s(format!("{:?}", k))).with("p", place_json(cx, tcx, body, p))
        }
        Rvalue::Cast(k, op, t) => J::obj()
            .with("k", J::s("Cast"))
            .with("kind", J::s(format!("{:?}", k)))
            .with("op", operand_json(cx, tcx, body, op, owner))
            .with("from", J::s(cx.ty_s(op.ty(&body.local_decls, tcx))))
            .with("to", J::s(cx.ty_s(*t))),
        Rvalue::BinaryOp(op, b) => {
            let (a, c) = &**b;
            J::obj()
                .with("k", J::s("BinaryOp"))
                .with("op", J::s(format!("{:?}", op)))
                .with("a", operand_json(cx, tcx, body, a, owner))
                .with("b", operand_json(cx, tcx, body, c, owner))
                .with("aty", J::s(cx.ty_s(a.ty(&body.local_decls, tcx))))
        }
        Rvalue::UnaryOp(op, a) => J::obj()
            .with("k", J::s("UnaryOp"))
            .with("op", J::s(format!("{:?}", op)))
            .with("a", operand_json(cx, tcx, body, a, owner)),
        Rvalue::Discriminant(p) => J::obj().with("k", J::s("Discriminant")).with("p", place_json(cx, tcx, body, p)),
        Rvalue::Aggregate(kind, ops) => {
            let mut o = J::obj().with("k", J::s("Aggregate"));
            match &**kind {
                mir::AggregateKind::Adt(did, vi, _, _, _) => {
                    let ad = tcx.adt_def(*did);
                    o.set("adt", J::s(cx.def_path(*did)));
                    o.set("variant", J::s(ad.variant(*vi).name.as_str().to_string()));
                    let names = ad.variant(*vi).fields.iter().map(|f| J::s(f.name.as_str().to_string())).collect();
                    o.set("field_names", J::Arr(names));
                }
                mir::AggregateKind::Closure(did, _) => {
                    o.set("closure", J::s(cx.def_path(*did)));
                }
                mir::AggregateKind::Tuple => o.set("tuple", J::Bool(true)),
                mir::AggregateKind::Array(_) => o.set("array", J::Bool(true)),
                _ => o.set("other", J::Bool(true)),
            }
            o.set("ops", J::Arr(ops.iter().map(|x| operand_json(cx, tcx, body, x, owner)).collect()));
            o
        }
        Rvalue::CopyForDeref(p) => J::obj().with("k", J::s("CopyForDeref")).with("p", place_json(cx, tcx, body, p)),
        Rvalue::WrapUnsafeBinder(..) => J::obj().with("k", J::s("WrapUnsafeBinder")),
        #[allow(unreachable_patterns)]
        _ => J::obj().with("k", J::s("OtherRvalue")),
    }
}

fn term_json<'tcx, 'a>(cx: &Cx<'tcx, 'a>, tcx: TyCtxt<'tcx>, body: &mir::Body<'tcx>, t: &mir::Terminator<'tcx>, owner: LocalDefId) -> J {
    let bbj = |b: mir::BasicBlock| J::Int(b.as_u32() as i128);
    let unwind_json = |u: &mir::UnwindAction| match u {
        mir::UnwindAction::Cleanup(b) => J::Int(b.as_u32() as i128),
        _ => J::Null,
    };
    let mut o = match &t.kind {
        TerminatorKind::Goto { target } => J::obj().with("k", J::s("Goto")).with("t", bbj(*target)),
        TerminatorKind::SwitchInt { discr, targets } => {
            let mut ts = Vec::new();
            for (v, b) in targets.iter() {
                ts.push(J::Arr(vec![J::Int(v as i128), bbj(b)]));
            }
            J::obj()
                .with("k", J::s("SwitchInt"))
                .with("discr", operand_json(cx, tcx, body, discr, owner))
                .with("targets", J::Arr(ts))
                .with("otherwise", bbj(targets.otherwise()))
        }
        TerminatorKind::UnwindResume => J::obj().with("k", J::s("UnwindResume")),
        TerminatorKind::UnwindTerminate(_) => J::obj().with("k", J::s("UnwindTerminate")),
        TerminatorKind::Return => J::obj().with("k", J::s("Return")),
        TerminatorKind::Unreachable => J::obj().with("k", J::s("Unreachable")),
        TerminatorKind::Drop { place, target, unwind, .. } => J::obj()
            .with("k", J::s("Drop"))
            .with("p", place_json(cx, tcx, body, place))
            .with("t", bbj(*target))
            .with("unwind", unwind_json(unwind)),
        TerminatorKind::Call { func, args, destination, target, unwind, fn_span, .. } => {
            let mut c = J::obj().with("k", J::s("Call"));
            match callee_of(cx, func, owner) {
                Some(cj) => c.set("callee", cj),
                None => c.set("indirect", operand_json(cx, tcx, body, func, owner)),
            }
            c.set("args", J::Arr(args.iter().map(|a| operand_json(cx, tcx, body, &a.node, owner)).collect()));
            c.set("dest", place_json(cx, tcx, body, destination));
            if let Some(t) = target {
                c.set("t", bbj(*t));
            }
            c.set("unwind", unwind_json(unwind));
            c.set("fn_sp", cx.span_json(*fn_span));
            c
        }
        TerminatorKind::TailCall { func, .. } => {
            let mut c = J::obj().with("k", J::s("TailCall"));
            if let Some(cj) = callee_of(cx, func, owner) {
                c.set("callee", cj);
            }
            c
        }
        TerminatorKind::Assert { cond, expected, msg, target, unwind } => {
            let kind = format!("{:?}", msg);
            let kind = match kind.find('(') {
                Some(i) => kind[..i].to_string(),
                None => kind,
            };
            J::obj()
                .with("k", J::s("Assert"))
                .with("cond", operand_json(cx, tcx, body, cond, owner))
                .with("expected", J::Bool(*expected))
                .with("msg", J::s(kind))
                .with("t", bbj(*target))
                .with("unwind", unwind_json(unwind))
        }
        TerminatorKind::FalseEdge { real_target, .. } => J::obj().with("k", J::s("Goto")).with("t", bbj(*real_target)),
        TerminatorKind::FalseUnwind { real_target, .. } => J::obj().with("k", J::s("Goto")).with("t", bbj(*real_target)),
        TerminatorKind::Yield { .. } => J::obj().with("k", J::s("Yield")),
        TerminatorKind::CoroutineDrop => J::obj().with("k", J::s("CoroutineDrop")),
        TerminatorKind::InlineAsm { .. } => J::obj().with("k", J::s("InlineAsm")),
    };
    o.set("sp", cx.span_json(t.source_info.span));
    o
}
