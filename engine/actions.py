"""E4' — the grammar's semantic actions as type-checked code.

LALRPOP turns every alternative's action into a function `__actionN` of the generated parser and documents, next to each
reduction, which production runs which action (`// Lhs = Sym, Sym => ActionFn(N);`).  The fact dumper exports those
functions (HIR + types, `generated_actions`) and those comment lines (`generated_productions`, from the text rustc compiled), so an action is analysed like any other function of the crate: callees are
resolved by rustc, constructor helpers are followed into src/parser/mod.rs, and the *value an alternative builds* is a
term over the alternative's captured symbols — independent of how the action happens to be spelled in the grammar file.

    productions(fx)                     [(lhs, (rhs symbol, …), N)] read from the generated parser's reduction comments
    for_alt(fx, g, rule, alt)           the productions that instantiate one alternative of the grammar file
                                        (macro arguments instantiated, `?` symbols present / absent)
    results(fx, g, rule, alt)           [(instantiation, [(out, effects)])]: the action executed symbolically with each
                                        captured symbol `<name: X>` bound to var(name) (anonymous ones to var('@i'))
"""
import os
import re

from .symex import Executor, Client, State

_PROD = re.compile(r"^\s*//\s*(\S.*?)\s=\s(.*?)\s*=>\s*ActionFn\((\d+)\);\s*$")


def _split_syms(s):
    out, depth, cur = [], 0, ""
    for ch in s:
        if ch in "(<":
            depth += 1
        elif ch in ")>":
            depth -= 1
        if ch == "," and depth == 0:
            out.append(cur.strip())
            cur = ""
        else:
            cur += ch
    if cur.strip():
        out.append(cur.strip())
    return tuple(out)


def productions(fx):
    cached = getattr(fx, "_productions", None)
    if cached is not None:
        return cached
    out = []
    # the lines come with the facts (the dumper copies them from the source text rustc compiled), never from a file on
    # disk that a later build of another tree may have overwritten
    for line in getattr(fx, "gen_productions", []):
        m = _PROD.match(line)
        if m:
            out.append((m.group(1).strip(), _split_syms(m.group(2)), int(m.group(3))))
    out = sorted(set(out))
    fx._productions = out
    return out


def action_body(fx, n):
    idx = getattr(fx, "_gen_by_name", None)
    if idx is None:
        idx = {b["name"]: b for b in fx.gen_actions}
        fx._gen_by_name = idx
        for b in fx.gen_actions:
            fx.hir_by_did.setdefault(b["did"], b)      # resolvable as callees (composite actions call the basic ones)
    return idx.get("__action%d" % n)


def base(sym):
    """`Expression<"open">` → Expression; `(X Y)*` stays as written"""
    sym = sym.strip()
    if sym.startswith("("):
        return sym
    return sym.split("<", 1)[0].rstrip("?*+")


def inst_args(lhs):
    """macro arguments of an instantiated left-hand side: `Conditional<"open">` → ('"open"',)"""
    if "<" not in lhs or lhs.startswith("("):
        return ()
    inner = lhs[lhs.index("<") + 1: lhs.rindex(">")]
    return _split_syms(inner)


def _alt_shapes(alt):
    """the symbol sequences one alternative expands to: every `?` symbol present or absent; an optional or plain group
    `( A B )?` is inlined by LALRPOP, so its inner symbols appear in the production. Each shape is a list of positions:
    i (a symbol of the alternative) or (i, j) (the j-th inner symbol of group i)."""
    shapes = [[]]
    for i, sy in enumerate(alt.symbols):
        rep = getattr(sy, "rep", "") or ""
        if sy.kind == "group" and rep in ("?", ""):
            inner = [(i, j) for j in range(len(sy.group))]
            present = [s + inner for s in shapes]
            shapes = present + ([list(s) for s in shapes] if rep == "?" else [])
        elif rep == "?":
            shapes = [s + [i] for s in shapes] + [list(s) for s in shapes]
        else:
            shapes = [s + [i] for s in shapes]
    return shapes


def _sym_at(alt, pos):
    return alt.symbols[pos] if isinstance(pos, int) else alt.symbols[pos[0]].group[pos[1]]


def _sym_matches(sy, text):
    """does the grammar-file symbol `sy` print as `text` in a production (macro arguments ignored)?"""
    if sy.kind == "group":
        return text.startswith("(")
    return base(text) == sy.ref


def for_alt(fx, g, rule_name, alt):
    """[(lhs, rhs, N, positions)] — positions[i] = position (in the alternative) of the production's i-th symbol"""
    out = []
    for lhs, rhs, n in productions(fx):
        if lhs.startswith("(") or base(lhs) != rule_name:
            continue
        for shape in _alt_shapes(alt):
            if len(shape) != len(rhs):
                continue
            if all(_sym_matches(_sym_at(alt, i), t) for i, t in zip(shape, rhs)):
                out.append((lhs, rhs, n, shape))
                break
    return out


class ActionClient(Client):
    """Operator::as_str / Display for Operator are *the spelling* of an operator: kept as the operator itself here (one
    value instead of 13 case splits); that the spelling table is S6's is R7.spelling's obligation."""
    name = "grammar-actions"
    inline_depth = 10

    def pure(self, ex, path, node, recv, args):
        if path in ("parser::Operator::as_str", "<parser::Operator as std::fmt::Display>::fmt") and recv is not None and not args:
            return recv
        if path.endswith("ToString::to_string") and recv is not None and (ex.fx.ty(node.get("recv") or {}) or "").lstrip("&").endswith("parser::Operator"):
            return recv
        return None


def var_of(alt, i, positional=False):
    sy = _sym_at(alt, i)
    if isinstance(i, tuple):
        return ("var", "@%d.%d" % i)
    if positional:
        return ("var", "@%d" % i)
    return ("var", sy.binder) if getattr(sy, "binder", None) else ("var", "@%d" % i)


def results(fx, g, rule_name, alt, client=None, positional=False):
    """[(lhs, N, [ {out, eff} ])] for every instantiation of the alternative; a missing optional symbol is passed by
    LALRPOP itself (the composite action supplies None)."""
    out = []
    for lhs, rhs, n, shape in for_alt(fx, g, rule_name, alt):
        hb = action_body(fx, n)
        if hb is None:
            out.append((lhs, n, None))
            continue
        ex = Executor(fx, client or ActionClient())
        args = [("var", "input")]
        params = hb["params"][1:]
        if len(params) == len(shape):
            for i in shape:
                args.append(("tuple", (("var", "@l%s" % (i,)), var_of(alt, i, positional), ("var", "@r%s" % (i,)))))
        else:
            # empty production: (__lookbehind, __lookahead)
            args += [("var", p.get("name") or "_") for p in params]
        try:
            res = ex.run_body(hb, args, State())
            out.append((lhs, n, [{"out": o, "eff": s.eff} for s, o in res]))
        except Exception as e:  # noqa
            out.append((lhs, n, "cannot execute: %s" % str(e)[:120]))
    return out


def values(fx, g, rule_name, alt, client=None, positional=False):
    """the set of values the alternative can build (success paths only) + a list of problems"""
    vals, probs = [], []
    rs = results(fx, g, rule_name, alt, client, positional)
    if not rs:
        probs.append("no production of the generated parser corresponds to this alternative")
    for lhs, n, paths in rs:
        if paths is None:
            probs.append("action %d of %s is not in the facts" % (n, lhs))
        elif isinstance(paths, str):
            probs.append("%s: %s" % (lhs, paths))
        else:
            for p in paths:
                if p["out"][0] == "val":
                    vals.append((lhs, p["out"][1], p["eff"]))
                else:
                    vals.append((lhs, ("abnormal",) + tuple(p["out"][:1]), p["eff"]))
    return vals, probs
