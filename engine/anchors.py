"""Anchor roles → today's def paths (DESIGN Appendix B). Rules name roles; a role that
cannot be bound in the current tree fails closed (reported as a violation of the owning
property)."""

A = {
    # serializer roots
    "program.serialize": "<bytecode::program::Program as bytecode::serializable::Serializable>::serialize",
    "program.from_bytes": "<bytecode::program::Program as bytecode::serializable::Serializable>::from_bytes",
    "constant.serialize": "<bytecode::program::ProgramObject as bytecode::serializable::SerializableWithContext>::serialize",
    "constant.from_bytes": "<bytecode::program::ProgramObject as bytecode::serializable::SerializableWithContext>::from_bytes",
    "constant.tag": "bytecode::program::ProgramObject::tag",
    "opcode.serialize": "<bytecode::bytecode::OpCode as bytecode::serializable::Serializable>::serialize",
    "opcode.from_bytes": "<bytecode::bytecode::OpCode as bytecode::serializable::Serializable>::from_bytes",
    "opcode.to_hex": "bytecode::bytecode::OpCode::to_hex",
    "opcode.display": "<bytecode::bytecode::OpCode as std::fmt::Display>::fmt",
    "constant.display": "<bytecode::program::ProgramObject as std::fmt::Display>::fmt",
    "program.display": "<bytecode::program::Program as std::fmt::Display>::fmt",
    # CLI
    "main": "main",
    "cli.execute": "Action::execute",
    "cli.run": "RunAction::run",
    "cli.compile": "CompilerAction::compile",
    "cli.parse": "ParserAction::parse",
    "cli.interpret": "BytecodeInterpreterAction::interpret",
    "cli.disassemble": "BytecodeDisassemblyAction::debug",
    "cli.bc.serialize": "BCSerializer::serialize",
    "cli.bc.deserialize": "BCSerializer::deserialize",
    "cli.ast.serialize": "ASTSerializer::serialize",
    "cli.ast.deserialize": "ASTSerializer::deserialize",
    "cli.ast.extension": "ASTSerializer::extension",
    "cli.ast.from_extension": "ASTSerializer::from_extension",
    "cli.ast.from_str": "<ASTSerializer as std::str::FromStr>::from_str",
    "cli.bc.from_str": "<BCSerializer as std::str::FromStr>::from_str",
    "cli.bc.extension": "BCSerializer::extension",
    "cli.parse.format": "ParserAction::selected_output_format",
    "cli.compile.informat": "CompilerAction::selected_input_format",
    # compiler
    "compile": "bytecode::compiler::compile",
    "compile.pub": "bytecode::compile",
    "compile_into": "<parser::AST as bytecode::compiler::Compiled>::compile_into",
    "compile_fn_def": "bytecode::compiler::compile_function_definition",
    "materialize": "bytecode::compiler::ProgramGenerator::materialize",
    # VM
    "evaluate_with": "bytecode::interpreter::evaluate_with",
    "evaluate_mem": "bytecode::interpreter::evaluate_with_memory_config",
    "eval_opcode": "bytecode::interpreter::eval_opcode",
    "state.from": "bytecode::state::State::from",
    "dispatch_method": "bytecode::interpreter::dispatch_method",
    "dispatch_object_method": "bytecode::interpreter::dispatch_object_method",
    "dispatch_integer": "bytecode::interpreter::dispatch_integer_method",
    "dispatch_boolean": "bytecode::interpreter::dispatch_boolean_method",
    "dispatch_null": "bytecode::interpreter::dispatch_null_method",
    "dispatch_array": "bytecode::interpreter::dispatch_array_method",
    "eval_print": "bytecode::interpreter::eval_print",
    # heap
    "heap.allocate": "bytecode::heap::Heap::allocate",
    "heap.set_size": "bytecode::heap::Heap::set_size",
    "heap.set_log": "bytecode::heap::Heap::set_log",
    "heap.type": "bytecode::heap::Heap",
    "heapobject.size": "bytecode::heap::HeapObject::size",
    "pointer.type": "bytecode::heap::Pointer",
    "pointer.condition": "bytecode::heap::Pointer::evaluate_as_condition",
    "pointer.render": "bytecode::heap::Pointer::evaluate_as_string",
    "heapobject.render": "bytecode::heap::HeapObject::evaluate_as_string",
    "array.render": "bytecode::heap::ArrayInstance::evaluate_as_string",
    "object.render": "bytecode::heap::ObjectInstance::evaluate_as_string",
    "output.write_str": "<bytecode::state::Output as std::fmt::Write>::write_str",
}


def get(role):
    return A[role]
