"""Whole-crate call graph from MIR (resolved instances), reachability, SCCs,
field read/write census on MIR places."""
from collections import defaultdict


def _operands(rv):
    k = rv.get("k")
    if k in ("Use", "Repeat", "Cast"):
        yield rv["op"]
    elif k == "BinaryOp":
        yield rv["a"]
        yield rv["b"]
    elif k == "UnaryOp":
        yield rv["a"]
    elif k == "Aggregate":
        yield from rv["ops"]


class CallGraph:
    def __init__(self, facts):
        self.f = facts
        self.bodies = facts.mir_by_did  # did -> mir body
        self.path = {d: b["path"] for d, b in self.bodies.items()}
        self.edges = defaultdict(set)     # did -> set(did) (local callees)
        self.fan = set()                  # (caller, callee) pairs that exist only by foreign-trait fan-out
        self.ext = defaultdict(list)      # did -> [callee json] (non-local callees, with site)
        self.sites = defaultdict(list)    # did -> [(callee json, term/site json)]
        # local impls of local trait methods, for calls that stay generic
        self.trait_impls = defaultdict(list)  # trait method def path -> [did]
        self.impls_of_trait = defaultdict(list)  # trait def path -> [did] (all methods of all local impls)
        for b in facts.hir:
            if b.get("impl_trait_def"):
                self.trait_impls[b["impl_trait_def"] + "::" + b["name"]].append(b["did"])
                self.impls_of_trait[b["impl_trait_def"]].append(b["did"])
        for d, b in self.bodies.items():
            if b.get("closure_of"):
                # link the creating body to the closure (conservative: a created closure may be called)
                for pd, pb in self.bodies.items():
                    if pb["path"] == b["closure_of"]:
                        self.edges[pd].add(d)
            for cj, site in self._callees(b):
                self.sites[d].append((cj, site))
                tgt = self._local_targets(cj)
                if tgt:
                    foreign_fan = bool(cj.get("trait")) and not cj.get("local") and (not cj.get("inst") or cj.get("inst_kind") == "Virtual")
                    for t in tgt:
                        if foreign_fan:
                            if t not in self.edges[d]:
                                self.fan.add((d, t))
                        else:
                            self.fan.discard((d, t))
                        self.edges[d].add(t)
                else:
                    self.ext[d].append((cj, site))

    def _callees(self, b):
        if not b["in_src"]:
            for cj in b.get("calls", []):
                yield cj, {"sp": b.get("span")}
            return
        for blk in b["blocks"]:
            for s in blk["stmts"]:
                if s["k"] == "Assign":
                    for op in _operands(s["rv"]):
                        if op.get("k") == "Const" and "fn" in op:
                            yield op["fn"], s
            t = blk.get("term")
            if not t:
                continue
            if t["k"] in ("Call", "TailCall"):
                if "callee" in t:
                    yield t["callee"], t
                for a in t.get("args", []):
                    if a.get("k") == "Const" and "fn" in a:
                        yield a["fn"], t

    def _local_targets(self, cj):
        if cj.get("inst_local") and cj.get("inst_did") in self.bodies:
            return [cj["inst_did"]]
        if cj.get("local") and cj.get("did") in self.bodies and not cj.get("trait"):
            return [cj["did"]]
        if cj.get("local") and cj.get("trait"):
            # unresolved call of a local trait method: default body + every local impl
            out = list(self.trait_impls.get(cj["def"], []))
            if cj.get("did") in self.bodies:
                out.append(cj["did"])
            return out
        if cj.get("trait") and (not cj.get("inst") or cj.get("inst_kind") == "Virtual"):
            # call of a foreign trait's method on a type parameter / trait object: after
            # monomorphisation it may run any local impl of that trait (its provided methods call
            # the required ones), so link every method of every local impl (conservative).
            return list(self.impls_of_trait.get(cj["trait"], []))
        return []

    # ---------------------------------------------------------------- queries
    def dids_of(self, path):
        return [d for d, p in self.path.items() if p == path]

    def reachable(self, roots):
        seen = set()
        todo = [r for r in roots if r in self.bodies]
        while todo:
            d = todo.pop()
            if d in seen:
                continue
            seen.add(d)
            todo.extend(self.edges.get(d, ()))
        return seen

    def reachable_from_paths(self, paths):
        roots = []
        for p in paths:
            roots += self.dids_of(p)
        return self.reachable(roots)

    def callers_of(self, did):
        return [d for d, es in self.edges.items() if did in es]

    def sccs(self, nodes=None):
        """Tarjan; returns list of SCCs (lists of did) that contain a cycle."""
        nodes = list(nodes if nodes is not None else self.bodies.keys())
        nodeset = set(nodes)
        index = {}
        low = {}
        stack = []
        on = set()
        out = []
        counter = [0]
        import sys
        sys.setrecursionlimit(100000)

        def strong(v):
            index[v] = low[v] = counter[0]
            counter[0] += 1
            stack.append(v)
            on.add(v)
            for w in self.edges.get(v, ()):
                if w not in nodeset or (v, w) in self.fan:
                    continue
                if w not in index:
                    strong(w)
                    low[v] = min(low[v], low[w])
                elif w in on:
                    low[v] = min(low[v], index[w])
            if low[v] == index[v]:
                comp = []
                while True:
                    w = stack.pop()
                    on.discard(w)
                    comp.append(w)
                    if w == v:
                        break
                if len(comp) > 1 or (v in self.edges.get(v, ()) and (v, v) not in self.fan):
                    out.append(comp)

        for v in nodes:
            if v not in index:
                strong(v)
        return out

    def path_between(self, src_dids, dst_did):
        """shortest call path (list of def paths) from any of src to dst"""
        from collections import deque
        prev = {}
        q = deque()
        for s in src_dids:
            prev[s] = None
            q.append(s)
        while q:
            v = q.popleft()
            if v == dst_did:
                out = []
                while v is not None:
                    out.append(self.path[v])
                    v = prev[v]
                return list(reversed(out))
            for w in self.edges.get(v, ()):
                if w not in prev:
                    prev[w] = v
                    q.append(w)
        return None


# --------------------------------------------------------------------------- places


def place_fields(p):
    """[(adt, field)] for the Field projections of a MIR place."""
    return [(e.get("adt"), e.get("name")) for e in p.get("proj", []) if e["k"] == "Field" and e.get("name")]


def _places_in_operand(op):
    if op.get("k") in ("Copy", "Move"):
        yield op["p"]


def field_accesses(body):
    """Yield (kind, adt, field, stmt/term, is_last) with kind in write/borrow_mut/borrow/read.

    `is_last` tells whether the field is the last projection of the place (i.e. the field
    itself — not something inside it — is written/borrowed)."""
    def fields_of(p, kind, site):
        pf = [e for e in p.get("proj", [])]
        for i, e in enumerate(pf):
            if e["k"] == "Field" and e.get("name"):
                rest = pf[i + 1:]
                yield kind, e.get("adt"), e["name"], site, rest

    for blk in body.get("blocks", []):
        for s in blk["stmts"]:
            if s["k"] == "Assign":
                yield from fields_of(s["p"], "write", s)
                rv = s["rv"]
                if rv["k"] == "Ref":
                    yield from fields_of(rv["p"], "borrow_mut" if rv["mut"] else "borrow", s)
                elif rv["k"] == "RawPtr":
                    yield from fields_of(rv["p"], "borrow_mut", s)
                elif rv["k"] in ("Discriminant", "CopyForDeref"):
                    yield from fields_of(rv["p"], "read", s)
                else:
                    for op in _operands(rv):
                        for p in _places_in_operand(op):
                            yield from fields_of(p, "move" if op["k"] == "Move" else "read", s)
            elif s["k"] == "SetDiscriminant":
                yield from fields_of(s["p"], "write", s)
        t = blk.get("term")
        if not t:
            continue
        if t["k"] == "Call":
            for a in t["args"]:
                for p in _places_in_operand(a):
                    yield from fields_of(p, "move" if a["k"] == "Move" else "read", t)
            yield from fields_of(t["dest"], "write", t)
        elif t["k"] == "SwitchInt":
            for p in _places_in_operand(t["discr"]):
                yield from fields_of(p, "read", t)
        elif t["k"] == "Drop":
            yield from fields_of(t["p"], "drop", t)
        elif t["k"] == "Assert":
            for p in _places_in_operand(t["cond"]):
                yield from fields_of(p, "read", t)
