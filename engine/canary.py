"""Canaries: a tiny crate (fixtures/canary) holding one positive instance for every zero-expected
census rule, analysed by the same dumper on every run. A detector that does not fire on its canary
is blind (e.g. a def path changed in a new toolchain) and fails the owning check (fail closed)."""
import os

from . import facts as F
from .facts import walk_body, callee_def, user_macros_of, peel
from .valueflow import success_value_uses, final_uses
from .census import arith_sites

CANARY_DIR = os.path.join(F.VERIF, "fixtures", "canary")
_cache = {}


def canary_facts():
    if "fx" not in _cache:
        path = F.extract(repo=CANARY_DIR, crates="canary", src_root=CANARY_DIR, target_name="target-canary")
        _cache["fx"] = F.Facts(path)
    return _cache["fx"]


def _body(fx, name):
    return fx.body(name)


def _bad_result_uses(fx, hb):
    from .props import shared
    out = []
    for n, ps in walk_body(hb):
        if shared._is_result(fx, n):
            uses = final_uses(n, ps, hb["value"])
            bad = [u for u in uses if u.kind in shared.BAD_USES]
            for u in uses:
                if u.kind == "matched":
                    sw = shared.swallowing_arms(fx, u)
                    if sw and u.node.get("k") == "Let":
                        owner = shared._owning_if(hb, u.node)
                        if owner is not None and "else" in owner and shared._is_failing_value(fx, owner["else"]):
                            sw = []
                    bad += sw
            if bad:
                out.append(n)
    return out


def _write_count_dropped(fx, hb):
    for n, ps in walk_body(hb):
        if n.get("k") in ("MethodCall", "Call") and callee_def(n) == "std::io::Write::write":
            uses = success_value_uses(n, ps, hb["value"])
            if any(u.kind in ("discarded", "discard_method", "unused_binding") for u in uses):
                return True
    return False


def _hash_exposed(fx, hb):
    from .props.c11 import is_hash_ty, ORDER_EXPOSING
    for n, ps in walk_body(hb):
        if n.get("k") == "MethodCall" and (is_hash_ty(fx.ty(n["recv"]) or "") or is_hash_ty(fx.aty(n["recv"]) or "")) and n["name"] in ORDER_EXPOSING:
            return True
        if n.get("k") == "Call" and (callee_def(n) or "").endswith("IntoIterator::into_iter") and n["args"] and is_hash_ty(fx.ty(n["args"][0]) or ""):
            return True
    return False


def _env_source(fx, hb):
    from .props.c11 import ENV_SOURCES
    for n, ps in walk_body(hb):
        if n.get("k") in ("Call", "MethodCall") and n.get("callee"):
            cd = callee_def(n)
            if any(cd == s or (cd or "").startswith(s + "::") for s, _ in ENV_SOURCES):
                return True
        if n.get("k") == "Cast" and (n.get("from", "").startswith("*") or n.get("from", "").startswith("&")) and n.get("to") in ("usize", "u64"):
            return True
    return False


def _cfg(fx, hb):
    for n, ps in walk_body(hb):
        if n.get("k") == "Lit" and "cfg" in user_macros_of(n):
            return True
        if any(m.startswith("debug_assert") for m in user_macros_of(n)) and n.get("k") in ("If", "Call", "MethodCall"):
            return True
    return False


def _plain_arith(fx, hb):
    return any(prim == "i32" for n, ps, op, prim in arith_sites(hb))


def _forbidden(fx, hb):
    from .props.c10 import FORBIDDEN_CALLS, STDERR_MACROS
    for n, ps in walk_body(hb):
        if n.get("k") in ("Call", "MethodCall") and n.get("callee") and callee_def(n) in FORBIDDEN_CALLS:
            return True
        if n.get("k") in ("Call", "MethodCall", "FormatArgs") and set(user_macros_of(n)) & STDERR_MACROS:
            return True
    return False


def _unsafe(fx, hb):
    for n, ps in walk_body(hb):
        if n.get("k") == "Block" and n["block"].get("unsafe") and "UserProvided" in n["block"].get("unsafe_src", ""):
            return True
    return False


def _narrow_unguarded(fx, hb):
    from .props.c03 import _diverges
    from .census import local_of, const_int
    for n, ps in walk_body(hb):
        if n.get("k") == "Cast" and n.get("to") == "u16" and n.get("from") == "usize":
            guarded = False
            for x, _ in walk_body(hb):
                if x.get("k") == "If" and _diverges(fx, x["then"]):
                    guarded = True
            return not guarded
    return False


def _unaccounted(fx, hb):
    from .props import c08_account as AC
    for n, ps in walk_body(hb):
        if n.get("k") in ("Call", "MethodCall") and callee_def(n) in AC.PARTIAL:
            if AC.resume_loop(fx, hb, n, ps)[0]:
                continue
            if not AC.account_function(fx, hb)[0]:
                return True
    return False


def _prints_stdout(fx, hb):
    for n, ps in walk_body(hb):
        if n.get("k") in ("Call", "MethodCall", "FormatArgs") and set(user_macros_of(n)) & {"println", "print", "dbg"}:
            return True
    return False


# (rule, canary function, detector, expected verdict)
CANARIES = [
    ("R8.count", "canary_write_count_dropped", _write_count_dropped, True),
    ("R8.count", "canary_write_all", _write_count_dropped, False),
    ("Rx.propagate", "canary_result_semi", lambda fx, b: bool(_bad_result_uses(fx, b)), True),
    ("Rx.propagate", "canary_result_let_underscore", lambda fx, b: bool(_bad_result_uses(fx, b)), True),
    ("Rx.propagate", "canary_result_ok", lambda fx, b: bool(_bad_result_uses(fx, b)), True),
    ("Rx.propagate", "canary_result_unwrap_or", lambda fx, b: bool(_bad_result_uses(fx, b)), True),
    ("Rx.propagate", "canary_result_is_err", lambda fx, b: bool(_bad_result_uses(fx, b)), True),
    ("Rx.propagate", "canary_result_err_arm_swallow", lambda fx, b: bool(_bad_result_uses(fx, b)), True),
    ("Rx.propagate", "canary_result_if_let_ok", lambda fx, b: bool(_bad_result_uses(fx, b)), True),
    ("Rx.propagate", "canary_result_propagated", lambda fx, b: bool(_bad_result_uses(fx, b)), False),
    ("Rx.propagate", "canary_result_expect", lambda fx, b: bool(_bad_result_uses(fx, b)), False),
    ("R11.hash", "canary_hash_iter", _hash_exposed, True),
    ("R11.hash", "canary_hash_for", _hash_exposed, True),
    ("R11.hash", "canary_hash_keyed", _hash_exposed, False),
    ("R11.env", "canary_clock", _env_source, True),
    ("R11.env", "canary_clock_elapsed", _env_source, True),
    ("R11.env", "canary_env", _env_source, True),
    ("R11.env", "canary_ptr_to_int", _env_source, True),
    ("Rx.cfg", "canary_cfg", _cfg, True),
    ("Rx.cfg", "canary_debug_assert", _cfg, True),
    ("Rx.profile", "canary_plain_add", _plain_arith, True),
    ("Rx.profile", "canary_plain_mul", _plain_arith, True),
    ("Rx.profile", "canary_neg", _plain_arith, True),
    ("Rx.profile", "canary_wrapping", _plain_arith, False),
    ("R4.stdout", "canary_println", _prints_stdout, True),
    ("R4.stdout", "canary_eprintln", _prints_stdout, False),
    ("R10.noexit0", "canary_exit", _forbidden, True),
    ("R10.noexit0", "canary_eprintln", _forbidden, True),
    ("R10.noexit0", "canary_catch", _forbidden, True),
    ("R10.nounsafe", "canary_unsafe", _unsafe, True),
    ("R6.sources", "canary_chunked_decode", lambda fx, b: bool(__import__("engine.props.shared", fromlist=["x"]).chunked_decodes(fx, b)), True),
    ("R6.sources", "canary_whole_decode", lambda fx, b: bool(__import__("engine.props.shared", fromlist=["x"]).chunked_decodes(fx, b)), False),
    ("R8.account", "canary_partial_resumed", _unaccounted, False),
    ("R8.account", "canary_partial_misresumed", _unaccounted, True),
    ("R8.account", "canary_partial_unresumed", _unaccounted, True),
    ("R8.account", "canary_vectored_resumed", _unaccounted, False),
    ("R8.account", "canary_vectored_misresumed", _unaccounted, True),
    ("R8.account", "canary_resume_loop", _unaccounted, False),
    ("R8.account", "canary_bad_loop", _unaccounted, True),
    ("R3.narrow", "canary_narrow", _narrow_unguarded, True),
    ("R3.narrow", "canary_narrow_guarded", _narrow_unguarded, False),
]


def require(ck, rules):
    """Add one obligation per canary of the given rule families: the detector must give the expected verdict."""
    try:
        fx = canary_facts()
    except F.CannotAnalyse as e:
        ck.ob("canary", "canary crate", False, "fixtures/canary", "cannot analyse the canary crate: %s" % str(e)[:300])
        return
    n = 0
    for rule, fn, det, want in CANARIES:
        if rule not in rules:
            continue
        b = fx.body(fn)
        if b is None:
            ck.ob("canary." + rule, fn, False, "fixtures/canary/src/main.rs", "canary function missing")
            continue
        try:
            got = bool(det(fx, b))
        except Exception as e:
            got = None
        n += 1
        ck.ob("canary." + rule, fn, got == want, "fixtures/canary/src/main.rs",
              "detector %s on %s (expected %s)" % ("fires" if got else "is silent", fn, "firing" if want else "silence") +
              ("" if got == want else " — the rule is blind / over-eager on this toolchain"), nontrivial=False)
    return n
