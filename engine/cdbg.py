import sys
from . import facts as F
from .compile_scheme import run_variant
from .symdbg import show_eff, fmt_out
fx = F.Facts(F.extract())
v = sys.argv[1]; keep = sys.argv[2] == "T"
ex, paths = run_variant(fx, v, keep)
for i, p in enumerate(paths):
    if len(sys.argv) > 3 and sys.argv[3] == "ok" and not (p["out"][0] == "val" and p["out"][1][0] == "ok"): continue
    print("PATH %d -> %s" % (i, fmt_out(p["out"])))
    show_eff(p["eff"])
print("unmodelled:", ex.unmodelled)
