"""Census helpers over HIR facts: field uses, arithmetic sites, call sites, ordering."""
import re

from .facts import walk, walk_body, callee_def, callee_name, peel, loc, user_macros_of, is_expr

INT_TYPES = {"i8", "i16", "i32", "i64", "i128", "isize", "u8", "u16", "u32", "u64", "u128", "usize"}
OVERFLOW_OPS = {"Add", "Sub", "Mul", "Shl", "Shr", "AddAssign", "SubAssign", "MulAssign", "ShlAssign", "ShrAssign"}


def calls(body):
    """(node, parents) for every Call/MethodCall with a resolved callee in the body."""
    for n, ps in walk_body(body):
        if n.get("k") in ("Call", "MethodCall") and n.get("callee"):
            yield n, ps


def ordinal(body, node, pred):
    i = 0
    for n, _ in walk_body(body):
        if n is node:
            return i
        if pred(n):
            i += 1
    return i


def is_mut_borrowed(n):
    """the expression is auto-borrowed mutably (receiver of a &mut self method, …)"""
    return any(a["k"] == "Borrow:mut" for a in n.get("adj", []))


def field_uses(fx, adt, field, bodies=None):
    """Yield (body, node, parents, ctx) for each HIR access of adt.field.
    ctx: dict(kind=recv|assign|assign_op|addr_of_mut|addr_of|read|index_write..., method=name)"""
    for b in (bodies if bodies is not None else fx.hir):
        for n, ps in walk_body(b):
            if n.get("k") == "Field" and n.get("name") == field and n.get("adt") == adt:
                yield b, n, ps, field_ctx(n, ps)


def field_ctx(n, ps):
    """How a place expression is used by its parent (climbing Index/Deref projections)."""
    cur = n
    path = list(ps)
    via = []
    while path:
        role, par = path[-1]
        pk = par.get("k")
        if pk == "Index" and role == "base":
            via.append("index")
            cur = par
            path.pop()
            continue
        if pk == "Unary" and par.get("op") == "Deref":
            via.append("deref")
            cur = par
            path.pop()
            continue
        if pk == "Field" and role == "base":
            via.append("field:" + par["name"])
            cur = par
            path.pop()
            continue
        if pk in ("DropTemps", "Use", "Type"):
            cur = par
            path.pop()
            continue
        break
    mutb = is_mut_borrowed(cur)
    if not path:
        return {"kind": "value", "via": via, "mut": mutb}
    role, par = path[-1]
    pk = par.get("k")
    if pk == "MethodCall" and role == "recv":
        return {"kind": "recv", "method": par["name"], "callee": callee_name(par), "via": via, "mut": mutb, "node": par}
    if pk == "Assign" and role == "lhs":
        return {"kind": "assign", "via": via, "mut": True, "node": par}
    if pk == "AssignOp" and role == "lhs":
        return {"kind": "assign_op", "op": par["op"], "via": via, "mut": True, "node": par}
    if pk == "AddrOf":
        return {"kind": "addr_of_mut" if par.get("mut") else "addr_of", "via": via, "mut": bool(par.get("mut")), "node": par}
    if pk in ("Call", "MethodCall"):
        return {"kind": "arg", "callee": callee_name(par) or par.get("name"), "via": via, "mut": mutb, "node": par}
    if pk == "Match" and role == "scrut":
        return {"kind": "match", "via": via, "mut": mutb, "node": par}
    if pk == "Let" and role == "init":
        return {"kind": "match", "via": via, "mut": mutb, "node": par}
    return {"kind": "read", "parent": pk, "via": via, "mut": mutb, "node": par}


def arith_sites(body):
    """Overflow-sensitive integer arithmetic written with plain operators:
    (node, parents, op, prim) — operators on primitive ints whose overflow behaviour follows the
    build profile (Add/Sub/Mul/Shl/Shr/Neg, also through `&i32 + &i32` trait impls which carry
    rustc_inherit_overflow_checks)."""
    for n, ps in walk_body(body):
        k = n.get("k")
        if k in ("Binary", "AssignOp") and n.get("op") in OVERFLOW_OPS:
            lp, rp = n.get("lprim"), n.get("rprim")
            if lp in INT_TYPES and (rp in INT_TYPES or n["op"].startswith("Sh")):
                yield n, ps, n["op"], lp
        elif k == "Unary" and n.get("op") == "Neg" and n.get("prim") in INT_TYPES and n["prim"][0] == "i":
            # negation of a literal is a constant, not an overflow site
            if peel(n["e"]).get("k") != "Lit":
                yield n, ps, "Neg", n["prim"]


def const_int(n):
    n = peel(n)
    if n.get("k") == "Lit" and n["lit"].get("t") == "int":
        return n["lit"]["v"]
    if n.get("k") == "Cast":
        return const_int(n["e"])
    if n.get("k") == "Binary":
        a, b = const_int(n["lhs"]), const_int(n["rhs"])
        if a is not None and b is not None:
            op = n["op"]
            try:
                return {"Add": a + b, "Sub": a - b, "Mul": a * b}.get(op)
            except Exception:
                return None
    return None


def local_of(n):
    n = peel(n)
    while n.get("k") in ("AddrOf", "Unary") and (n.get("k") == "AddrOf" or n.get("op") == "Deref"):
        n = peel(n["e"])
    if n.get("k") == "Path" and n["res"].get("k") == "Local":
        return n["res"]["lid"], n["res"]["name"]
    return None


def mentions_local(n, lid):
    for x, _ in walk(n):
        if x.get("k") == "Path" and x["res"].get("k") == "Local" and x["res"].get("lid") == lid:
            return True
    return False


def preorder_index(body):
    """id(node) -> pre-order position, plus enclosing-loop chain and branch path per node."""
    pos = {}
    loops = {}
    branch = {}
    i = 0
    for n, ps in walk_body(body):
        pos[id(n)] = i
        i += 1
        lp = []
        br = []
        for role, p in ps:
            if p.get("k") == "Loop":
                lp.append(id(p))
            if p.get("k") == "If" and role in ("then", "else"):
                br.append((id(p), role))
            if p.get("k") == "Match" and role.endswith(".body"):
                br.append((id(p), role))
            if p.get("k") == "Closure":
                lp.append(id(p))  # a closure body may run any number of times
        loops[id(n)] = lp
        branch[id(n)] = br
    return pos, loops, branch


def may_follow(a, b, pos, loops, branch):
    """May node b execute after node a in one activation of the body? (structured approximation:
    sequential pre-order, exclusive branches excluded, unless both share a loop)."""
    la, lb = loops[id(a)], loops[id(b)]
    if set(la) & set(lb):
        return True
    if pos[id(b)] <= pos[id(a)]:
        return False
    ba = dict(branch[id(a)])
    for (m, role) in branch[id(b)]:
        if m in ba and ba[m] != role:
            return False
    return True


def fmt_literal_arg(n, i):
    """the text a literal argument of a FormatArgs node displays as (char / str / integer / bool literal), else None"""
    if i >= len(n.get("args", [])):
        return None
    a = n["args"][i]
    while isinstance(a, dict) and a.get("k") in ("AddrOf", "DropTemps", "Use", "Block") and (a.get("e") is not None or (a.get("k") == "Block" and not a["block"].get("stmts") and a["block"].get("expr"))):
        a = a["e"] if a.get("e") is not None else a["block"]["expr"]
    if isinstance(a, dict) and a.get("k") == "Lit" and a["lit"].get("t") in ("str", "char", "int", "bool", "fmtlit"):
        v = a["lit"].get("v")
        return ("true" if v else "false") if isinstance(v, bool) else str(v)
    return None


def fmt_live_args(n):
    """indices of the arguments of a FormatArgs node that are not written-out literals, in first-use order"""
    order = []
    for p in n["pieces"]:
        if "lit" not in p and p["arg"] not in order and not (p["tr"] == "Display" and not p.get("spec") and fmt_literal_arg(n, p["arg"]) is not None):
            order.append(p["arg"])
    return order


def fmt_pieces(n):
    """template of a FormatArgs node as a string with {i} placeholders; literal arguments displayed with the default spec
    are written out (`"{},{},{}", t, 'A', m` is `{0},A,{1}`) and the remaining arguments renumbered in first-use order"""
    out = ""
    live = fmt_live_args(n)
    for p in n["pieces"]:
        if "lit" in p:
            out += p["lit"]
        else:
            litv = fmt_literal_arg(n, p["arg"]) if (p["tr"] == "Display" and not p.get("spec")) else None
            if litv is not None:
                out += litv
            else:
                out += "{%d%s}" % (live.index(p["arg"]), ":" + p["tr"] if p["tr"] != "Display" else "")
    return out
