"""Client "compile scheme": effect templates of the AST→bytecode translation.

For every AST variant V and keep ∈ {true,false} the body of compile_into is executed symbolically
with self = V{fields symbolic}. Tracked effects: emit into a Code buffer, recursive compile (Rec),
scope / environment operations (by role), globals/entry registration, Code::extend.
Constant registration is a pure term cp(<ProgramObject term>)."""
from . import anchors as A
from .symex import Executor, Client, State, lit, app, UNIT, TRUE, FALSE

P = "bytecode::program::"
C = "bytecode::compiler::"

ENV_ROLES = {
    C + "Environment::register_new_local": ("env_bind_fresh", "result"),
    C + "Environment::register_local": ("env_lookup_or_bind", "sym"),
    C + "Environment::has_local": ("env_visible", "sym"),
    C + "Environment::in_outermost_scope": ("env_outermost", "sym"),
    C + "Environment::count_locals": ("env_count", "sym"),
    C + "Environment::enter_scope": ("env_enter", "unit"),
    C + "Environment::leave_scope": ("env_leave", "unit"),
    C + "Environment::generate_unique_number": ("env_unique", "sym"),
}


class CompileClient(Client):
    name = "compile"
    inline_depth = 10

    def __init__(self, fx):
        self.fx = fx
        self.compile_into = A.get("compile_into")

    def tracked(self, ex, path, node, recv, args, st):
        if path == P + "Code::emit":
            return {"kind": "emit", "args": (recv, args[0]), "result": "unit"}
        if path == P + "Code::extend":
            src = args[0]
            return {"kind": "extend", "args": (recv, src), "result": "term",
                    "term": ("tuple", (app("start_of", src), app("length_of", src)))}
        if path == P + "Globals::register":
            return {"kind": "global", "args": (recv, args[0]), "result": "result", "hint": "globals.register"}
        if path == P + "Entry::set":
            return {"kind": "entry", "args": (recv, args[0]), "result": "unit"}
        if path == P + "ConstantPool::register":
            t = app("cp", args[0])
            return {"kind": "register", "args": (recv, args[0]), "result": "term", "term": t}
        if path == self.compile_into:
            # (self, program, active_buffer, global_environment, current_frame, keep_result)
            return {"kind": "rec", "args": (recv,) + tuple(args), "result": "result", "hint": "compile_into"}
        if path in ENV_ROLES:
            kind, res = ENV_ROLES[path]
            return {"kind": kind, "args": (recv,) + tuple(args), "result": res, "hint": kind}
        if path.startswith(C + "Environment::") and recv is not None and path != C + "Environment::new":
            # a method of the environment the rules have no role for (a helper added by a refactoring): its result is
            # still "something this environment said" — enough for index provenance (R2.frame); scoping rules that need
            # its meaning (C12) report it as unknown
            b = self.fx.body(path)
            rt = (self.fx.tyname(b.get("ret_ty")) if b else None) or ""
            res = "unit" if rt == "()" else ("result" if rt.startswith("std::result::Result<") else ("option" if rt.startswith("std::option::Option<") else "sym"))
            return {"kind": "env_other", "args": (recv,) + tuple(args), "result": res, "hint": "env:" + path.rsplit("::", 1)[1]}
        return None

    def pure(self, ex, path, node, recv, args):
        if path == P + "Code::new":
            return ex.new_obj("Code")
        if path == C + "Environment::new":
            return ex.new_obj("Env")
        return None

    def no_inline(self, path):
        return False


def variant_fields(fx, adt, variant):
    a = fx.adts[adt]
    for v in a["variants"]:
        if v["name"] == variant:
            return [f["name"] for f in v["fields"]]
    return None


def run_variant(fx, variant, keep, body=None):
    """Paths of compile_into for self = AST::<variant>{…symbolic…}, keep_result = keep."""
    body = body or fx.body(A.get("compile_into"))
    client = CompileClient(fx)
    ex = Executor(fx, client)
    fields = variant_fields(fx, "parser::AST", variant)
    self_t = ("ctor", "parser::AST", variant, tuple((f, ("var", "self." + f)) for f in fields))
    args = [self_t, ("var", "program"), ("var", "active_buffer"), ("var", "global_environment"), ("var", "current_frame"), lit(keep)]
    res = ex.run_body(body, args, State())
    return ex, [{"eff": s.eff, "out": o} for s, o in res]


def run_function(fx, path, args):
    body = fx.body(path)
    client = CompileClient(fx)
    ex = Executor(fx, client)
    res = ex.run_body(body, args, State())
    return ex, [{"eff": s.eff, "out": o} for s, o in res]
