"""Check harness: obligations, floors, known findings, evidence, exit protocol."""
import hashlib
import json
import os
import re
import sys
import time

from . import facts as F

VERIF = F.VERIF
KNOWN_FILE = os.path.join(VERIF, "KNOWN_FINDINGS.txt")
EVIDENCE_DIR = os.environ.get("FML_EVIDENCE_DIR") or os.path.join(VERIF, "evidence")


def load_known():
    """known: property=<id> key=<key> :: <text>    (fixed: lines suppress nothing)"""
    known = {}
    if not os.path.exists(KNOWN_FILE):
        return known
    for line in open(KNOWN_FILE):
        line = line.strip()
        m = re.match(r"known:\s+property=(\S+)\s+key=(.+?)\s+::\s+(.*)$", line)
        if m:
            known[(m.group(1), m.group(2).strip())] = m.group(3)
    return known


class Check:
    def __init__(self, pid, tier="quick", seed=0, level="other"):
        self.pid = pid
        self.tier = tier
        self.seed = seed
        self.level = level
        self.t0 = time.time()
        self.obligs = []  # dicts: rule, key, ok, where, detail
        self.samples = []
        self.notes = []
        self.functions = set()
        self.explanation = ""
        self.assumptions = []
        self.trusted_base = []
        self.rule_text = ""
        self.extra = {}
        self.nontrivial_keys = set()

    # -- recording -------------------------------------------------------------
    def ob(self, rule, key, ok, where="", detail="", nontrivial=True):
        """One obligation instance. key identifies the construct (no line numbers)."""
        self.obligs.append({"rule": rule, "key": key, "ok": bool(ok), "where": where, "detail": detail})
        if nontrivial:
            self.nontrivial_keys.add((rule, key))
        return ok

    def floor(self, rule, what, count, minimum):
        """Fail closed when a rule matched fewer instances than were confirmed by hand."""
        ok = count >= minimum
        self.obligs.append({"rule": rule + ".floor", "key": what, "ok": ok, "where": "",
                            "detail": "matched %d instance(s), hand-confirmed floor is %d" % (count, minimum)})
        return ok

    def anchor(self, rule, what, value):
        ok = value is not None and value is not False
        if not ok:
            self.obligs.append({"rule": rule + ".anchor", "key": what, "ok": False, "where": "",
                                "detail": "anchor `%s` could not be located in the current tree (fail closed)" % what})
        return ok

    def sample(self, s):
        if len(self.samples) < 40:
            self.samples.append(s)

    def fn(self, path):
        self.functions.add(path)

    def note(self, s):
        self.notes.append(s)

    # -- finishing -------------------------------------------------------------
    def finish(self):
        known = load_known()
        failed = [o for o in self.obligs if not o["ok"]]
        new, listed = [], []
        seen = set()
        for o in failed:
            k = "%s|%s" % (o["rule"], o["key"])
            if k in seen:
                continue
            seen.add(k)
            if (self.pid, k) in known:
                listed.append((k, known[(self.pid, k)], o))
            else:
                new.append((k, o))
        os.makedirs(os.path.join(EVIDENCE_DIR, "violations"), exist_ok=True)
        for k, text, o in listed:
            print("KNOWN-FINDING: property=%s %s [%s] %s" % (self.pid, text, k, o["where"]))
        vio_paths = []
        for k, o in new:
            h = hashlib.sha1(k.encode()).hexdigest()[:10]
            p = os.path.join(EVIDENCE_DIR, "violations", "%s-%s.json" % (self.pid, h))
            with open(p, "w") as f:
                json.dump({"property": self.pid, "key": k, **o}, f, indent=1)
            vio_paths.append(p)
            print("  rule=%s instance=%s at %s: %s" % (o["rule"], o["key"], o["where"], o["detail"]))
            print("VIOLATION property=%s replay=%s" % (self.pid, p))
        n_ob = len(self.obligs)
        n_ok = sum(1 for o in self.obligs if o["ok"])
        by_rule = {}
        for o in self.obligs:
            r = by_rule.setdefault(o["rule"], {"instances": 0, "discharged": 0})
            r["instances"] += 1
            r["discharged"] += 1 if o["ok"] else 0
        cov = {
            "explanation": self.explanation,
            "obligations": n_ob,
            "discharged": n_ok,
            "evaluations": n_ob,
            "distinct_nontrivial": len(self.nontrivial_keys),
            "rule": self.rule_text or ("one evaluation = one rule instance (rule id, construct key) decided on the facts "
                                       "extracted from /repo's current source; an instance is non-trivial when its verdict "
                                       "depended on a located construct (anchor lookups and floors are not counted); "
                                       "distinct = distinct (rule, key) pairs"),
            "samples": self.samples or [o for o in self.obligs[:10]],
            "rules": by_rule,
            "functions_analysed": sorted(self.functions),
            "known_findings_reported": [k for k, _, _ in listed],
            "new_violations": [k for k, _ in new],
            "checker_cmd": "bin/check %s --tier %s" % (self.pid, self.tier),
            "trusted_base": self.trusted_base,
            "notes": self.notes,
            "exhaustive": True,
        }
        cov.update(self.extra)
        ev = {
            "property_id": self.pid,
            "tier": self.tier,
            "seed": self.seed,
            "level": self.level,
            "coverage": cov,
            "assumptions": self.assumptions,
            "wall_s": round(time.time() - self.t0, 3),
            "violations": len(new),
        }
        validate_evidence(ev)
        os.makedirs(EVIDENCE_DIR, exist_ok=True)
        tmp = os.path.join(EVIDENCE_DIR, ".%s.json.tmp%d" % (self.pid, os.getpid()))
        with open(tmp, "w") as f:
            json.dump(ev, f, indent=1, ensure_ascii=False)
        os.replace(tmp, os.path.join(EVIDENCE_DIR, "%s.json" % self.pid))
        print("%s %s: %d obligation(s), %d discharged, %d known finding(s), %d new violation(s) [%.2fs]" % (
            self.pid, self.tier, n_ob, n_ok, len(listed), len(new), time.time() - self.t0))
        return 1 if new else 0


def validate_evidence(ev):
    try:
        import jsonschema
    except ImportError:
        return
    schema_path = "/root/.vp/EVIDENCE.schema.json"
    if not os.path.exists(schema_path):
        schema_path = os.path.join(VERIF, "specs", "EVIDENCE.schema.json")
    if not os.path.exists(schema_path):
        return
    with open(schema_path) as f:
        schema = json.load(f)
    jsonschema.validate(ev, schema)
