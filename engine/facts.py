"""Fact extraction (runs the rustc_private dumper under cargo) and the fact model.

Nothing here executes code of /repo: cargo *checks* the crate through the dumper,
which writes the resolved program (HIR+typeck, MIR, ADTs) as JSON.
"""
import fcntl
import hashlib
import json
import os
import shutil
import subprocess
import sys
import time

VERIF = os.path.dirname(os.path.dirname(os.path.abspath(__file__)))
REPO = os.environ.get("FML_REPO", "/repo")
CACHE = os.path.join(VERIF, ".cache")
DRIVER_DIR = os.path.join(VERIF, "driver")
DRIVER = os.path.join(DRIVER_DIR, "target", "release", "fml-facts")


class CannotAnalyse(Exception):
    pass


def _sysroot():
    return subprocess.check_output(["rustc", "+nightly", "--print", "sysroot"], text=True).strip()


def ensure_driver():
    """Build the dumper if its binary is missing or older than its sources."""
    srcs = [os.path.join(DRIVER_DIR, "Cargo.toml")]
    for root, _, files in os.walk(os.path.join(DRIVER_DIR, "src")):
        srcs += [os.path.join(root, f) for f in files]
    newest = max(os.path.getmtime(p) for p in srcs)
    if os.path.exists(DRIVER) and os.path.getmtime(DRIVER) >= newest:
        return
    env = dict(os.environ, CARGO_NET_OFFLINE="true")
    r = subprocess.run(["cargo", "+nightly", "build", "--release", "--offline"], cwd=DRIVER_DIR,
                       env=env, stdout=subprocess.PIPE, stderr=subprocess.STDOUT, text=True)
    if r.returncode != 0:
        raise CannotAnalyse("driver build failed:\n" + r.stdout[-4000:])


def tree_files(repo=REPO):
    out = []
    for rel in ("Cargo.toml", "Cargo.lock", "build.rs"):
        p = os.path.join(repo, rel)
        if os.path.exists(p):
            out.append(p)
    for root, dirs, files in os.walk(os.path.join(repo, "src")):
        dirs.sort()
        for f in sorted(files):
            out.append(os.path.join(root, f))
    return out


def tree_hash(repo=REPO, extra=""):
    h = hashlib.sha256()
    for p in tree_files(repo):
        h.update(os.path.relpath(p, repo).encode())
        h.update(b"\0")
        with open(p, "rb") as f:
            h.update(f.read())
        h.update(b"\0")
    with open(DRIVER, "rb") as f:
        h.update(hashlib.sha256(f.read()).digest())
    h.update(extra.encode())
    return h.hexdigest()[:24]


PROFILES = {
    # name -> (cargo args, RUSTFLAGS)
    "dev": ([], "-Zmir-opt-level=0 -Awarnings"),
    "release": (["--release"], "-Zmir-opt-level=0 -Awarnings"),
}


def extract(repo=REPO, profile="dev", crates="fml", src_root=None, target_name="target", verbose=False):
    """Return the path of the fact file for `repo`'s current working tree."""
    ensure_driver()
    cargo_args, rustflags = PROFILES[profile]
    key = tree_hash(repo, extra=profile + "|" + rustflags + "|" + crates)
    out_dir = os.path.join(CACHE, "facts", key)
    fact_file = os.path.join(out_dir, crates.split(",")[0] + ".facts.json")
    os.makedirs(CACHE, exist_ok=True)
    lock_path = os.path.join(CACHE, "extract.lock")
    with open(lock_path, "w") as lock:
        fcntl.flock(lock, fcntl.LOCK_EX)
        if os.path.exists(fact_file):
            return fact_file
        os.makedirs(out_dir, exist_ok=True)
        target = os.path.join(CACHE, target_name)
        # cargo's freshness cache would silently skip the wrapper: drop the
        # fingerprints of the workspace members so that they are re-checked.
        for prof_dir in ("debug", "release"):
            fp = os.path.join(target, prof_dir, ".fingerprint")
            if os.path.isdir(fp):
                for d in os.listdir(fp):
                    if d.startswith("fml-") or d.startswith("canary-"):
                        shutil.rmtree(os.path.join(fp, d), ignore_errors=True)
        nonce = "%x" % (time.time_ns())
        env = dict(os.environ)
        env.update({
            "LD_LIBRARY_PATH": _sysroot() + "/lib",
            "RUSTFLAGS": rustflags,
            "RUSTC_WORKSPACE_WRAPPER": DRIVER,
            "FML_FACTS_OUT": out_dir,
            "FML_FACTS_SRC_ROOT": src_root or repo,
            "FML_FACTS_NONCE": nonce,
            "FML_FACTS_CRATES": crates,
            "CARGO_TARGET_DIR": target,
            "CARGO_NET_OFFLINE": "true",
        })
        env.pop("RUSTC_WRAPPER", None)
        cmd = ["cargo", "+nightly", "check", "--offline", "--locked"] + cargo_args
        t0 = time.time()
        r = subprocess.run(cmd, cwd=repo, env=env, stdout=subprocess.PIPE, stderr=subprocess.STDOUT, text=True)
        if verbose:
            sys.stderr.write("[extract] %s in %.1fs\n" % (" ".join(cmd), time.time() - t0))
        if r.returncode != 0:
            shutil.rmtree(out_dir, ignore_errors=True)
            raise CannotAnalyse("cargo check failed (the tree does not build):\n" + r.stdout[-6000:])
        if not os.path.exists(fact_file):
            shutil.rmtree(out_dir, ignore_errors=True)
            raise CannotAnalyse("the dumper was not invoked (no fact file written)\n" + r.stdout[-3000:])
        with open(fact_file) as f:
            head = f.read(4096)
        if nonce not in head:
            shutil.rmtree(out_dir, ignore_errors=True)
            raise CannotAnalyse("fact file does not carry this run's nonce")
        _prune_cache(keep=key)
        return fact_file


def _prune_cache(keep, limit=12):
    base = os.path.join(CACHE, "facts")
    try:
        ents = sorted((os.path.getmtime(os.path.join(base, d)), d) for d in os.listdir(base))
    except OSError:
        return
    while len(ents) > limit:
        _, d = ents.pop(0)
        if d != keep:
            shutil.rmtree(os.path.join(base, d), ignore_errors=True)


# --------------------------------------------------------------------------- model


def is_expr(n):
    return isinstance(n, dict) and "k" in n and "id" in n


class Facts:
    def __init__(self, path):
        self.path = path
        with open(path) as f:
            d = json.load(f)
        self.meta = d["meta"]
        self.helper_attrs = d.get("helper_attrs", [])
        self.types = d["hir"]["types"]
        self.hir = d["hir"]["bodies"]
        self.skipped_non_src = d["hir"]["skipped_non_src"]
        # type-checked semantic actions of the generated parser (fn __actionN), kept apart from the source bodies
        self.gen_actions = d["hir"].get("generated_actions", [])
        # `// Lhs = Sym, Sym => ActionFn(N);` lines of the generated parser, from the source text rustc compiled
        self.gen_productions = d["hir"].get("generated_productions", [])
        self.unsafe_non_src = d["hir"].get("unsafe_non_src", -1)
        self.mir = d["mir"]["bodies"]
        self.adts = {a["path"]: a for a in d["adts"]["adts"]}
        self.impls = d["adts"]["impls"]
        self.macros = d["adts"]["macros"]
        self.hir_by_path = {}
        self.hir_by_did = {}
        for b in self.hir:
            self.hir_by_path.setdefault(b["path"], []).append(b)
            self.hir_by_did[b["did"]] = b
        self.mir_by_did = {b["did"]: b for b in self.mir}
        self.mir_by_path = {}
        for b in self.mir:
            self.mir_by_path.setdefault(b["path"], []).append(b)

    # -- lookups
    def ty(self, n):
        t = n.get("ty")
        return self.types[t] if isinstance(t, int) else None

    def aty(self, n):
        t = n.get("aty", n.get("ty"))
        return self.types[t] if isinstance(t, int) else None

    def tyname(self, idx):
        return self.types[idx] if isinstance(idx, int) else None

    def body(self, path):
        """Unique HIR body with this def path (fail closed otherwise)."""
        bs = self.hir_by_path.get(path, [])
        if len(bs) != 1:
            return None
        return bs[0]

    def bodies_matching(self, pred):
        return [b for b in self.hir if pred(b)]


def loc(n):
    sp = n.get("sp") or n.get("span") or n.get("fn_sp")
    if not sp:
        return "?"
    return "%s:%s" % (sp["f"], sp["l"])


def macros_of(n):
    sp = n.get("sp") or n.get("span") or {}
    return sp.get("ms", [])


def user_macros_of(n):
    """macro names on the expansion stack, without compiler desugarings"""
    return [m for m in macros_of(n) if not m.startswith("desugar:") and not m.startswith("astpass:")]


def from_macro(n):
    return bool(user_macros_of(n))


# generic child iteration -----------------------------------------------------

_EXPR_CHILD_KEYS = ("fun", "recv", "e", "lhs", "rhs", "cond", "then", "else", "scrut", "init", "base", "idx", "body")


def children(n):
    """Yield (role, child expression) for the direct sub-expressions of expression n."""
    k = n.get("k")
    for key in _EXPR_CHILD_KEYS:
        c = n.get(key)
        if is_expr(c):
            yield key, c
    for key in ("args", "elems"):
        for i, c in enumerate(n.get(key, []) or []):
            if is_expr(c):
                yield "%s[%d]" % (key, i), c
    if k == "Struct":
        for f in n.get("fields", []):
            yield "field:" + f["name"], f["e"]
    if k == "Match":
        for i, a in enumerate(n["arms"]):
            if "guard" in a:
                yield "arm[%d].guard" % i, a["guard"]
            yield "arm[%d].body" % i, a["body"]
    if k == "Block":
        yield from block_children(n["block"])
    if k == "Loop":
        yield from block_children(n["body"])
    if k == "Closure":
        pass  # body handled by key "body"


def block_children(b):
    for i, s in enumerate(b["stmts"]):
        if s["k"] == "Let":
            if "init" in s:
                yield "stmt[%d].let" % i, s["init"]
            if "els" in s:
                yield from block_children(s["els"])
        elif s["k"] in ("Expr", "Semi"):
            yield "stmt[%d].%s" % (i, s["k"].lower()), s["e"]
    if "expr" in b:
        yield "tail", b["expr"]


def walk(n, parents=()):
    """Pre-order walk yielding (node, parents-tuple-of-(role,node))."""
    yield n, parents
    for role, c in children(n):
        yield from walk(c, parents + ((role, n),))


def walk_body(b):
    yield from walk(b["value"])


def callee_name(n):
    """Best resolved name of a Call/MethodCall: the concrete impl when known."""
    c = n.get("callee")
    if not c:
        return None
    return c.get("inst") or c.get("def")


def callee_def(n):
    c = n.get("callee")
    return c.get("def") if c else None


def peel(n):
    """Strip transparent wrappers (DropTemps, Use, Type ascription, single-expression blocks)."""
    while True:
        k = n.get("k")
        if k in ("DropTemps", "Use", "Type"):
            n = n["e"]
        elif k == "Block" and not n["block"]["stmts"] and "expr" in n["block"] and not n["block"].get("unsafe") and "label" not in n:
            n = n["block"]["expr"]
        else:
            return n
