"""E4 — structural reader for the LALRPOP subset used by src/fml.lalrpop.

Produces: terminals of the `match` block (pattern, regex?, name / skipped) and the productions
(nonterminal, macro parameters, alternatives with symbols, optional `if` condition, action text).
The grammar file is source like any other; nothing is executed."""
import os
import re

from . import facts as F


_CHAR_LIT = re.compile(r"'(\\.|[^\\'\n])'")


def _char_lit_len(text, i):
    """length of a Rust char literal ('"', '\\n', 'x') starting at i, else 0 (lifetimes like 'input are not literals)"""
    m = _CHAR_LIT.match(text, i)
    return len(m.group(0)) if m else 0


def _blank_line_comments(text):
    """replace `// …` comments (outside string / char literals) by spaces, keeping every newline"""
    out = []
    i = 0
    n = len(text)
    while i < n:
        c = text[i]
        if c == "'" and _char_lit_len(text, i):
            k = _char_lit_len(text, i)
            out.append(text[i:i + k])
            i += k
            continue
        if c == '"':
            j = i + 1
            while j < n and text[j] != '"':
                j += 2 if text[j] == "\\" else 1
            out.append(text[i:j + 1])
            i = j + 1
            continue
        if text.startswith("//", i):
            j = text.find("\n", i)
            j = n if j < 0 else j
            out.append(" " * (j - i))
            i = j
            continue
        out.append(c)
        i += 1
    return "".join(out)


class GrammarError(Exception):
    pass


class Sym:
    def __init__(self, kind, ref=None, args=None, rep="", group=None, binder=None, anon=False):
        self.kind = kind      # 'nt' | 'lit' | 'group'
        self.ref = ref
        self.args = args or []
        self.rep = rep
        self.group = group or []
        self.binder = binder
        self.anon = anon      # `<Sym>` (value selected without a name)

    def __repr__(self):
        core = self.ref if self.kind != "group" else "(" + " ".join(map(repr, self.group)) + ")"
        if self.args:
            core += "<" + ",".join(self.args) + ">"
        core += self.rep
        if self.binder:
            return "<%s:%s>" % (self.binder, core)
        if self.anon:
            return "<%s>" % core
        return core


class Alt:
    def __init__(self, symbols, cond, action, line):
        self.symbols = symbols
        self.cond = cond
        self.action = action
        self.line = line


class Rule:
    def __init__(self, name, params, ty, alts, public, line):
        self.name = name
        self.params = params
        self.ty = ty
        self.alts = alts
        self.public = public
        self.line = line


class Grammar:
    def __init__(self, text):
        self.text = text
        self.terminals = []   # dict(pattern, regex: bool, name or None, skip: bool, line)
        self.rules = {}
        self.order = []
        self._parse()

    # ------------------------------------------------------------------ tokenizer
    def _tokens(self, text):
        toks = []
        i, n, line = 0, len(text), 1
        while i < n:
            c = text[i]
            if c == "\n":
                line += 1
                i += 1
                continue
            if c.isspace():
                i += 1
                continue
            if text.startswith("//", i):
                j = text.find("\n", i)
                i = n if j < 0 else j
                continue
            if text.startswith("/*", i):
                j = text.find("*/", i)
                line += text[i:j].count("\n")
                i = j + 2
                continue
            if c == "r" and i + 1 < n and text[i + 1] in "\"#":
                # raw string r"…" / r#"…"#
                j = i + 1
                hashes = 0
                while text[j] == "#":
                    hashes += 1
                    j += 1
                assert text[j] == '"'
                end = text.find('"' + "#" * hashes, j + 1)
                toks.append(("regex", text[j + 1:end], line))
                i = end + 1 + hashes
                continue
            if c == "'" and _char_lit_len(text, i):
                k = _char_lit_len(text, i)
                toks.append(("chr", text[i:i + k], line))
                i += k
                continue
            if c == '"':
                j = i + 1
                s = ""
                while text[j] != '"':
                    if text[j] == "\\":
                        s += text[j:j + 2]
                        j += 2
                    else:
                        s += text[j]
                        j += 1
                toks.append(("str", s, line))
                i = j + 1
                continue
            m = re.match(r"[A-Za-z_][A-Za-z0-9_]*", text[i:])
            if m:
                toks.append(("id", m.group(0), line))
                i += len(m.group(0))
                continue
            if text.startswith("=>", i) or text.startswith("==", i) or text.startswith("::", i) or text.startswith("->", i):
                toks.append(("p", text[i:i + 2], line))
                i += 2
                continue
            toks.append(("p", c, line, i > 0 and not text[i - 1].isspace()))
            i += 1
        return toks

    # ------------------------------------------------------------------ parser
    def _parse(self):
        text = self.text
        # split header / body at `grammar;`
        m = re.search(r"^\s*grammar\s*;", text, re.M)
        if not m:
            raise GrammarError("no `grammar;` declaration")
        body = text[m.end():]
        base_line = text[:m.end()].count("\n") + 1
        self.base_line = base_line
        # raw scanning with bracket matching for actions: work on characters
        self.src = body
        self.pos = 0
        self.line = base_line
        self._skip_ws()
        while self.pos < len(self.src):
            if self.src.startswith("match", self.pos) and re.match(r"match\s*\{", self.src[self.pos:]):
                self._parse_match()
            else:
                self._parse_rule()
            self._skip_ws()

    def _skip_ws(self):
        s = self.src
        while self.pos < len(s):
            if s[self.pos].isspace():
                if s[self.pos] == "\n":
                    self.line += 1
                self.pos += 1
            elif s.startswith("//", self.pos):
                j = s.find("\n", self.pos)
                self.pos = len(s) if j < 0 else j
            elif s.startswith("/*", self.pos):
                j = s.find("*/", self.pos)
                self.line += s[self.pos:j].count("\n")
                self.pos = j + 2
            else:
                break

    def _balanced(self, open_c, close_c):
        """src[pos] == open_c; return text inside the balanced pair, advance past it"""
        s = self.src
        assert s[self.pos] == open_c, (s[self.pos:self.pos + 20], open_c)
        depth = 0
        i = self.pos
        start = i + 1
        while i < len(s):
            c = s[i]
            if c == "r" and i + 1 < len(s) and s[i + 1] in "\"#" and (i == 0 or not (s[i - 1].isalnum() or s[i - 1] == "_")):
                j = i + 1
                hashes = 0
                while s[j] == "#":
                    hashes += 1
                    j += 1
                if s[j] == '"':
                    end = s.find('"' + "#" * hashes, j + 1)
                    i = end + 1 + hashes
                    continue
            if c == "'" and _char_lit_len(s, i):
                i += _char_lit_len(s, i)
                continue
            if c == '"':
                i += 1
                while s[i] != '"':
                    i += 2 if s[i] == "\\" else 1
                i += 1
                continue
            if c == "'" and i + 2 < len(s) and (s[i + 2] == "'" or (s[i + 1] == "\\" and s[i + 3] == "'")):
                i += 3 if s[i + 2] == "'" else 4
                continue
            if s.startswith("//", i):
                j = s.find("\n", i)
                i = len(s) if j < 0 else j
                continue
            if c == open_c:
                depth += 1
            elif c == close_c:
                depth -= 1
                if depth == 0:
                    inner = s[start:i]
                    self.line += s[self.pos:i + 1].count("\n")
                    self.pos = i + 1
                    return inner
            i += 1
        raise GrammarError("unbalanced %s" % open_c)

    def _parse_match(self):
        self.pos = self.src.index("{", self.pos)
        start_line = self.line
        inner = self._balanced("{", "}")
        toks = self._tokens(inner)
        i = 0
        while i < len(toks):
            t = toks[i]
            if t[0] in ("regex", "str"):
                pat = t[1]
                is_re = t[0] == "regex"
                name = None
                skip = False
                j = i + 1
                if j < len(toks) and toks[j][:2] == ("p", "=>"):
                    j += 1
                    if toks[j][0] == "id":
                        name = toks[j][1]
                        j += 1
                    elif toks[j][1] == "{":
                        # `{ }` — skipped terminal (must be empty)
                        k = j + 1
                        content = []
                        while toks[k][1] != "}":
                            content.append(toks[k][1])
                            k += 1
                        skip = True
                        if content:
                            name = "{" + " ".join(content) + "}"
                        j = k + 1
                self.terminals.append({"pattern": pat, "regex": is_re, "name": name, "skip": skip, "line": start_line + t[2] - 1})
                i = j
            else:
                i += 1

    def _parse_rule(self):
        s = self.src
        m = re.match(r"(pub\s+)?([A-Za-z_][A-Za-z0-9_]*)\s*(<([^>]*)>)?\s*:", s[self.pos:])
        if not m:
            raise GrammarError("cannot parse rule at line %d: %r" % (self.line, s[self.pos:self.pos + 40]))
        public = bool(m.group(1))
        name = m.group(2)
        params = [p.strip() for p in (m.group(4) or "").split(",") if p.strip()]
        line = self.line
        self.pos += m.end()
        # type up to '='
        eq = self._find_top(s, self.pos, "=")
        ty = s[self.pos:eq].strip()
        self.pos = eq + 1
        self._skip_ws()
        alts = []
        if s[self.pos] == "{":
            start_line = self.line
            inner = self._balanced("{", "}")
            for text, ln in self._split_alts(inner, start_line):
                a = self._parse_alt(text, ln)
                if a.symbols or a.action:
                    alts.append(a)
            self._skip_ws()
            if self.pos < len(s) and s[self.pos] == ";":
                self.pos += 1
        else:
            end = self._find_top(s, self.pos, ";")
            alts.append(self._parse_alt(s[self.pos:end], self.line))
            self.line += s[self.pos:end + 1].count("\n")
            self.pos = end + 1
        self.rules[name] = Rule(name, params, ty, alts, public, line)
        self.order.append(name)

    def _find_top(self, s, i, ch):
        depth = 0
        while i < len(s):
            c = s[i]
            if c == "'" and _char_lit_len(s, i):
                i += _char_lit_len(s, i)
                continue
            if c == '"':
                i += 1
                while s[i] != '"':
                    i += 2 if s[i] == "\\" else 1
            elif c in "<([{":
                depth += 1
            elif c in ">)]}":
                if c == ">" and s[i - 1] in "=-":
                    pass
                else:
                    depth -= 1
            elif c == ch and depth == 0 and not (ch == "=" and s[i + 1] in ">="):
                return i
            i += 1
        raise GrammarError("expected %r" % ch)

    def _split_alts(self, inner, start_line):
        """split `{ a => x, b => y, }` at top-level commas (outside nested brackets/strings)"""
        out = []
        depth = 0
        i = 0
        cur = 0
        line = start_line
        cur_line = start_line
        s = inner
        in_action = False
        while i < len(s):
            c = s[i]
            if s.startswith("//", i):
                j = s.find("\n", i)
                i = len(s) if j < 0 else j
                continue
            if c == "\n":
                line += 1
            if c == "'" and _char_lit_len(s, i):
                i += _char_lit_len(s, i)
                continue
            if c == '"':
                i += 1
                while s[i] != '"':
                    i += 2 if s[i] == "\\" else 1
            elif c in "([{":
                depth += 1
            elif c in ")]}":
                depth -= 1
            elif c == "<" and not in_action:
                depth += 1
            elif c == ">" and not in_action and s[i - 1] != "=":
                depth -= 1
            elif s.startswith("=>", i) and depth == 0:
                in_action = True
                i += 1
            elif c == "," and depth == 0 and in_action:
                out.append((s[cur:i], cur_line))
                cur = i + 1
                cur_line = line
                in_action = False
            i += 1
        if s[cur:].strip():
            out.append((s[cur:], cur_line))
        return out

    def _parse_alt(self, text, line):
        # line comments (a trailing remark, a commented-out alternative) are blanked first: they may contain `=>` and `,`
        text = _blank_line_comments(text)
        # leading blank lines belong to the previous alternative
        stripped = text.lstrip()
        line += text[:len(text) - len(stripped)].count("\n")
        text = stripped
        # split symbols / action at top-level `=>`
        depth = 0
        i = 0
        arrow = None
        while i < len(text):
            c = text[i]
            if c == "'" and _char_lit_len(text, i):
                i += _char_lit_len(text, i)
                continue
            if c == '"':
                i += 1
                while text[i] != '"':
                    i += 2 if text[i] == "\\" else 1
            elif c in "(<":
                depth += 1
            elif c in ")>" and text[i - 1] != "=":
                depth -= 1
            elif text.startswith("=>", i) and depth == 0:
                arrow = i
                break
            i += 1
        if arrow is None:
            sym_text, action = text, ""
        else:
            sym_text, action = text[:arrow], text[arrow + 2:].strip()
        cond = None
        m = re.search(r"\bif\s+(.+)$", sym_text.strip(), re.S)
        if m and "<" not in m.group(1):
            cond = m.group(1).strip()
            sym_text = sym_text[:sym_text.rindex("if")]
        toks = self._tokens(sym_text)
        syms, _ = self._parse_syms(toks, 0, None)
        return Alt(syms, cond, action, line)

    def _parse_syms(self, toks, i, closer):
        out = []
        while i < len(toks):
            t = toks[i]
            if closer and t[0] == "p" and t[1] == closer:
                return out, i + 1
            if t[0] == "p" and t[1] == "<":
                # <name: Sym> or <Sym>
                if toks[i + 1][0] == "id" and toks[i + 2][0] == "p" and toks[i + 2][1] == ":" :
                    binder = toks[i + 1][1]
                    sym, j = self._parse_one(toks, i + 3)
                    sym.binder = binder
                else:
                    sym, j = self._parse_one(toks, i + 1)
                    sym.anon = True
                assert toks[j][1] == ">", (toks[j], [x[1] for x in toks])
                out.append(sym)
                i = j + 1
                continue
            sym, i = self._parse_one(toks, i)
            out.append(sym)
        return out, i

    def _parse_one(self, toks, i):
        t = toks[i]
        if t[0] == "p" and t[1] == "(":
            group, j = self._parse_syms(toks, i + 1, ")")
            sym = Sym("group", group=group)
        elif t[0] == "str":
            sym = Sym("lit", ref=t[1])
            j = i + 1
        elif t[0] == "id":
            sym = Sym("nt", ref=t[1])
            j = i + 1
            if j < len(toks) and toks[j][0] == "p" and toks[j][1] == "<" and len(toks[j]) > 3 and toks[j][3]:
                # macro arguments (written without a space: Expression<"open">)
                args = []
                j += 1
                while toks[j][1] != ">":
                    if toks[j][0] == "str":
                        args.append('"%s"' % toks[j][1])
                    elif toks[j][0] == "id":
                        args.append(toks[j][1])
                    j += 1
                j += 1
                sym.args = args
        else:
            raise GrammarError("unexpected token %r" % (t,))
        while j < len(toks) and toks[j][0] == "p" and toks[j][1] in "*?+":
            sym.rep += toks[j][1]
            j += 1
        return sym, j

    # ------------------------------------------------------------------ queries
    def terminal_pattern(self, name):
        for t in self.terminals:
            if t["name"] == name:
                return t
        return None

    def refs(self, alt_or_syms):
        """all nonterminal references (name, args) inside an alternative"""
        out = []

        def rec(syms):
            for s in syms:
                if s.kind == "nt":
                    out.append((s.ref, tuple(s.args)))
                elif s.kind == "group":
                    rec(s.group)
        rec(alt_or_syms.symbols if isinstance(alt_or_syms, Alt) else alt_or_syms)
        return out


_cache = {}


def load(repo=None):
    repo = repo or F.REPO
    p = os.path.join(repo, "src", "fml.lalrpop")
    if not os.path.exists(p):
        return None
    key = (p, os.path.getmtime(p), os.path.getsize(p))
    if key not in _cache:
        with open(p) as f:
            _cache[key] = Grammar(f.read())
    return _cache[key]
