"""Client "byte layout": serialize / from_bytes executed down to Write::write_all / Read::read_exact."""
from . import anchors as A
from .symex import Executor, Client, State, lit, app, UNIT

P = "bytecode::program::"


class LayoutClient(Client):
    name = "layout"
    inline_depth = 8

    def __init__(self, track_subs=True):
        self.track_subs = track_subs

    def tracked(self, ex, path, node, recv, args, st):
        if not self.track_subs:
            return None
        if ex.stack and ex.stack[0] in (A.get("constant.serialize"), A.get("opcode.serialize"), A.get("constant.from_bytes"), A.get("opcode.from_bytes")) and len(ex.stack) == 1:
            # analysing the element itself: only nested elements are tracked
            if path == A.get("opcode.serialize"):
                return {"kind": "sub_write", "args": (lit("opcode"), recv) + tuple(args), "result": "result", "hint": "opcode.serialize"}
            if path == A.get("opcode.from_bytes"):
                return {"kind": "sub_read", "args": (lit("opcode"),) + tuple(args), "result": "sym", "hint": "opcode"}
            return None
        if path == A.get("constant.serialize"):
            return {"kind": "sub_write", "args": (lit("constant"), recv) + tuple(args), "result": "result", "hint": "constant.serialize"}
        if path == A.get("opcode.serialize"):
            return {"kind": "sub_write", "args": (lit("opcode"), recv) + tuple(args), "result": "result", "hint": "opcode.serialize"}
        if path == A.get("constant.from_bytes"):
            return {"kind": "sub_read", "args": (lit("constant"),) + tuple(args), "result": "sym", "hint": "constant"}
        if path == A.get("opcode.from_bytes"):
            return {"kind": "sub_read", "args": (lit("opcode"),) + tuple(args), "result": "sym", "hint": "opcode"}
        return None


def run(fx, path, args, track_subs=True, first_byte=None):
    b = fx.body(path)
    if b is None:
        return None, None
    ex = Executor(fx, LayoutClient(track_subs))
    ex.first_byte = first_byte
    res = ex.run_body(b, args, State())
    return ex, [{"eff": s.eff, "out": o} for s, o in res]
