import sys
from . import facts as F
from .layout_scheme import run
from .compile_scheme import variant_fields
from .symdbg import show_eff, fmt_out
from .symex import lit
fx = F.Facts(F.extract())
path = sys.argv[1]
if len(sys.argv) > 3:
    adt, v = sys.argv[2], sys.argv[3]
    fields = variant_fields(fx, adt, v)
    self_t = ("ctor", adt, v, tuple((f, ("var", "self." + f)) for f in fields))
    args = [self_t, ("var", "sink"), ("var", "code")]
else:
    b = fx.body(path)
    args = [("var", p.get("name", "p%d" % i)) for i, p in enumerate(b["params"])]
ex, paths = run(fx, path, args)
print(len(paths), "paths")
for i, p in enumerate(paths):
    okp = p["out"][0] == "val" and p["out"][1][0] in ("ok", "ctor")
    if not okp: continue
    print("PATH %d -> %s" % (i, fmt_out(p["out"])[:300]))
    show_eff(p["eff"])
print("unmodelled:", ex.unmodelled)
