"""bin/check entry point."""
import argparse
import importlib
import json
import os
import sys
import time

from . import facts as F
from .core import Check
from .callgraph import CallGraph

PROPS = ["C%02d" % i for i in range(1, 18)]


def load_ctx(profile="dev"):
    path = F.extract(profile=profile)
    fx = F.Facts(path)
    cg = CallGraph(fx)
    return fx, cg


def main(argv=None):
    ap = argparse.ArgumentParser()
    ap.add_argument("pid")
    ap.add_argument("--tier", default=os.environ.get("VERIF_TIER", "quick"))
    ap.add_argument("--replay", default=None)
    a = ap.parse_args(argv)
    seed = int(os.environ.get("VERIF_SEED", "0") or 0)
    pid = a.pid.upper()
    if pid not in PROPS:
        print("unknown property", pid)
        return 2
    tier = a.tier if a.tier in ("quick", "thorough") else "quick"
    try:
        fx, cg = load_ctx()
    except F.CannotAnalyse as e:
        print("CANNOT-ANALYSE: %s" % e)
        return 2
    mod = importlib.import_module("engine.props.%s" % pid.lower())
    ck = Check(pid, tier, seed, level=getattr(mod, "LEVEL", "other"))
    ck.extra["facts"] = {"file": os.path.relpath(fx.path, F.VERIF), "profile": "dev",
                         "overflow_checks": fx.meta["overflow_checks"],
                         "hir_bodies": len(fx.hir), "mir_bodies": len(fx.mir)}
    mod.run(ck, fx, cg, tier)
    if a.replay:
        try:
            want = json.load(open(a.replay))["key"]
            hits = [o for o in ck.obligs if "%s|%s" % (o["rule"], o["key"]) == want]
            for o in hits:
                print("REPLAY %s: %s %s %s" % (want, "holds" if o["ok"] else "VIOLATED", o["where"], o["detail"]))
            if not hits:
                print("REPLAY %s: instance no longer exists in the current tree" % want)
        except Exception as e:  # noqa
            print("cannot replay:", e)
    return ck.finish()


if __name__ == "__main__":
    sys.exit(main())
