"""bin/check entry point."""
import argparse
import importlib
import json
import os
import sys
import time

from . import facts as F
from .core import Check
from .callgraph import CallGraph

PROPS = ["C%02d" % i for i in range(1, 18)]


def load_ctx(profile="dev"):
    path = F.extract(profile=profile)
    fx = F.Facts(path)
    cg = CallGraph(fx)
    return fx, cg


def struct_hash(n):
    """structural hash of a HIR subtree ignoring spans, ids and interned type indices"""
    import hashlib
    h = hashlib.sha1()

    def rec(x):
        if isinstance(x, dict):
            for k in sorted(x):
                if k in ("sp", "span", "id", "ty", "aty", "did", "inst_did", "lid", "to", "ret_ty", "param_tys"):
                    continue
                h.update(k.encode())
                rec(x[k])
        elif isinstance(x, list):
            h.update(b"[")
            for y in x:
                rec(y)
            h.update(b"]")
        else:
            h.update(repr(x).encode())
    rec(n)
    return h.hexdigest()


def thorough(ck, mod, pid, fx, cg):
    """Thorough tier: configuration sweep (release profile), profile-dependent code diff,
    clippy cross-reference, checker self-validation on seeded variants."""
    import subprocess
    t0 = time.time()
    # (a) release-profile extraction: same rules, verdicts must agree; bodies must be structurally identical
    try:
        path2 = F.extract(profile="release", target_name="target")
        fx2 = F.Facts(path2)
        cg2 = CallGraph(fx2)
        ck2 = Check(pid, "thorough", ck.seed, level=ck.level)
        import engine.props.c02 as _c02
        import engine.props.c05_vm as _vm
        import engine.props.layout as _lay
        _c02._cache.clear(); _vm._cache.clear(); _lay._cache.clear()
        mod.run(ck2, fx2, cg2, "quick")
        _c02._cache.clear(); _vm._cache.clear(); _lay._cache.clear()
        bad1 = {"%s|%s" % (o["rule"], o["key"]) for o in ck.obligs if not o["ok"]}
        bad2 = {"%s|%s" % (o["rule"], o["key"]) for o in ck2.obligs if not o["ok"]}
        for k in sorted(bad2 - bad1):
            o = next(o for o in ck2.obligs if "%s|%s" % (o["rule"], o["key"]) == k)
            ck.obligs.append(dict(o, detail="[release profile] " + o["detail"]))
        h1 = {b["path"]: struct_hash(b["value"]) for b in fx.hir}
        h2 = {b["path"]: struct_hash(b["value"]) for b in fx2.hir}
        differ = sorted(p for p in h1 if p in h2 and h1[p] != h2[p])
        only = sorted(set(h1) ^ set(h2))
        ck.ob("T.profile", "source is identical under dev and release cfgs", not differ and not only, "",
              "bodies that differ between the dev and release configurations: %s; bodies present in only one: %s" % (differ[:5] or "none", only[:5] or "none"))
        ck.extra["configurations"] = [{"profile": "dev", "overflow_checks": fx.meta["overflow_checks"], "obligations": len(ck.obligs)},
                                      {"profile": "release", "overflow_checks": fx2.meta["overflow_checks"], "obligations": len(ck2.obligs), "violations": len(bad2)}]
    except F.CannotAnalyse as e:
        ck.note("thorough: release-profile extraction failed: %s" % str(e)[:200])
    # (b) clippy cross-reference (reported, never a verdict)
    lints = {"C08": ["clippy::unused_io_amount"], "C11": ["clippy::iter_over_hash_type"], "C10": ["clippy::let_underscore_must_use", "clippy::unused_result_ok"],
             "C09": ["clippy::arithmetic_side_effects"], "C03": ["clippy::cast_possible_truncation"]}.get(pid)
    if lints:
        try:
            env = dict(os.environ, CARGO_TARGET_DIR=os.path.join(F.CACHE, "target-clippy"), CARGO_NET_OFFLINE="true")
            args = ["cargo", "+nightly", "clippy", "--offline", "--locked", "--message-format=short", "--", "-A", "clippy::all", "-A", "unused", "-A", "warnings"]
            for l in lints:
                args += ["-W", l]
            r = subprocess.run(args, cwd=F.REPO, env=env, stdout=subprocess.PIPE, stderr=subprocess.STDOUT, text=True, timeout=600)
            counts = {}
            for line in r.stdout.splitlines():
                for l in lints:
                    pass
                if ": warning:" in line and line.startswith("src/"):
                    f = line.split(":", 1)[0]
                    counts[f] = counts.get(f, 0) + 1
            ck.extra["clippy_cross_reference"] = {"lints": lints, "warnings_by_file": counts, "note": "cross-reference only; a disagreement with the own rule is reported here, not as a violation"}
        except Exception as e:  # noqa
            ck.note("thorough: clippy cross-reference not available: %s" % str(e)[:120])
    # (c) checker self-validation on seeded variants (scratch copies outside /repo and /verif)
    if not os.environ.get("FML_SCRATCH"):
        try:
            r = subprocess.run([os.path.join(F.VERIF, "selftest", "run_mutants.py"), "--props", pid], cwd=F.VERIF, stdout=subprocess.PIPE,
                               stderr=subprocess.STDOUT, text=True, timeout=1500)
            lines = [l for l in r.stdout.splitlines() if l[:1] == "M" or "as expected" in l]
            rb = subprocess.run([os.path.join(F.VERIF, "selftest", "run_mutants.py"), "--props", pid, "--benign"], cwd=F.VERIF, stdout=subprocess.PIPE,
                                stderr=subprocess.STDOUT, text=True, timeout=900)
            lb = [l for l in rb.stdout.splitlines() if l[:1] == "B" or "as expected" in l]
            rs = subprocess.run([os.path.join(F.VERIF, "selftest", "run_mutants.py"), "--props", pid, "--seeded"], cwd=F.VERIF, stdout=subprocess.PIPE,
                                stderr=subprocess.STDOUT, text=True, timeout=1500)
            ls = [l for l in rs.stdout.splitlines() if l[:1] == "S" or "as expected" in l]
            rr = subprocess.run([os.path.join(F.VERIF, "selftest", "run_mutants.py"), "--props", pid, "--refactorings"], cwd=F.VERIF, stdout=subprocess.PIPE,
                                stderr=subprocess.STDOUT, text=True, timeout=1500)
            lr = [l for l in rr.stdout.splitlines() if l[:1] in ("R", "Q") or "as expected" in l]
            ck.extra["self_validation"] = {"seeded_bad_variants": lines, "benign_variants": lb, "independent_seeds": ls, "independent_refactorings": lr,
                                           "note": "each variant is applied to a scratch copy (mktemp, removed afterwards); CAUGHT = this property's check exits 1 on the variant; SKIP = /repo no longer matches the seed's base"}
        except Exception as e:  # noqa
            ck.note("thorough: self-validation not run: %s" % str(e)[:120])
    ck.extra["thorough_wall_s"] = round(time.time() - t0, 1)


def main(argv=None):
    ap = argparse.ArgumentParser()
    ap.add_argument("pid")
    ap.add_argument("--tier", default=os.environ.get("VERIF_TIER", "quick"))
    ap.add_argument("--replay", default=None)
    a = ap.parse_args(argv)
    seed = int(os.environ.get("VERIF_SEED", "0") or 0)
    pid = a.pid.upper()
    if pid not in PROPS:
        print("unknown property", pid)
        return 2
    tier = a.tier if a.tier in ("quick", "thorough") else "quick"
    try:
        fx, cg = load_ctx()
    except F.CannotAnalyse as e:
        print("CANNOT-ANALYSE: %s" % e)
        return 2
    mod = importlib.import_module("engine.props.%s" % pid.lower())
    ck = Check(pid, tier, seed, level=getattr(mod, "LEVEL", "other"))
    ck.extra["facts"] = {"file": os.path.relpath(fx.path, F.VERIF), "profile": "dev",
                         "overflow_checks": fx.meta["overflow_checks"],
                         "hir_bodies": len(fx.hir), "mir_bodies": len(fx.mir)}
    try:
        mod.run(ck, fx, cg, tier)
    except Exception as e:  # noqa — a rule that cannot cope with the tree's shape fails closed, as a reported obligation
        import traceback
        tb = traceback.extract_tb(e.__traceback__)
        last = tb[-1] if tb else None
        ck.ob("engine", "rule set evaluated completely", False, "%s:%s" % (os.path.basename(last.filename), last.lineno) if last else "",
              "the checker could not evaluate its rules on this tree (%s: %s) — unprovable, reported fail-closed; this says the code left the shapes the rules understand, not that the behaviour changed" % (type(e).__name__, str(e)[:200]))
    if tier == "thorough":
        thorough(ck, mod, pid, fx, cg)
    if a.replay:
        try:
            want = json.load(open(a.replay))["key"]
            hits = [o for o in ck.obligs if "%s|%s" % (o["rule"], o["key"]) == want]
            for o in hits:
                print("REPLAY %s: %s %s %s" % (want, "holds" if o["ok"] else "VIOLATED", o["where"], o["detail"]))
            if not hits:
                print("REPLAY %s: instance no longer exists in the current tree" % want)
        except Exception as e:  # noqa
            print("cannot replay:", e)
    return ck.finish()


if __name__ == "__main__":
    sys.exit(main())
