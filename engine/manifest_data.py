"""Source of MANIFEST.json (bin/gen-manifest)."""
import json
import os

HERE = os.path.dirname(os.path.dirname(os.path.abspath(__file__)))

TB = "trusted: rustc 1.97-nightly front end (resolution, type check, MIR construction), the fml-facts dumper, the Python rule engines and their std models, the reference tables in specs/ (DESIGN Appendix A)"

CHECKS = {
    "C08": dict(
        category="proof",
        text="Every sink write reachable from Program::serialize / the writing CLI actions is a complete write (write_all/write_fmt) or a partial write (write/write_vectored) that is provably resumed — std's resume loop, or byte accounting of the enclosing function by symbolic execution with linear arithmetic over the returned count (anything else is reported as 'cannot show') —, local Write impls forward write/flush unchanged, no Result on the path is dropped, and every buffering writer a function owns and writes to is flushed after the last write with the Result checked (a drop-time flush swallows the error). With std's Write contract this gives 'all bytes or an error' for every short-write and every failing behaviour of the sink. Nothing happens to the sink but the serializer's writes and the flush (C04's R4.notrailing obligations as a presupposition: no pre-sizing, seeking or second handle).",
        note=TB + "; the write_all/write_fmt/flush contract; symbolic executor + std models for the accounting rule",
        technique="static analysis: MIR call-graph reachability + def-use of Write::write counts and Result values on type-checked HIR + symbolic byte accounting of partial writes + must-flush ownership rule for buffering writers",
        ref="DESIGN.md §3 C08"),
    "C10": dict(
        category="other",
        text="Structural error discipline over everything reachable from main: no Result dropped or swallowed (enumerated discard idioms), no exit/abort/catch_unwind/stderr-on-success, no user unsafe incl. the generated parser, every call-graph cycle listed with a checked bound (parent field construction-only; on-path guard for rendering through mutable heap storage), print is atomic (no failure exit after an observable write), program output is written through (no buffering past a fault), and no faulting instruction is compiled away when a value is discarded (keep=false templates compile the same faulting instructions and children as keep=true). Unlisted recursive components are accepted only as structural recursion over the syntax tree (every call cycle descends to a sub-tree binding). Necessary conditions of the behaviour for every program; native stack bytes, malformed-source classes and stderr text are not decided. No anyhow::Error is wrapped once per element of a run-time collection (a chain dropped recursively). The memory flags size no allocation and steer nothing (C16's R16.inert as a presupposition: an allocation sized by --heap-size can abort the process).",
        note=TB + "; panic=unwind; expect/unwrap exit with status 101 and a message on stderr",
        technique="static analysis: Result def-use discipline on HIR, call-graph SCC census with guard recogniser, who-may-write census, structured may-follow ordering in eval_print",
        ref="DESIGN.md §3 C10"),
    "C11": dict(
        category="other",
        text="Determinism as absence of sources: exact census that no HashMap/HashSet order-exposing operation, no clock/env/pid/hash-seed/address/thread source (other than the timestamp confined to the heap-log File), no cfg!(debug_assertions)/debug_assert, and no profile-dependent arithmetic on FML values or CLI numerics occurs in code reachable from compile/serialize/load/VM/disassembler; the Cargo profiles agree on the panic strategy. The clap definition of every sub-command is self-consistent (unique ids / long / short names, every id named by a relation attribute exists): clap validates this only in builds with debug assertions, so an inconsistency makes the dev binary panic where the release binary runs (R11.cli). `{:p}` is looked for in every body of the crate (Display impls are reached through the formatting machinery, not through visible calls). Index/length arithmetic is exempt by provenance (listed per site), which is judgement — hence not 'proof'.",
        note=TB + "; std/indexmap/third-party crates deterministic for equal inputs; LLVM computes the same results in both profiles for profile-independent operations",
        technique="static analysis: call-graph-scoped census + taint of CLI numerics + operator/operand-type classification on HIR",
        ref="DESIGN.md §3 C11"),
    "C14": dict(
        category="other",
        text="Reference semantics as type/ownership facts (Pointer: Copy with an index-only Reference payload; no clone of heap objects or their element storage in the VM; element storage written only by set_element/set_field on the heap-resident object; heap append-only) plus handler-template rules for dispatch order, arity checks and get/set/operator sugar. Structural, each rule a necessary condition. Identity: every object / array creation allocates and yields a fresh reference (C05's Object/Array rows as a presupposition); array get/set arity probed through the dispatch entry. A heap slot, once filled, is never overwritten (no index assignment / iter_mut / swap on the heap vector). The parent is asked only when the receiver's method table has no entry under the call's name: a member is never passed over because of its parameter count or kind.",
        note=TB,
        technique="static analysis: ADT/impl facts, who-may-write / who-may-call / clone census on HIR+MIR call graph; effect templates of the dispatch functions",
        ref="DESIGN.md §3 C14"),
    "C16": dict(
        category="other",
        text="Heap-log contract decided structurally: the heap vector grows only in Heap::allocate, where size update → one `<ns>,A,<updated size>` record → one push are ordered and unconditional (apart from the log-is-Some test); allocate is called exactly once, outside loops, by the array and the object evaluator only; record templates equal the documented ones; the size function is pure in the value's shape with a positive constant term; max_size is write-only, log is touched only by the log writer, the --heap-size number reaches only set_size and no overflow-sensitive arithmetic. Timestamp order and file-system failures are not decided. Heap.size is written by allocate only. The callers of allocate are counted among the functions main can reach.",
        note=TB + "; S9 record formats taken from the property statement",
        technique="static analysis: who-may-write/who-may-call census, structured ordering in allocate, format_args templates captured from the expanded AST, CLI taint",
        ref="DESIGN.md §3 C16"),
}

CHECKS.update({
    "C02": dict(
        category="other",
        text="The compiler can only emit what its 20 syntax-directed templates emit. Each arm of compile_into is executed symbolically (HIR, keep ∈ {true,false}, every frame alternative) and the instruction template — recursive compiles as placeholders that net [keep] by induction, list children as symbolic counts — is interpreted over the abstract VM S1: stack-depth dataflow over the template's own control flow (net [keep], never below entry, equal depth at label joins, exactly 1 at Return, method buffers start at 0), operand counts vs values pushed, constant kinds, label provenance from a strictly increasing group counter, buffer linearity, frame sizes. Intended sound for the whole statement relative to S1 and the std models; side conditions on parser output (non-empty blocks, Function only under Top/object, root is Top) are discharged on the grammar. The side conditions on the parser's output (definitions occur only at top level or as object members; block and top-level lists are non-empty) are C07's R7.shape obligations, evaluated as a presupposition.",
        note=TB + "; induction hypothesis 'a child compiled with keep nets [keep]'; symbolic executor + std models",
        technique="static analysis: symbolic execution of the compiler's HIR into effect templates + abstract interpretation of the templates over an abstract stack machine",
        ref="DESIGN.md §3 C02"),
    "C12": dict(
        category="other",
        text="Scoping decided on the compiler's templates and the Environment component: only the Block arm opens/closes a scope (paired, on the environment the frame kind selects); the decision structure of let / read / assign, extracted as path conditions by symbolic execution, is evaluated over all 16 worlds (frame kind × visibility × outermost) and compared with the S10 table; each Environment method, executed down to HashMap/Vec primitives, equals its role model (bind-fresh, innermost-first lookup, fresh scope ids, insert-only slots, outermost ⇔ stack length 1); function/method bodies get a fresh environment with [this?]++parameters in a Local frame; VM calls build fresh null-initialised frames. Structural, each rule necessary. Every tree an arm compiles in the current environment is part of the node being compiled (R12.place): a body fetched from a table and compiled at the call site would capture the caller's scope.",
        note=TB + "; S10 table from the README; HashMap/Vec behave as documented",
        technique="static analysis: symbolic execution + finite decision-table evaluation + component model matching + who-may-write census",
        ref="DESIGN.md §3 C12"),
    "C13": dict(
        category="other",
        text="Evaluation order decided on the templates: along every control-flow path of every arm's template the recursive compiles occur in S2's order exactly once (list children iterated forwards), the conditional's branches hang off the truthy/falsy edges of Branch, the loop's path language is cond (body cond)*, the compound-array arm builds exactly the documented rewrite (size once and first, counter from 0 step 1 while < size, initializer once per iteration before the store) and only side-effect-free initializer kinds are evaluated once; VM-side orientation (pop_sequence, frames, print, object slots) from the handler templates; C02's label discipline (every jump reaches the label of its own construct) is evaluated as a presupposition. Sound for the ordering statement relative to S1. Every instruction handler moves the instruction pointer exactly as its row says (C05's handler rows as a presupposition: an extra or missing bump skips or repeats instructions).",
        note=TB + "; straight-line VM execution trusted",
        technique="static analysis: symbolic execution into templates, CFG path-language check, structural matching of the synthetic rewrite AST",
        ref="DESIGN.md §3 C13"),
})

CHECKS["C05"] = dict(
    category="other",
    text="Structural conformance of every opcode handler to the abstract machine S1: each eval_* function, with the state-component methods inlined down to Vec/HashMap/slice primitives on the State's fields, is executed symbolically; every successful path is normalised to abstract-machine events and compared with the opcode's S1 row (values popped in which order and where each flows, constant kind demanded, ip effect through the label map / method start, frames = [receiver]++arguments in call order++null×locals with return to the next instruction, Return restoring the saved address, Branch polarity per truthiness case). The dispatcher maps each opcode to its own handler and operands; State::from initialises globals to null, indexes functions by name and builds the entry frame; the VM contains no compiler-private names. Necessary, close to sufficient for straight-line instruction semantics; heap/HashMap implementations and run-time values are not decided. Branch truthiness is decided world by world (the value kinds each path admits), and Print's format scanner is C15's R15.fsm as a presupposition.",
    note=TB + "; symbolic executor + std models",
    technique="static analysis: symbolic execution of the handlers' HIR into effect templates + event-level comparison with an abstract machine table",
    ref="DESIGN.md §3 C05")

CHECKS["C03"] = dict(
    category="other",
    text="Inverse-ness decided as agreement of two syntax-directed templates: writer (Program::serialize ↓) and reader (Program::from_bytes ↓) are executed symbolically down to write_all/read_exact; for the 7 constant kinds, the 17 opcodes and the program frame the extracted layouts coincide token by token (tag, field order and destination, width, endianness, counts, element kinds); tag tables injective and mutually inverse; primitive pairs inverse by construction; narrowing casts range-asserted; loader appends method code in pool order while the writer emits each method's own range forwards; labels derived by one shared function; the loaded pool holds the file's constants one-to-one in file order, no sequence passes through a reordering/deduplicating collection, decoded numbers reach their fields unchanged, and the CLI's input reader is byte-transparent (file/stdin under Box/BufReader, or a Cursor over the bytes as read). Necessary and, with the primitive rules, essentially sufficient at the byte level; 'same behaviour when executed' follows only together with C05. On every reader path that builds a Method the instructions read are appended once with the range starting at the previous length; the CLI's input reader is the file / stdin under byte-transparent wrappers, is not used before it is stored, and nobody but the forwarding Read/BufRead impls and whole-input reads takes bytes from it. Every instruction the compiler emits lies in a method's range (C02's R2.methods as a presupposition), so writing method by method loses nothing. The writer's counterpart of the loader rule: every constant is written through its own serializer as it stands in the pool (no renaming / normalising on the way out).",
    note=TB + "; to_le_bytes/from_le_bytes mutually inverse; symbolic executor + std models",
    technique="static analysis: symbolic execution of serializer and loader into layout templates + token-wise agreement, tag-table inversion, cast/assert census",
    ref="DESIGN.md §3 C03")
CHECKS["C04"] = dict(
    category="other",
    text="Writer AND reader layouts (extracted by symbolic execution down to write_all/read_exact, per constant kind, per opcode and for the program frame) are each compared with S3, an independent grammar written from the property statement and the Feeny opcode numbering, and with the numbers in the doc comments — so a symmetric change of width, endianness, tag, field order or 'length in chars' is caught; nothing is written after the entry index, the compile action writes nothing else and truncates its output file; the loaded pool holds the file's constants one-to-one in order and the input reader is byte-transparent. Intended sound for 'every emitted file is exactly …' and for the reader accepting exactly that grammar. Nobody but the loader reads from the CLI's input (who-reads-the-input census; stored-reader provenance through locals and constructor parameters). A count-prefixed sequence is read exactly count times: the loop bound is the decoded count itself.",
    note=TB + "; S3 grammar (DESIGN A.3)",
    technique="static analysis: symbolic execution into layout templates + comparison with an independent layout grammar",
    ref="DESIGN.md §3 C04")

CHECKS["C07"] = dict(
    category="other",
    text="The grammar is analysed as source and its semantic actions in their type-checked form. Structure (reader for the LALRPOP subset): the operator strata and their operator sets (13 operators, one level each) equal the README's precedence table; the dangling else is resolved by the open/closed parameterisation; block and top-level lists have a mandatory first element. Actions: every alternative's action — LALRPOP compiles it into a function __actionN of the generated parser, which the fact dumper exports with rustc's resolution and types, and the generated parser itself documents which production runs which action — is executed symbolically with its symbol positions as variables (constructor helpers, IntoBoxed/From impls and composite actions followed); the value each of the 93 alternatives builds must equal the documented tree of that syntactic form: every operator level is the accumulation fold(CallMethod{object: ACC, name: spelling(op), arguments: [next]}) over its tail forwards from the head (left associativity), field/call chains fold AccessField from the object, a[i] / a[i] <- v build AccessArray/AssignArray with array, index, value from their positions, literals denote themselves, statement lists keep their first element in front, choice rules hand on their only symbol, every operator token builds its Operator variant; terminal ↦ Operator ↦ as_str is the identity. Lexer: skip terminals have empty actions and all five regex terminals are language-equivalent (NFA→DFA over an abstract alphabet) to the reference regexes; the abstract alphabet has representatives for ASCII white space beyond space/tab/CR/LF and for non-ASCII white space (the lexer's `\\s` is Unicode White_Space); LALR(1) conflict-freedom by LALRPOP at build time. Partial by design: print→reparse idempotence and decoration-insensitivity at every token boundary are language-level statements over all inputs and are NOT decided (lexer/unambiguity rules are necessary conditions only).",
    note=TB + "; LALRPOP's conflict check and longest-match lexer; S6 from the README",
    technique="static analysis: structural analysis of the LALRPOP grammar + symbolic execution of the type-checked semantic actions (generated parser's action functions) compared with a table of documented trees + regular-language equivalence of lexer regexes",
    ref="DESIGN.md §3 C07")
CHECKS["C09"] = dict(
    category="other",
    text="The built-in operations are finite decision tables. First-match pattern semantics (or-patterns, guards) are evaluated over {every spelling that occurs, OTHER} × {Null, Integer, Boolean, Reference} for the three dispatch tables; every cell's action — a closed form over receiver and argument whose meaning is fixed by the operator/method identity — equals S4, including Feeny spellings and operand order; argument count ≠ 1 fails first; an operator application is compiled whether or not its value is used (failing is an effect). Because actions are closed forms over i32 this decides the tables for all operand values. Build independence is decided at the operator level: plain + - * / unary - on i32 inherit overflow checks and are rejected (wrapping_* required); / and % check unconditionally. That a failing built-in fails the program (its Err reaches the exit status) is C10's propagation obligations, evaluated as a presupposition (R9.fails). Integer literals denote their value over the whole 32-bit range (C07's NUMBER / Number obligations as a presupposition). An operator application is compiled where it stands, never by-passed (C12's R12.place as a presupposition).",
    note=TB + "; Rust operator semantics on i32; LLVM",
    technique="static analysis: match-table extraction + finite first-match evaluation + operator/operand-type census",
    ref="DESIGN.md §3 C09")
CHECKS["C15"] = dict(
    category="other",
    text="print decided as a state machine plus renderer shapes: the body of the loop over the format's chars() (found in eval_print or a helper it calls) is abstractly interpreted once per cell of {escaped, plain} × {~ backslash quote n t r OTHER} — character and scanner state fixed, helpers inlined — and the text appended, the arguments taken and the state afterwards must equal S5 in every cell (covers every Unicode format string because the loop is over chars() and OTHER is a symbolic character); every successful path of eval_print runs that loop; both count-mismatch directions fail and null is pushed; per value kind the rendering shape equals S5 (literal texts, payload to_string, [..] with ', ', three object templates selected by parent/fields, name=value, sort on the field name preceding the traversal, a path-scoped cycle guard); the string-literal terminal admits exactly the VM's escape set and the String alternative builds the token text without its quotes (value of its type-checked action). The renderer print calls is exactly one call of the recursive renderer on a fresh guard with the result returned unchanged (no memo). The VM's stdout sink writes exactly the text it is given, once, and no function other than that sink, the disassembler's listing and the stage-output sink obtains stdout (R15.sink: no Drop / banner / prompt bytes).",
    note=TB + "; i32/bool to_string and slice::join",
    technique="static analysis: cell-wise abstract interpretation of the scanner loop body, handler templates, format_args templates of the renderers, grammar/regex analysis",
    ref="DESIGN.md §3 C15")

CHECKS["C01"] = dict(
    category="other",
    text="Explicitly partial: whole-program output equivalence quantifies over run-time values of all programs and is not decided. Decided are the per-construct translation obligations it decomposes into: for each of the 20 AST kinds × keep × frame alternative, the compile arm's template (symbolic execution) is interpreted over the abstract VM S1 with opaque children on a symbolic operand stack, and the resulting effect trace and result value must equal S2's denotation (names compared as data flow, so any opcode sequence with the same abstract effect is accepted but a different name constant, keep flag or operand order is not); plus the stage wiring of `run`. Necessary, not sufficient; composes with C02/C05/C07/C09/C12/C13/C15 over one S1 table.",
    note=TB + "; S1/S2 tables; induction over the AST; parser correctness beyond C07, HashMap/IndexMap models, termination and concrete values are not decided",
    technique="static analysis: symbolic execution into templates + abstract interpretation over a symbolic operand stack (per-construct translation validation)",
    ref="DESIGN.md §3 C01")
CHECKS["C06"] = dict(
    category="other",
    text="Explicitly partial: decided are the serde derive/attribute facts of the AST types, the per-format crate tables in both directions, extension/name tables vs S7 and their mutual inverse-ness, the format-selection logic of the parse and compile actions (explicit flag, else extension), one shared bytecode::compile, the parse action's single complete write into a truncated output, that serialize/deserialize return the format crate's own result for exactly their argument (symbolic execution: no post-processing of the text), that stage inputs are decoded as a whole (no chunk-wise decoding), and that no stage boundary deserialises the recursive AST through a depth-limited entry point (three genuine findings on file). NOT decided: string fidelity through serde_json/serde_yaml/serde_lexpr for all Unicode strings (third-party behaviour), the bash wrapper, stdin/stdout plumbing at run time. The input side of every stage is byte-transparent and read by its consumer only (same reader obligations as C03/C04). Each CLI action is also executed symbolically with its stages opaque: on every successful path each stage runs once and receives exactly the value the previous stage returned (R6.handoff: parse→serialize, deserialize→compile→write, parse→compile→evaluate, load→evaluate).",
    note=TB + "; serde derive generates mutually inverse impls for attribute-free types; third-party format crates round-trip their own output (not analysed)",
    technique="static analysis: ADT/derive/attribute facts from the expanded AST, match-table extraction, call-graph and who-may-call census of depth-limited deserialisers",
    ref="DESIGN.md §3 C06")
CHECKS["C17"] = dict(
    category="other",
    text="The listing is the Display rendering of the loaded Program. The Display impls are executed symbolically: every write to the formatter on the path that assumes a variant becomes a segment (literal, displayed value, loop; helpers followed; join(',') and separator loops identified); from the segments: every non-derived Program field is formatted in the S8 order with the S8 headers; for each of the 7+17 variants every field flows into the output; constants, globals and instructions are printed one per line as <position>: <item>, forwards; mnemonics equal S8; the per-variant token patterns (literal words interleaved with operand classes whose textual shape comes from the operand types' own Display templates) are pairwise non-unifiable, so for strings without raw line breaks each line determines its item; the disassemble action prints exactly the loaded program, and the loaded program is the program in the file (C04's reader and C03's loader obligations evaluated as presuppositions). Every path of Entry's rendering writes exactly the index (no index value lists as nothing). An actual read-back needs execution and is not performed.",
    note=TB + "; S8 from the listing examples shipped in tests/**/*.bc.txt",
    technique="static analysis: symbolic execution of the Display impls into rendering segments (format_args template capture as fall-back) + field-coverage + pairwise non-unifiability of token patterns",
    ref="DESIGN.md §3 C17")

PENDING_REASON = "check under construction in this round (static rules designed in DESIGN.md §3, not yet implemented)"


def build():
    props = [json.loads(l) for l in open(os.path.join(HERE, "properties.jsonl"))]
    checks = []
    for p in props:
        pid = p["id"]
        if pid not in CHECKS:
            continue
        c = CHECKS[pid]
        checks.append({
            "property_id": pid,
            "quick_cmd": "bin/check %s --tier quick" % pid,
            "thorough_cmd": "bin/check %s --tier thorough" % pid,
            "evidence_file": "evidence/%s.json" % pid,
            "replay_cmd_template": "bin/check %s --replay {path}" % pid,
            "engine": "fml-facts + engine",
            "level_claimed": {"category": c["category"], "text": c["text"], "design_ref": c["ref"]},
            "level_note": c["note"],
            "technique": c["technique"],
        })
    return {
        "version": 1,
        "setup_cmd": "bin/setup",
        "hooks": {
            "guard": "kondziu_fml_verif",
            "enable": "no hooks are needed: the checks analyse /repo's unmodified source through a rustc_private dumper run as RUSTC_WORKSPACE_WRAPPER under `cargo +nightly check`",
            "baseline_off_cmd": "cd /repo && cargo test --workspace --no-fail-fast --offline",
            "source_commits": [],
            "add_only": True,
        },
        "engines": [{
            "name": "fml-facts + engine",
            "path": "driver/ (rustc_private fact dumper), engine/ (Python rule engines), specs/ (reference tables)",
            "serves_properties": sorted(CHECKS),
            "kind_free_text": "static analysis: resolved-program fact extraction (HIR+typeck, MIR, ADTs, format_args templates) + repo-specific rules (census/call graph/dataflow, match tables, effect templates, grammar analysis)",
        }],
        "checks": checks,
        "notes": "All verdicts are computed from /repo's current source without executing FML code. `fix:` commits in /repo: see KNOWN_FINDINGS.txt.",
        "not_applicable": [{"property_id": p["id"], "reason": PENDING_REASON} for p in props if p["id"] not in CHECKS],
    }
