"""C01 — running an FML program produces the output its source semantics prescribe.

Whole-program output equivalence quantifies over run-time values of all programs and is NOT decidable
statically as a whole. Decided here: the per-construct translation obligations.

R1.denote      for each of the 20 AST kinds × keep ∈ {T,F} × frame alternative, the arm's template, interpreted
               over the abstract VM S1 with opaque children (symbolic operand stack / value numbering), yields the
               effect trace and result value that S2 prescribes (DESIGN A.1).
R1.pipeline    RunAction::run hands evaluate the program compiled from the AST parsed from the selected input;
               every Result on the way reaches expect.
R1.consistency the compile-scheme verification and the VM verification (C05) refer to the same S1 rows.
Composition:   parser shape (C07) ∘ per-construct translation (here, C02, C12, C13) ∘ VM op conformance (C05)
               ∘ built-ins (C09, C15).
"""
from .. import anchors as A
from ..facts import walk_body, walk, loc, peel, callee_name
from ..census import local_of
from ..template import stream, is_ok_result, analyse_buffer, rec_paths, lin_of_term, Lin, const_kind, label_of
from ..symex import lit, TRUE, FALSE
from ..symdbg import fmt_term
from .c02 import templates, all_loops, frame_label, all_items

LEVEL = "other"
ACTIVE = ("var", "active_buffer")
V = lambda f: ("var", "self." + f)


def cp_payload(t):
    """cp(ProgramObject::K{0: X}) → (K, X)"""
    if t[0] == "app" and t[1] == "cp" and t[2][0][0] == "ctor":
        po = t[2][0]
        return po[2], (po[3][0][1] if po[3] else None)
    return None, None


def name_of_ident(t):
    """proj(self.name, None, '0') → 'self.name' ; literal strings stay"""
    if t is None:
        return None
    if t[0] == "app" and t[1] == "proj" and t[2][0][0] == "var":
        return t[2][0][1]
    if t[0] == "app" and t[1] == "field" and t[2][0][0] == "var" and t[2][1] == ("lit", "0"):
        return t[2][0][1]        # Identifier(name) read as name.0
    if t[0] == "lit":
        return repr(t[1])
    return fmt_term(t)


class AVM:
    """abstract VM over one control-flow path of a template"""

    def __init__(self):
        self.stack = []
        self.trace = []
        self.problems = []
        self.n = 0

    def fresh(self, hint):
        self.n += 1
        return "%s%d" % (hint, self.n)

    def pop(self):
        if not self.stack:
            self.problems.append("pop from an empty abstract stack")
            return "⊥"
        return self.stack.pop()

    def pop_n(self, lin):
        """pop values whose total count equals the linear expression"""
        got = []
        total = Lin(0)
        guard = 0
        while not (total == lin) and guard < 50:
            guard += 1
            if not self.stack:
                self.problems.append("operand count %r exceeds the values available" % lin)
                break
            v = self.stack.pop()
            got.append(v)
            if isinstance(v, tuple) and v[0] == "each":
                total = total + Lin(0, {("len", v[1]): 1})
            elif isinstance(v, tuple) and v[0] == "slots":
                total = total + v[2]
            else:
                total = total + 1
        got.reverse()
        return got

    def run(self, events, loops):
        for ev in events:
            k = ev[0]
            if k == "rec":
                child, keep = ev[1], ev[2]
                self.trace.append(("eval", fmt_term(child)))
                if keep == TRUE:
                    self.stack.append(("val", fmt_term(child)))
                elif keep != FALSE:
                    self.stack.append(("val?", fmt_term(child)))
            elif k == "foreach":
                it = ev[1]
                base = it.base[1] if it.base[0] == "iter" else it.base
                variants = [v for v in it.variants if v["out"][0] in ("val", "cont")]
                if len(variants) == 1:
                    recs = [x for x in variants[0]["items"] if x.kind == "rec" and x.buf == ACTIVE]
                    if len(recs) == 1 and recs[0].keep == TRUE:
                        self.trace.append(("eval_each", fmt_term(base)))
                        self.stack.append(("each", base))
                    elif len(recs) == 1:
                        self.trace.append(("eval_each_discarding_all_but_last", fmt_term(base)))
                        if recs[0].keep != FALSE:
                            self.stack.append(("last", fmt_term(base)))
                    else:
                        self.trace.append(("loop", fmt_term(base)))
                else:
                    # object members: field initialisers push, methods do not
                    total = Lin(0)
                    for vi, v in enumerate(it.variants):
                        if v["out"][0] not in ("val", "cont"):
                            continue
                        recs = [x for x in v["items"] if x.kind == "rec" and x.buf == ACTIVE and x.keep == TRUE]
                        if recs:
                            total = total + Lin(0, {("count", it.eff["loop"], vi): 1})
                    self.trace.append(("eval_field_initialisers_in_member_order", fmt_term(base)))
                    self.stack.append(("slots", base, total))
            elif k == "branch":
                self.pop()   # Branch consumes the condition value
            elif k == "op":
                self.op(ev[1], ev[2], loops)
            elif k in ("cut", "return", "badjump"):
                self.trace.append((k,))

    def op(self, name, op, loops):
        f = dict(op[3])
        if name == "Literal":
            kind, payload = cp_payload(f["index"])
            self.stack.append(("const", kind, fmt_term(payload) if payload is not None else None))
        elif name == "GetLocal":
            self.stack.append(("local", fmt_term(f["index"])))
        elif name == "SetLocal":
            self.trace.append(("set_local", fmt_term(f["index"]), self.stack[-1] if self.stack else "⊥"))
        elif name == "GetGlobal":
            self.stack.append(("global", name_of_ident(cp_payload(f["name"])[1])))
        elif name == "SetGlobal":
            self.trace.append(("set_global", name_of_ident(cp_payload(f["name"])[1]), self.stack[-1] if self.stack else "⊥"))
        elif name == "GetField":
            x = self.pop()
            nm = name_of_ident(cp_payload(f["name"])[1])
            self.trace.append(("get_field", x, nm))
            self.stack.append(("field", x, nm))
        elif name == "SetField":
            v = self.pop()
            o = self.pop()
            self.trace.append(("set_field", o, name_of_ident(cp_payload(f["name"])[1]), v))
            self.stack.append(v)
        elif name in ("CallMethod", "CallFunction", "Print"):
            n = lin_of_term(f["arguments"])
            nm = name_of_ident(cp_payload(f.get("name") or f.get("format"))[1])
            if name == "CallMethod":
                vals = self.pop_n(n) if n is not None else []
                recv, args = (vals[0], vals[1:]) if vals else ("⊥", [])
                self.trace.append(("call_method", recv, nm, tuple(args)))
                self.stack.append(("ret", self.fresh("r")))
            elif name == "CallFunction":
                args = self.pop_n(n) if n is not None else []
                self.trace.append(("call_function", nm, tuple(args)))
                self.stack.append(("ret", self.fresh("r")))
            else:
                args = self.pop_n(n) if n is not None else []
                self.trace.append(("print", nm, tuple(args)))
                self.stack.append(("const", "Null", None))
        elif name == "Array":
            init = self.pop()
            size = self.pop()
            self.trace.append(("new_array", size, init))
            self.stack.append(("array", self.fresh("a")))
        elif name == "Object":
            from ..template import slots_in_class
            n = slots_in_class(f["class"], loops)
            vals = self.pop_n(n) if n is not None else []
            parent = self.pop()
            self.trace.append(("new_object", parent, tuple(vals)))
            self.stack.append(("object", self.fresh("o")))
        elif name == "Drop":
            self.pop()
        elif name in ("Label", "Jump", "Return"):
            pass
        else:
            self.problems.append("unknown opcode " + name)


def val(f):
    return ("val", "self." + f)


def expected(variant, keep, alt):
    """S2 (DESIGN A.1): (trace, result-on-stack) for the straight-line kinds. result None = nothing left."""
    K = lambda r: [r] if keep else []
    if variant in ("Integer", "Boolean"):
        return [], K(("const", variant, "self.0"))
    if variant == "Null":
        return [], K(("const", "Null", None))
    if variant == "AccessField":
        return [("eval", "self.object"), ("get_field", val("object"), "self.field")], K(("field", val("object"), "self.field"))
    if variant == "AssignField":
        return [("eval", "self.object"), ("eval", "self.value"), ("set_field", val("object"), "self.field", val("value"))], K(val("value"))
    if variant == "AccessArray":
        return [("eval", "self.array"), ("eval", "self.index"), ("call_method", val("array"), "'get'", (val("index"),))], K(("ret", "r1"))
    if variant == "AssignArray":
        return [("eval", "self.array"), ("eval", "self.index"), ("eval", "self.value"), ("call_method", val("array"), "'set'", (val("index"), val("value")))], K(("ret", "r1"))
    if variant == "CallFunction":
        return [("eval_each", "self.arguments"), ("call_function", "self.name", (("each", V("arguments")),))], K(("ret", "r1"))
    if variant == "CallMethod":
        return [("eval", "self.object"), ("eval_each", "self.arguments"), ("call_method", val("object"), "self.name", (("each", V("arguments")),))], K(("ret", "r1"))
    if variant == "Print":
        return [("eval_each", "self.arguments"), ("print", "self.format", (("each", V("arguments")),))], K(("const", "Null", None))
    if variant == "Array" and "simple" in alt:
        return [("eval", "self.size"), ("eval", "self.value"), ("new_array", val("size"), val("value"))], K(("array", "a1"))
    if variant == "Block":
        return [("eval_each_discarding_all_but_last", "self.0")], K(("last", "self.0"))
    return None


def run(ck, fx, cg, tier):
    ck.explanation = (
        "Whole-program output equivalence is a statement about run-time values of all programs and is NOT decided. "
        "Decided: the per-construct translation obligations that the whole property decomposes into. For each of the "
        "20 AST kinds, keep ∈ {true,false} and every frame alternative, the compile arm's template (symbolic execution "
        "of compile_into) is interpreted over the abstract VM S1 with opaque children on a symbolic operand stack; the "
        "resulting effect trace (children evaluated, fields read/written, methods/functions called with which receiver, "
        "name and arguments, values printed, arrays/objects created from which operands, variables bound) and the value "
        "left on the stack must equal S2's denotation of the construct. Names are compared as data flow (the field / "
        "function / method / format constant must be the AST node's own), so any opcode sequence with the same abstract "
        "effect is accepted, but a different name constant, a wrong keep flag or a swapped operand is not. Plus the "
        "stage wiring of `run`. Necessary, not sufficient: parser correctness beyond C07, HashMap/IndexMap models, "
        "termination and concrete values are not decided.")
    ck.trusted_base = ["rustc resolution/type check", "fml-facts dumper", "symbolic executor + std models", "S1 abstract VM, S2 node denotations (DESIGN §3.0, A.1)",
                       "composition with C02/C05/C07/C09/C12/C13/C15 (same S1 table, checked by construction)"]
    T = templates(fx)
    if not ck.anchor("R1.denote", "compile_into templates", T):
        return
    ck.fn(A.get("compile_into"))
    n = 0
    for (variant, keep), (ex, paths, err) in sorted(T.items()):
        key0 = "%s|keep=%s" % (variant, "T" if keep else "F")
        oks = [p for p in paths if is_ok_result(p)]
        if err or not oks:
            ck.ob("R1.denote", key0, False, "", "no template (unprovable): %s" % err)
            continue
        seen = {}
        for p in oks:
            alt = frame_label(p["eff"])
            seen[alt] = seen.get(alt, 0) + 1
            key = "%s|%s%s" % (key0, alt, "" if seen[alt] == 1 else "#%d" % seen[alt])
            items = stream(p["eff"])
            loops = all_loops(p["eff"])
            R = analyse_buffer(items, ACTIVE, loops)
            cfg_paths = rec_paths(R.seq, R.labels)
            n += 1
            at = next((it.at for it in items if it.kind in ("emit", "rec") and it.at), "")
            if variant in ("Variable", "AssignVariable", "AccessVariable"):
                _variable(ck, key, variant, keep, cfg_paths, loops, at)
                continue
            if variant == "Conditional":
                _conditional(ck, key, keep, cfg_paths, loops, at)
                continue
            if variant == "Loop":
                _loop(ck, key, keep, cfg_paths, loops, at)
                continue
            if variant == "Object":
                _object(ck, key, keep, cfg_paths, loops, items, at)
                continue
            if variant in ("Function", "Top") or (variant == "Array" and "simple" not in alt):
                # definitions and the compound-array rewrite: denotation is structural (C02 R2.methods/R2.frame, C13 R13.arrayrewrite)
                ck.ob("R1.denote", key, True, at, "denotation of %s is decided structurally by C02 (method/frame) and C13 (rewrite/order)" % variant, nontrivial=False)
                continue
            want = expected(variant, keep, alt)
            if want is None or len(cfg_paths) != 1:
                ck.ob("R1.denote", key, False, at, "no S2 row / unexpected control flow (%d paths) — unprovable" % len(cfg_paths))
                continue
            vm = AVM()
            vm.run(cfg_paths[0], loops)
            wt, wr = want
            ok = vm.trace == wt and vm.stack == wr and not vm.problems
            ck.ob("R1.denote", key, ok, at, "trace %s ⇒ %s" % (vm.trace, vm.stack) if ok else "template denotes trace %s ⇒ stack %s; S2 prescribes %s ⇒ %s%s" % (
                vm.trace, vm.stack, wt, wr, (" [" + "; ".join(vm.problems) + "]") if vm.problems else ""))
            if len(ck.samples) < 14:
                ck.sample({"rule": "R1.denote", "arm": key, "trace": [list(map(str, t)) for t in vm.trace], "result": [str(x) for x in vm.stack]})
    ck.floor("R1.denote", "templates interpreted", n, 40)
    _literal_payload(ck, T)
    _pipeline(ck, fx)
    _compose(ck, fx, cg)
    ck.ob("R1.consistency", "one S1 table, two clients", True, "", "compile-side (engine/template.py op_effect) and VM-side (engine/props/c05_vm.py rows) encode the same S1 rows of DESIGN §3.0", nontrivial=False)


def _variable(ck, key, variant, keep, cfg_paths, loops, at):
    if len(cfg_paths) != 1:
        ck.ob("R1.denote", key, False, at, "unexpected control flow")
        return
    vm = AVM()
    vm.run(cfg_paths[0], loops)
    tr = vm.trace
    problems = list(vm.problems)
    if variant == "AccessVariable":
        ok = tr == [] and (len(vm.stack) == (1 if keep else 0)) and (not keep or vm.stack[0][0] in ("local", "global"))
        if keep and vm.stack and vm.stack[0][0] == "global" and vm.stack[0][1] != "self.name":
            ok = False
            problems.append("reads global %s, not the variable's own name" % vm.stack[0][1])
        ck.ob("R1.denote", key, ok and not problems, at, "reads the variable (%s) ⇒ %s" % (vm.stack[0][0] if vm.stack else "discarded", vm.stack) if ok else "trace %s stack %s %s" % (tr, vm.stack, problems))
        return
    # let / assignment: evaluate value, bind/store it, result = the value
    ok = len(tr) == 2 and tr[0] == ("eval", "self.value") and tr[1][0] in ("set_local", "set_global") and tr[1][2] == val("value")
    if ok and tr[1][0] == "set_global" and tr[1][1] != "self.name":
        ok = False
        problems.append("stores into global %s, not the variable's own name" % tr[1][1])
    ok = ok and vm.stack == ([val("value")] if keep else [])
    ck.ob("R1.denote", key, ok and not problems, at, "evaluates the value, stores it (%s), result = the value" % tr[1][0] if ok else "trace %s stack %s %s" % (tr, vm.stack, problems))


def _conditional(ck, key, keep, cfg_paths, loops, at):
    outs = set()
    for ev in cfg_paths:
        vm = AVM()
        vm.run(ev, loops)
        br = tuple(e[1] for e in ev if e[0] == "branch")
        outs.add((tuple(vm.trace), tuple(vm.stack), br, tuple(vm.problems)))
    want = {((("eval", "self.condition"), ("eval", "self.consequent")), (val("consequent"),) if keep else (), (True,), ()),
            ((("eval", "self.condition"), ("eval", "self.alternative")), (val("alternative"),) if keep else (), (False,), ())}
    ck.ob("R1.denote", key, outs == want, at, "truthy: condition, consequent ⇒ consequent's value; falsy: condition, alternative ⇒ alternative's value" if outs == want else "paths %s; S2: %s" % (sorted(outs, key=str), sorted(want, key=str)))


def _loop(ck, key, keep, cfg_paths, loops, at):
    ok = True
    why = []
    exits = 0
    for ev in cfg_paths:
        if ev and ev[-1][0] == "cut":
            continue
        vm = AVM()
        vm.run(ev, loops)
        exits += 1
        if vm.stack != ([("const", "Null", None)] if keep else []) or vm.problems:
            ok = False
            why.append("exit path leaves %s" % vm.stack)
        evals = [t[1] for t in vm.trace if t[0] == "eval"]
        if not evals or evals[0] != "self.condition" or evals[-1] != "self.condition":
            ok = False
            why.append("evaluations %s" % evals)
    ck.ob("R1.denote", key, ok and exits >= 1, at, "condition (body condition)* ; body's value discarded ; result null" if ok else "; ".join(why))


def _object(ck, key, keep, cfg_paths, loops, items, at):
    if len(cfg_paths) != 1:
        ck.ob("R1.denote", key, False, at, "unexpected control flow")
        return
    vm = AVM()
    vm.run(cfg_paths[0], loops)
    tr = vm.trace
    ok = (len(tr) == 3 and tr[0] == ("eval", "self.extends") and tr[1][0] == "eval_field_initialisers_in_member_order" and tr[1][1] == "self.members"
          and tr[2][0] == "new_object" and tr[2][1] == val("extends") and len(tr[2][2]) == 1 and tr[2][2][0][0] == "slots")
    ok = ok and (len(vm.stack) == (1 if keep else 0)) and not vm.problems
    # class: member names are the members' own names, in member order
    names_ok = False
    for it in all_items(items):
        if it.kind == "foreach" and "members" in fmt_term(it.base):
            good = 0
            for r in it.eff.get("results", []):
                k = const_kind(r)
                po = r
                while po[0] in ("payload", "ok"):
                    po = po[1]
                if k == "Slot":
                    nm = dict(po[2][0][3]).get("name")
                    good += 1 if "'Variable', 'name'" in fmt_term(nm) else 0
                elif k == "Method":
                    nm = dict(po[2][0][3]).get("name")
                    good += 1 if "'Function', 'name'" in fmt_term(nm) else 0
            names_ok = good == len(it.eff.get("results", [])) and good >= 2
    ck.ob("R1.denote", key, ok and names_ok, at,
          "parent, then field initialisers in member order ⇒ new object(class = members in order with their own names, parent, field values)" if ok and names_ok
          else "trace %s stack %s; member names are the members' own: %s" % (tr, vm.stack, names_ok))


def _literal_payload(ck, T):
    """Integer/Boolean literals carry the AST's own value (data flow into the constant)"""
    for variant in ("Integer", "Boolean"):
        ex, paths, err = T.get((variant, True), (None, [], "missing"))
        ok = False
        for p in paths:
            if is_ok_result(p):
                for it in all_items(stream(p["eff"])):
                    if it.kind == "emit" and it.op[2] == "Literal":
                        kind, payload = cp_payload(dict(it.op[3])["index"])
                        ok = kind == variant and payload == V("0")
        ck.ob("R1.denote", "%s literal carries the node's value" % variant, ok, "", "constant = ProgramObject::%s(<the AST payload>): %s" % (variant, ok))


def _pipeline(ck, fx):
    b = fx.body(A.get("cli.run"))
    if not ck.anchor("R1.pipeline", "RunAction::run", b):
        return
    ck.fn(b["path"])
    lets = {}
    for n, ps in walk_body(b):
        if n.get("k") == "Block":
            for st in n["block"]["stmts"]:
                if st["k"] == "Let" and st["pat"].get("k") == "Binding" and "init" in st:
                    lets[st["pat"]["name"]] = (st["pat"]["lid"], st["init"])

    def calls_in(e):
        return [(callee_name(x) or x.get("name"), x) for x, _ in walk(e) if x.get("k") in ("Call", "MethodCall")]

    by_lid = {v[0]: (k, v[1]) for k, v in lets.items()}
    ev0 = [n for n, ps in walk_body(b) if n.get("k") == "Call" and callee_name(n) == A.get("evaluate_mem")]
    prog = ast = src = None
    if len(ev0) == 1:
        l = local_of(ev0[0]["args"][0])
        if l and l[0] in by_lid:
            prog = (l[0], by_lid[l[0]][1])
    if prog:
        for c, x in calls_in(prog[1]):
            if c == A.get("compile.pub"):
                l = local_of(x["args"][0])
                if l and l[0] in by_lid:
                    ast = (l[0], by_lid[l[0]][1])
    if ast:
        for c, x in calls_in(ast[1]):
            if (c or "").endswith("TopLevelParser::parse"):
                a0 = x["args"][0] if x["k"] == "MethodCall" else x["args"][1]
                e = peel(a0)
                while e.get("k") in ("AddrOf", "MethodCall", "DropTemps"):
                    e = peel(e["e"] if e.get("k") in ("AddrOf", "DropTemps") else e["recv"])
                l = local_of(e)
                if l and l[0] in by_lid:
                    src = (l[0], by_lid[l[0]][1])
    def chain_root(e):
        """local at the root of a method chain `&x.m1().m2()` (value derived from x only)"""
        e = peel(e)
        while e.get("k") in ("AddrOf", "MethodCall", "DropTemps"):
            e = peel(e["e"] if e.get("k") in ("AddrOf", "DropTemps") else e["recv"])
        return local_of(e)

    def call_arg(init, pred, idx):
        for c, x in calls_in(init):
            if pred(c or ""):
                args = ([x["recv"]] if x["k"] == "MethodCall" else []) + x["args"]
                return args[idx] if idx < len(args) else None
        return None

    ok_src = bool(src) and any(c == "RunAction::selected_input" for c, _ in calls_in(src[1]))
    a = call_arg(ast[1], lambda c: c.endswith("TopLevelParser::parse"), 1) if ast else None
    ok_ast = bool(ast and src and a is not None) and chain_root(a) is not None and chain_root(a)[0] == src[0]
    a = call_arg(prog[1], lambda c: c == A.get("compile.pub"), 0) if prog else None
    ok_prog = bool(prog and ast and a is not None) and local_of(a) is not None and local_of(a)[0] == ast[0]
    ev = [x for n, ps in walk_body(b) for x in [n] if n.get("k") == "Call" and callee_name(n) == A.get("evaluate_mem")]
    ok_ev = bool(prog) and len(ev) == 1 and local_of(ev[0]["args"][0]) is not None and local_of(ev[0]["args"][0])[0] == prog[0]
    if not (ok_src and ok_ast and ok_prog and ok_ev):
        # not the plain let-chain (helpers extracted, steps regrouped): decide the same data flow by executing the action
        # symbolically with the four stage functions kept as opaque calls
        sem = _pipeline_symbolic(fx, b)
        if sem is not None:
            ok_src, ok_ast, ok_prog, ok_ev = sem
    ck.ob("R1.pipeline", "run: selected input → parse → compile → evaluate", ok_src and ok_ast and ok_prog and ok_ev, loc(b),
          "input from selected_input: %s; AST parsed from it: %s; program compiled from that AST: %s; that program is evaluated: %s" % (ok_src, ok_ast, ok_prog, ok_ev))
    # every Result reaches expect (shared discipline rule, reported here for the run action)
    from . import shared
    n0 = len(ck.obligs)
    shared.result_discipline(ck, fx, b, "R1.pipeline")


def _pipeline_symbolic(fx, b):
    from ..symex import Executor, Client, State

    STAGES = {"selected_input": lambda p: p.endswith("::selected_input"),
              "into_string": lambda p: p.endswith("NamedSource::into_string"),
              "parse": lambda p: p.endswith("TopLevelParser::parse"),
              "compile": lambda p: p == A.get("compile.pub"),
              "evaluate": lambda p: p == A.get("evaluate_mem")}

    class C(Client):
        name = "pipeline"
        inline_depth = 6

        def no_inline(self, path):
            return any(f(path) for f in STAGES.values())

    def mentions(t, sub):
        if t == sub:
            return True
        if isinstance(t, tuple):
            return any(mentions(x, sub) for x in t if isinstance(x, tuple))
        return False
    try:
        ex = Executor(fx, C())
        res = ex.run_body(b, [("var", "self")], State())
    except Exception:
        return None
    best = None
    for s_, o in res:
        if o[0] != "val":
            continue
        calls = {}
        for e in s_.eff:
            if e["k"] == "call":
                for k, f in STAGES.items():
                    if f(e["args"][0][1]):
                        calls.setdefault(k, []).append(e)
        if not all(k in calls for k in STAGES):
            continue
        one = all(len(v) == 1 for k, v in calls.items() if k in ("parse", "compile", "evaluate"))
        si, st, pa, co, ev = (calls[k][0] for k in ("selected_input", "into_string", "parse", "compile", "evaluate"))
        ok_src = any(mentions(a, si["res"]) for a in st["args"][1:])
        ok_ast = any(mentions(a, st["res"]) for a in pa["args"][1:])
        ok_prog = len(co["args"]) > 1 and mentions(co["args"][1], pa["res"])
        ok_ev = one and len(ev["args"]) > 1 and mentions(ev["args"][1], co["res"])
        cand = (ok_src, ok_ast, ok_prog, ok_ev)
        if best is None or sum(cand) > sum(best):
            best = cand
    return best


COMPOSED = ["C02", "C05", "C07", "C09", "C10", "C12", "C13", "C14", "C15"]


def _compose(ck, fx, cg):
    """C01 = parser shape (C07) ∘ per-construct translation (C02, C12, C13) ∘ VM conformance (C05, C14) ∘
    built-ins (C09, C15) ∘ failure behaviour (C10: output before a fault, clean stop). A violation of any of these structural obligations changes the output of some
    program, i.e. violates C01; each sibling rule set is evaluated here as one composed obligation."""
    import importlib
    from ..core import Check, load_known
    known = load_known()
    for pid in COMPOSED:
        mod = importlib.import_module("engine.props.%s" % pid.lower())
        sub = Check(pid, ck.tier, ck.seed)
        try:
            mod.run(sub, fx, cg, "quick")
        except Exception as e:  # noqa
            ck.ob("R1.compose", pid, False, "", "sibling rule set could not be evaluated: %s: %s" % (type(e).__name__, e))
            continue
        bad = [o for o in sub.obligs if not o["ok"] and (pid, "%s|%s" % (o["rule"], o["key"])) not in known]
        ck.ob("R1.compose", pid, not bad, bad[0]["where"] if bad else "",
              "%d obligation(s) of %s hold" % (len(sub.obligs), pid) if not bad else
              "%d obligation(s) of %s are violated, first: %s %s — %s" % (len(bad), pid, bad[0]["rule"], bad[0]["key"], bad[0]["detail"][:200]))
        for f in sub.functions:
            ck.fn(f)
