"""C02 — every compiled program is well-formed, operand-stack-balanced bytecode.

The compiler is a finite set of syntax-directed templates; each arm of compile_into is executed
symbolically (engine/symex.py, client compile_scheme) for keep ∈ {true,false} and every frame
alternative, and the resulting instruction template is interpreted over the abstract VM S1.

R2.depth    net effect [keep] per construct, never below entry depth, equal depth on all edges into a
            label, exactly 1 at Return, method buffers start at 0.
R2.cpkind   every constant operand is registered with the kind S1 demands.
R2.labels   labels come from a group created in the same arm invocation, emitted once, jumps stay in the
            same buffer; the group counter strictly increases and there is one generator per program.
R2.methods  buffer linearity: new → emits → extended exactly once into the program → its (start,len)
            in exactly one registered Method.
R2.frame    locals + parameters of a Method equal the environment's local count read after the body.
"""
from .. import anchors as A
from ..facts import walk_body, loc, peel
from ..census import field_uses
from ..compile_scheme import run_variant, variant_fields
from ..template import (stream, buffers_of, analyse_buffer, is_ok_result, Lin, lin_of_term, const_kind, op_name,
                        label_of, Item)
from ..symex import lit, TRUE, FALSE, Unsupported
from ..symdbg import fmt_term
from . import shared

LEVEL = "other"

AST = "parser::AST"
LITERAL_KINDS = {"Integer", "Boolean", "Null"}
OPERAND_KINDS = {
    "Literal": {"index": LITERAL_KINDS},
    "GetGlobal": {"name": {"String"}}, "SetGlobal": {"name": {"String"}},
    "GetField": {"name": {"String"}}, "SetField": {"name": {"String"}},
    "CallMethod": {"name": {"String"}}, "CallFunction": {"name": {"String"}},
    "Label": {"name": {"String"}}, "Jump": {"label": {"String"}}, "Branch": {"label": {"String"}},
    "Print": {"format": {"String"}}, "Object": {"class": {"Class"}},
}
# arms that define something instead of producing a value (S2): net 0 for either keep
DEFINITION_ARMS = {"Function", "Top"}

_cache = {}


def templates(fx):
    """{(variant, keep): (executor, paths)} — shared by C01/C02/C12/C13."""
    key = id(fx)
    if key in _cache:
        return _cache[key]
    out = {}
    adt = fx.adts.get(AST)
    body = fx.body(A.get("compile_into"))
    if adt is None or body is None:
        _cache[key] = None
        return None
    for v in adt["variants"]:
        for keep in (True, False):
            try:
                ex, paths = run_variant(fx, v["name"], keep, body)
                if v["name"] in ("Block", "Top"):
                    # side condition discharged on the grammar (R7.shape): blocks / the top level are never empty
                    paths = [p for p in paths if not _assumes_empty_children(p["eff"])]
                from ..template import normalise_split_loops
                paths = [dict(p, eff=normalise_split_loops(p["eff"])) for p in paths]
                # a path that hands back the Result of a call as it is (`return child.compile_into(..)`) succeeds when that
                # call succeeds and fails when it fails: both outcomes are paths of the arm like any other
                settled = []
                for p in paths:
                    o = p["out"]
                    if o[0] == "val" and isinstance(o[1], tuple) and o[1][:1] == ("fall",) and o[1][2] == "result":
                        at = (p["eff"][-1].get("at") if p["eff"] else "") or ""
                        settled.append(dict(p, eff=list(p["eff"]) + [{"k": "assume_ok", "args": (o[1],), "res": None, "at": at}], out=("val", ("ok", ("payload", o[1])))))
                        settled.append(dict(p, eff=list(p["eff"]) + [{"k": "assume_fail", "args": (o[1],), "res": None, "at": at}], out=("val", ("err", ("errof", o[1])))))
                    else:
                        settled.append(p)
                paths = settled
                if hasattr(ex, "loops"):
                    from .c02 import all_loops as _al
                    for p in paths:
                        for lid, le in _al(p["eff"]).items():
                            if le.get("merged_split"):
                                ex.loops[lid] = le
                out[(v["name"], keep)] = (ex, paths, None)
            except (Unsupported, KeyError, IndexError, TypeError, AssertionError, RecursionError) as e:
                out[(v["name"], keep)] = (None, [], "%s: %s" % (type(e).__name__, e))
    _cache[key] = out
    return out


def _assumes_empty_children(effs):
    for e in effs:
        if e["k"] == "assume":
            c, val = e["args"]
            neg = False
            while c[0] == "app" and c[1] == "not":
                c, neg = c[2][0], not neg
            if c[0] == "app" and c[1] == "is_empty" and c[2][0] == ("var", "self.0") and ((val == TRUE) != neg):
                return True
            if c[0] == "app" and c[1] in ("eq", "le") and c[2] == (("app", "len", (("var", "self.0"),)), lit(0)) and ((val == TRUE) != neg):
                return True
    return False


def loops_of(ex):
    return getattr(ex, "loops", {})


def all_loops(effs, acc=None):
    acc = {} if acc is None else acc
    for e in effs:
        if e["k"] == "foreach":
            acc[e.get("loop")] = e
            for p in e.get("paths", []):
                all_loops(p["eff"], acc)
    return acc


def frame_label(effs):
    """Which frame alternative a path assumes (from its assume effects)."""
    tags = []
    for e in effs:
        if e["k"] == "assume":
            c, val = e["args"]
            s = fmt_term(c)
            if "is_variant(current_frame" in s:
                tags.append(("frame=" + ("Local" if "'Local'" in s else "Top")) if val == TRUE else "frame≠" + ("Local" if "'Local'" in s else "Top"))
            elif "env_outermost" in s or "env_visible" in s:
                tags.append(("" if val == TRUE else "¬") + s[:40])
            elif "is_variant(self.value" in s:
                tags.append("value:" + ("simple" if val == TRUE else "compound"))
    return ",".join(tags) or "-"


def run(ck, fx, cg, tier):
    ck.explanation = (
        "The compiler can only emit what its 20 syntax-directed templates emit. Each arm of compile_into (and the "
        "method-definition helper it inlines) is executed symbolically over type-checked HIR for keep ∈ {true,false} "
        "and every frame alternative; the emitted instruction template — with recursive compiles as placeholders that "
        "net [keep] by induction and list children as symbolic counts — is then interpreted over the abstract VM S1: "
        "stack-depth dataflow over the template's own control flow (labels/jumps), operand counts vs. values pushed, "
        "constant kinds, label provenance, buffer linearity and frame sizes. Intended to be sound for the whole "
        "statement relative to S1 and the std models; side conditions on parser-produced trees (non-empty blocks, "
        "Function only as Top child/object member, root is Top) are discharged on the grammar (C07/E4) and listed.")
    ck.trusted_base = ["rustc resolution/type check", "fml-facts dumper", "symbolic executor + std models (engine/symex.py, stdmodels.py)",
                       "abstract VM S1 (DESIGN §3.0)", "induction hypothesis: a child compiled with keep nets [keep]"]
    T = templates(fx)
    if not ck.anchor("R2", "compile_into / parser::AST", T):
        return
    ck.fn(A.get("compile_into"))
    n_arms = 0
    n_pairs = 0
    side_conditions = set()
    for (variant, keep), (ex, paths, err) in sorted(T.items()):
        key0 = "%s|keep=%s" % (variant, "T" if keep else "F")
        if err:
            ck.ob("R2.depth", key0, False, "", "template extraction failed (unprovable): %s" % err)
            continue
        ok_paths = [p for p in paths if is_ok_result(p)]
        if not ok_paths:
            ck.ob("R2.depth", key0, False, "", "no successful path through the arm (unprovable)")
            continue
        n_pairs += 1
        if keep:
            n_arms += 1
        seen_alt = {}
        for p in ok_paths:
            alt = frame_label(p["eff"])
            seen_alt[alt] = seen_alt.get(alt, 0) + 1
            key = "%s|%s%s" % (key0, alt, "" if seen_alt[alt] == 1 else "#%d" % seen_alt[alt])
            items = stream(p["eff"])
            loops = all_loops(p["eff"])
            _check_path(ck, fx, variant, keep, key, items, loops, p, side_conditions)
    ck.floor("R2.depth", "AST variants with a template", n_arms, 20)
    ck.floor("R2.depth", "(variant, keep) pairs analysed", n_pairs, 40)
    ck.extra["side_conditions_on_parser_output"] = sorted(side_conditions)
    ck.assumptions = sorted(side_conditions) + [
        "Function/Top net 0 for either keep (definitions): harmless because FunctionDefinition occurs only as a Top child or object member (grammar)",
    ]
    # the side conditions on the parser's output that the depth argument rests on (a definition nets 0 operands and may
    # therefore only stand where no value is expected; block / top-level lists are non-empty) are grammar facts: C07's
    # R7.shape obligations, evaluated here as one presupposition
    from . import shared as _shp
    _shp.presuppose(ck, fx, cg, "C07", lambda o: o["rule"] == "R7.shape", "R2.depth",
                    "parser output satisfies the side conditions (definitions only at top level / as members; non-empty lists)", floor=4)
    _labels_counter(ck, fx)
    _who_appends(ck, fx)
    _root_buffer(ck, fx)


def _check_path(ck, fx, variant, keep, key, items, loops, p, side_conditions):
    active = ("var", "active_buffer")
    bufs = all_buffers(items)
    problems = []
    # ---- the construct's own contribution to the enclosing buffer
    R = analyse_buffer(items, active, loops)
    for a in R.assumptions:
        if a.startswith("non-empty"):
            side_conditions.add("%s: child list %s is non-empty" % (variant, a.split(":", 1)[1]))
    expect = Lin(0) if variant in DEFINITION_ARMS else Lin(1 if keep else 0)
    final = R.final if R.final is not None else Lin(0)
    if R.returns:
        problems.append(("Return emitted into the enclosing buffer", R.returns[0][1]))
    if not (final == expect):
        problems.append(("net operand-stack effect is %r, expected %r (keep_result=%s)%s" % (
            final, expect, str(keep).lower(),
            " — the discarded value is never dropped" if final == Lin(1) and expect == Lin(0) else ""), _last_at(R)))
    problems += R.problems
    ck.ob("R2.depth", key, not problems, problems[0][1] if problems else _first_at(items),
          "; ".join(x[0] for x in problems) if problems else "net %r, %d instruction slot(s), joins consistent" % (final, len(R.seq)))
    if len(ck.samples) < 14:
        ck.sample({"rule": "R2.depth", "arm": key, "template": [t[2] + "  @depth " + t[1] for t in R.trace][:16], "net": repr(final)})
    # ---- method buffers created by this construct
    for buf, scope in bufs:
        if buf == active:
            continue
        RB = analyse_buffer(scope, buf, loops)
        probs = list(RB.problems)
        is_top = variant == "Top"
        if is_top:
            fin = RB.final
            if RB.returns:
                probs.append(("entry method contains Return", RB.returns[0][1]))
            if fin is None or not (fin == Lin(1)):
                probs.append(("entry method ends at depth %r, expected 1" % fin, ""))
            for a in RB.assumptions:
                if a.startswith("non-empty"):
                    side_conditions.add("Top: child list %s is non-empty" % a.split(":", 1)[1])
        else:
            if len(RB.returns) != 1 or RB.final is not None:
                probs.append(("method body must end in exactly one Return (found %d, falls through: %s)" % (len(RB.returns), RB.final is not None), ""))
            for d, at in RB.returns:
                if not (d == Lin(1)):
                    probs.append(("operand-stack depth at Return is %r, expected exactly 1" % d, at))
        ck.ob("R2.depth", key + "|method buffer %s" % buf[2], not probs, probs[0][1] if probs else "",
              "; ".join(x[0] for x in probs) if probs else "method body starts at 0 and returns at depth 1")
        _check_method_buffer(ck, key, buf, scope, p)
    # ---- constant kinds of every operand
    for it in all_items(items):
        if it.kind == "emit" and it.op[0] == "ctor":
            want = OPERAND_KINDS.get(it.op[2], {})
            for fname, kinds in want.items():
                t = dict(it.op[3]).get(fname)
                k = const_kind(t) if t is not None else None
                ck.ob("R2.cpkind", "%s|%s.%s" % (key, it.op[2], fname), k in kinds, it.at,
                      "operand %s of %s is a %s constant, S1 requires %s" % (fname, it.op[2], k, "/".join(sorted(kinds))), nontrivial=k not in kinds or len(ck.obligs) < 400)
        if it.kind == "register":
            po = it.eff["args"][1]
            if po[0] == "ctor" and po[2] in ("Slot", "Method"):
                nm = dict(po[3]).get("name")
                k = const_kind(nm)
                ck.ob("R2.cpkind", "%s|%s.name" % (key, po[2]), k == "String", it.at, "%s.name refers to a %s constant" % (po[2], k))
            if po[0] == "ctor" and po[2] == "Class":
                x = po[3][0][1]
                while x[0] == "payload":
                    x = x[1]
                if x[0] == "app" and x[1] == "collected":
                    lp = loops.get(x[2][0][1])
                    kinds = sorted({str(const_kind(r)) for r in (lp or {}).get("results", [])})
                    ck.ob("R2.cpkind", "%s|Class members" % key, bool(lp) and set(kinds) <= {"Slot", "Method"}, it.at,
                          "class members are %s constants" % "/".join(kinds))
        if it.kind == "global":
            k = const_kind(it.eff["args"][1])
            ck.ob("R2.cpkind", "%s|global" % key, k in ("Slot", "Method"), it.at, "global registered from a %s constant" % k)
        if it.kind == "entry":
            k = const_kind(it.eff["args"][1])
            ck.ob("R2.cpkind", "%s|entry" % key, k == "Method", it.at, "entry set to a %s constant" % k)
    # ---- local indices come from the environment of the frame being compiled (index < frame size needs
    #      R2.frame's count AND that the slot number was issued by that same environment)
    frame_kind = "Local" if "frame=Local" in key else ("Top" if ("frame=Top" in key or "frame≠Local" in key) else None)
    own_env = ("app", "proj", (("var", "current_frame"), lit("Local"), lit("0"))) if frame_kind == "Local" else ("var", "global_environment")
    if frame_kind and variant not in ("Function", "Object", "Top"):
        env_ops = {}
        for it in all_items(items):
            if it.kind in ("env_lookup_or_bind", "env_bind_fresh", "env_other") and it.eff.get("res") is not None:
                env_ops[it.eff["res"]] = it.eff["args"][0]
        for it in all_items(items):
            if it.kind == "emit" and it.op[0] == "ctor" and it.op[2] in ("GetLocal", "SetLocal") and it.buf == active:
                idx = dict(it.op[3]).get("index")
                src = [env for res, env in env_ops.items() if _mentions(idx, res)]
                ok = len(src) == 1 and src[0] == own_env
                ck.ob("R2.frame", "%s|%s index issued by the frame's own environment" % (key, it.op[2]), ok, it.at,
                      "slot number comes from %s; the frame being compiled is described by %s%s" % (
                          [fmt_term(e) for e in src] or "no environment operation", fmt_term(own_env),
                          "" if ok else " — the index can exceed (or alias a slot of) the method's frame"))
    # ---- labels: provenance from a group created on this path
    lab_items = [it for it in all_items(items) if it.kind == "emit" and it.op[0] == "ctor" and it.op[2] in ("Label", "Jump", "Branch")]
    if lab_items:
        incs = [it for it in all_items(items) if it.kind == "set_field" and it.eff["args"][1] == lit("groups")]
        groups = set()
        for it in lab_items:
            l = label_of(it.op)
            g = _group_of(l)
            groups.add(g)
        fresh = True
        why = ""
        for g in groups:
            if g is None:
                fresh, why = False, "label name is not of the form <prefix>:<group counter>"
                break
            adv = [i for i in incs if i.eff["args"][2] == ("app", "add", (g, lit(1))) or (
                i.eff["args"][2][0] == "app" and i.eff["args"][2][1] == "add" and g in i.eff["args"][2][2] and _pos_lit(i.eff["args"][2][2]))]
            if not adv:
                fresh, why = False, "the group counter %s is not advanced on this path: the next construct reuses the same label names" % fmt_term(g)
        ck.ob("R2.labels", key, fresh and len(groups) == 1, lab_items[0].at,
              why or "labels %s belong to one group created in this invocation; counter advanced" % sorted({_prefix_of(label_of(i.op)) for i in lab_items}))


def _mentions(t, sub):
    if t == sub:
        return True
    if isinstance(t, tuple):
        return any(_mentions(x, sub) for x in t if isinstance(x, tuple))
    return False


def _pos_lit(args):
    return any(a[0] == "lit" and isinstance(a[1], int) and a[1] > 0 for a in args)


def _group_of(l):
    """cp(String{fmt('{0}:{1}'; prefix, G)}) → G"""
    try:
        po = l[2][0]
        f = po[3][0][1]
        if f[0] == "fmt":
            # the component that carries the group counter (wherever it stands in the name)
            gs = [a for a in f[2] if _mentions_groups(a)]
            if len(gs) == 1:
                return gs[0]
            if len(f[2]) == 2 and not gs:
                return f[2][1]
    except Exception:
        pass
    return None


def _mentions_groups(t):
    if isinstance(t, tuple):
        if t and t[0] == "app" and t[1] == "field" and len(t[2]) == 2 and t[2][1] == lit("groups"):
            return True
        return any(_mentions_groups(x) for x in t if isinstance(x, tuple))
    return False


def _prefix_of(l):
    try:
        return fmt_term(l[2][0][3][0][1][2][0])
    except Exception:
        return "?"


def all_items(items):
    for it in items:
        yield it
        if it.kind == "foreach":
            for v in it.variants:
                yield from all_items(v["items"])


def all_buffers(items):
    """[(buffer, item-scope)] — the smallest item list (top level or a loop-body variant) that
    contains every reference (emit / rec / extend) to the buffer."""
    refs = {}   # buffer -> list of scope paths (tuples of scope ids)
    scopes = {}

    def direct(scope):
        out = []
        for it in scope:
            if it.kind in ("emit", "rec"):
                out.append(it.buf)
            elif it.kind == "extend":
                out.append(it.eff["args"][1])
        return out

    def rec(scope, path):
        scopes[path] = scope
        for b in direct(scope):
            refs.setdefault(b, []).append(path)
        for i, it in enumerate(scope):
            if it.kind == "foreach":
                for j, v in enumerate(it.variants):
                    rec(v["items"], path + ((i, j),))
    rec(items, ())
    out = []
    for b, paths in refs.items():
        common = paths[0]
        for q in paths[1:]:
            k = 0
            while k < len(common) and k < len(q) and common[k] == q[k]:
                k += 1
            common = common[:k]
        out.append((b, scopes[common]))
    return out


def _first_at(items):
    for it in items:
        if it.at:
            return it.at
    return ""


def _last_at(R):
    for it in reversed(getattr(R, "seq", [])):
        if it.at:
            return it.at
    return ""


def _check_method_buffer(ck, key, buf, scope, p):
    """R2.methods + R2.frame for a fresh buffer."""
    idx = {}
    def number(items, top):
        for i, it in enumerate(items):
            t = i if top is None else top
            idx[id(it)] = t
            if it.kind == "foreach":
                for v in it.variants:
                    number(v["items"], t)
    number(scope, None)
    emits = [it for it in all_items(scope) if it.kind in ("emit", "rec") and it.buf == buf]
    extends = [it for it in scope if it.kind == "extend" and it.eff["args"][1] == buf]
    ok = len(extends) == 1 and all(idx[id(e)] < idx[id(extends[0])] for e in emits)
    dst_ok = bool(extends) and fmt_term(extends[0].eff["args"][0]).endswith("'completed_code')")
    ck.ob("R2.methods", key + "|buffer %s appended once" % buf[2], ok and dst_ok, extends[0].at if extends else "",
          "%d extend(s) of the buffer into %s; all emits precede it: %s" % (
              len(extends), fmt_term(extends[0].eff["args"][0]) if extends else "?", ok))
    # the Method constant that owns it
    methods = []
    for it in scope:
        if it.kind == "register":
            po = it.eff["args"][1]
            if po[0] == "ctor" and po[2] == "Method":
                code = dict(po[3]).get("code")
                if code and code[0] == "ctor" and ("app", "start_of", (buf,)) in [v for _, v in code[3]] and ("app", "length_of", (buf,)) in [v for _, v in code[3]]:
                    methods.append((it, po))
    ck.ob("R2.methods", key + "|buffer %s owned by one Method" % buf[2], len(methods) == 1, methods[0][0].at if methods else "",
          "%d Method constant(s) carry this buffer's (start, length)" % len(methods))
    if len(methods) != 1:
        return
    it, po = methods[0]
    f = dict(po[3])
    locals_l = lin_of_term(f["locals"])
    params_l = lin_of_term(f["parameters"])
    # environment of the body: frame argument of the recs into this buffer
    recs = [e for e in emits if e.kind == "rec"]
    envs = set()
    for r in recs:
        fr = r.frame
        if fr[0] == "ctor" and fr[2] == "Local":
            envs.add(fr[3][0][1])
        elif fr == ("var", "current_frame"):
            envs.add(r.env)   # Top: the global environment
    counts = [c for c in scope if c.kind == "env_count" and c.eff["args"][0] in envs]
    last_rec = max([idx[id(r)] for r in recs], default=-1)
    good = [c for c in counts if idx[id(c)] > last_rec]
    if locals_l is None or params_l is None or not good:
        ck.ob("R2.frame", key + "|frame of buffer %s" % buf[2], False, it.at,
              "cannot relate locals=%s parameters=%s to the environment's local count read after the body (unprovable)" % (
                  fmt_term(f["locals"]), fmt_term(f["parameters"])))
        return
    total = locals_l + params_l
    want = Lin(0, {good[-1].eff["res"]: 1})
    ck.ob("R2.frame", key + "|frame of buffer %s" % buf[2], total == want, it.at,
          "locals + parameters = %r, environment count after compiling the body = %r%s" % (
              total, want, "" if total == want else " — a local index can exceed the frame"))


def _labels_counter(ck, fx):
    """monotone group counter + single generator per program (who-may-write / who-may-construct)"""
    LG = "bytecode::compiler::LabelGenerator"
    n = 0
    for b, node, ps, ctx in field_uses(fx, LG, "groups"):
        if b["from_expansion"]:
            continue
        if ctx["kind"] == "assign":
            n += 1
            rhs = peel(ctx["node"]["rhs"])
            ok = rhs.get("k") == "Binary" and rhs["op"] == "Add" and any(
                peel(x).get("k") == "Lit" and peel(x)["lit"].get("v", 0) > 0 for x in (rhs["lhs"], rhs["rhs"])) and any(
                peel(x).get("k") == "Field" and peel(x)["name"] == "groups" for x in (rhs["lhs"], rhs["rhs"]))
            ck.ob("R2.labels", "%s|groups := groups + c" % b["path"], ok, loc(node), "write to the group counter is %s" % ("a strict increment" if ok else "NOT a strict increment"))
        elif ctx["kind"] == "assign_op":
            n += 1
            ok = ctx["op"] == "AddAssign"
            ck.ob("R2.labels", "%s|groups += c" % b["path"], ok, loc(node), "compound write %s" % ctx["op"])
        elif ctx.get("mut") or ctx["kind"] in ("addr_of_mut",):
            n += 1
            ck.ob("R2.labels", "%s|&mut groups" % b["path"], False, loc(node),
                  "the group counter is handed out mutably (%s): it can be reset or rewound, so later constructs reuse label names" % ctx["kind"])
    ck.floor("R2.labels", "writes to LabelGenerator.groups", n, 1)
    ctors = []
    for b in fx.hir:
        if b["from_expansion"]:
            continue
        for node, ps in walk_body(b):
            if node.get("k") == "Struct" and node["res"].get("path") == LG:
                ctors.append(b["path"])
            if node.get("k") == "Assign" and peel(node["lhs"]).get("k") == "Field" and peel(node["lhs"])["name"] == "labels" and peel(node["lhs"]).get("adt") == "bytecode::compiler::ProgramGenerator":
                ck.ob("R2.labels", "%s|replaces the label generator" % b["path"], False, loc(node), "ProgramGenerator.labels is reassigned")
    ck.ob("R2.labels", "LabelGenerator constructed only in new()", ctors == [LG + "::new"], "", "constructed in %s" % ctors)


def _who_appends(ck, fx):
    PG = "bytecode::compiler::ProgramGenerator"
    n = 0
    for b, node, ps, ctx in field_uses(fx, PG, "completed_code"):
        if b["from_expansion"]:
            continue
        n += 1
        if ctx["kind"] == "recv" and ctx["mut"]:
            ok = ctx["method"] == "extend"
            ck.ob("R2.methods", "%s|completed_code.%s" % (b["path"], ctx["method"]), ok, loc(node),
                  "program code mutated via .%s()%s" % (ctx["method"], "" if ok else " — only whole method buffers may be appended"))
        elif ctx["kind"] in ("assign", "addr_of_mut"):
            ck.ob("R2.methods", "%s|completed_code %s" % (b["path"], ctx["kind"]), False, loc(node), "program code replaced / borrowed mutably")
    ck.floor("R2.methods", "uses of ProgramGenerator.completed_code", n, 1)


def _root_buffer(ck, fx):
    """compile(): the root buffer is extended into the code without a Method — harmless because the
    root AST is Top (grammar side condition), whose arm never emits into it."""
    b = fx.body(A.get("compile"))
    if not ck.anchor("R2.methods", "compile", b):
        return
    ck.fn(b["path"])
    T = templates(fx)
    for keep in (True, False):
        ex, paths, err = T.get(("Top", keep), (None, [], "missing"))
        for p in paths:
            if is_ok_result(p):
                items = stream(p["eff"])
                into_active = [it for it in all_items(items) if it.kind in ("emit", "rec") and it.buf == ("var", "active_buffer")]
                ck.ob("R2.methods", "Top|keep=%s|nothing emitted into the root buffer" % ("T" if keep else "F"), not into_active,
                      into_active[0].at if into_active else "", "%d instruction(s) outside any method" % len(into_active))
