"""C03 — bytecode serialization and deserialization are mutually inverse.

R3.agree   layout extracted from the writer equals the layout extracted from the reader: per constant kind,
           per opcode and for the program frame — same tag, same field order, same primitive per field.
R3.tags    writer tag tables are injective; the reader maps each tag back to the same variant.
R3.prims   primitive pairs are inverse by construction (to_le/from_le on the same T, buffer = size_of T,
           bool ↔ {0,1}, string length = byte length and exactly that many bytes are consumed).
R3.narrow  every narrowing cast on the write path is dominated by a range assertion on the same value.
R3.reload  the loader appends each method's instructions in pool order and the writer materialises each
           method's own range; labels are derived by the same function at compile time and load time.
"""
from .. import anchors as A
from ..facts import walk_body, walk, loc, peel, callee_name, user_macros_of
from ..census import local_of, const_int
from ..symdbg import fmt_term
from ..symex import lit
from . import layout as L

LEVEL = "other"
MAXV = {"u8": 255, "u16": 65535, "u32": 4294967295}


def writer_tokens(layout):
    toks = []
    for kind, src, d in layout["fields"]:
        if kind.startswith("counted:"):
            _, c, e = kind.split(":", 2)
            p, le = L.norm_prim(c)
            toks.append(("seq", src, L.WIDTH.get(p), "le" if le else "be", e.replace("sub:", "sub:").replace("u16le", "r2:le").replace("u8", "r1")))
        elif kind.startswith("lenbytes:"):
            p, le = L.norm_prim(kind.split(":", 1)[1])
            toks.append(("seq", src, L.WIDTH.get(p), "le" if le else "be", "r1"))
        else:
            p, le = L.norm_prim(kind)
            toks.append(("prim", src, L.WIDTH.get(p, 0), "le" if le or L.WIDTH.get(p, 1) == 1 else "be", p))
    return toks


def reader_tokens(layout):
    toks = [("prim", None, layout["tag_width"], "le", (layout["tag_dec"] or ("?",))[0])]
    for kind, dst, d in L.parse_reader(layout):
        if kind == "counted":
            dec = d["count_dec"] or ("?", "?")
            if d.get("count_wrapped"):
                dec = (dec[0] + " through " + d["count_wrapped"], dec[1])
            el = d["elem"] or "?"
            if el == "r2" and d["elem_dec"]:
                el = "r2:" + d["elem_dec"][1]
            toks.append(("seq", None, d["count_bytes"], dec[1], el))
        else:
            dec = d["dec"] or ("?", "?")
            toks.append(("prim", dst, d["bytes"], dec[1] if d["bytes"] > 1 else "le", dec[0] + ("" if not (d.get("wrapped") and d["dec"]) else " through " + d["wrapped"])))
    return toks


def run(ck, fx, cg, tier):
    ck.explanation = (
        "Inverse-ness is decided as agreement of two syntax-directed templates. The writer (Program::serialize ↓) "
        "and the reader (Program::from_bytes ↓) are executed symbolically down to write_all / read_exact; for each "
        "of the 7 constant kinds, the 17 opcodes and the program frame the two extracted layouts must coincide "
        "token by token (tag value and variant, field order and destination, primitive width, endianness, count "
        "widths, element kinds), tag tables must be injective and mutually inverse, every primitive pair must be "
        "inverse by construction, narrowing casts on the write path must be range-asserted, the loader must append "
        "method code in pool order while the writer emits each method's own range forwards, and labels must be "
        "derived by one shared function. With these, a save/load cycle preserves constants, per-method instruction "
        "sequences, globals and entry at the byte level. Not decided: 'same behaviour when executed' (follows only "
        "together with C05); byte-identity of the second write when code order differs from pool order is argued, "
        "not checked.")
    ck.trusted_base = ["rustc resolution/type check", "fml-facts dumper", "symbolic executor + std models", "to_le_bytes/from_le_bytes are mutually inverse"]
    n = 0
    for role_w, role_r, adt, spec, what in (("constant.serialize", "constant.from_bytes", L.PO, L.S3_CONST, "constant"),
                                            ("opcode.serialize", "opcode.from_bytes", L.OP, L.S3_OP, "opcode")):
        a = fx.adts.get(adt)
        if not ck.anchor("R3", "type " + adt, a):
            continue
        ck.fn(A.get(role_w))
        ck.fn(A.get(role_r))
        rv, err = L.reader_variants(fx, role_r, adt)
        if rv is None:
            ck.ob("R3.agree", what + " reader", False, "", "cannot extract the reader layout (unprovable): %s" % err)
            continue
        by_variant = {}
        for tag, ls in rv.items():
            for x in ls:
                by_variant.setdefault(x["variant"], []).append((tag, x))
        wtags = {}
        for v in [x["name"] for x in a["variants"]]:
            layouts, err = L.writer_variant(fx, role_w, adt, v)
            if not layouts:
                ck.ob("R3.agree", "%s %s" % (what, v), False, "", "cannot extract the writer layout (unprovable): %s" % err)
                continue
            wt = writer_tokens(layouts[0])
            wtag = layouts[0]["fields"][0][2].get("lit") if layouts[0]["fields"] else None
            wtags.setdefault(wtag, []).append(v)
            rs = by_variant.get(v, [])
            n += 1
            if not rs:
                ck.ob("R3.agree", "%s %s" % (what, v), False, "", "the reader never builds %s: a written %s cannot be read back" % (v, v))
                continue
            rtag, rl = rs[0]
            rt = reader_tokens(rl)
            probs = []
            if rtag != wtag:
                probs.append("written with tag %s, read back from tag %s" % (wtag, rtag))
            probs += ["reader: " + x for x in L.seq_problems(rl["term"])]
            for kind, src, d in layouts[0]["fields"]:
                bad = [h for h in L.REORDERING if L._has_head(src, h)] if isinstance(src, tuple) else []
                if bad:
                    probs.append("writer: the sequence written for `%s` passes through %s" % (fmt_term(src), "/".join(bad)))
                if kind.startswith("lenbytes:") and not d.get("len_is_byte_len"):
                    probs.append("writer: the count written before the bytes is %s, not the number of bytes that follow — the reader consumes exactly `count` bytes" % d.get("len_term"))
            if v == "Boolean":
                ok = len(wt) == 2 and len(rt) == 2 and wt[1][2] == 1 and rt[1][2] == 1
                if not ok:
                    probs.append("boolean payload is not one byte on both sides")
            else:
                if len(wt) != len(rt):
                    probs.append("writer emits %d token(s) %s, reader consumes %d %s" % (len(wt), wt, len(rt), rt))
                else:
                    for i, (x, y) in enumerate(zip(wt, rt)):
                        if i == 0:
                            if x[2] != y[2]:
                                probs.append("tag width differs")
                            continue
                        if x[0] != y[0] or x[2] != y[2] or x[3] != y[3]:
                            probs.append("token %d: writer %s, reader %s" % (i, x, y))
                        elif x[0] == "prim" and (x[1] != y[1] or x[4] != y[4]):
                            probs.append("token %d: writer puts `%s` (%s) where the reader expects `%s` (%s)" % (i, x[1], x[4], y[1], y[4]))
                        elif x[0] == "seq" and x[4] != y[4]:
                            probs.append("token %d: element kinds differ (%s vs %s)" % (i, x[4], y[4]))
            ck.ob("R3.agree", "%s %s" % (what, v), not probs, "", "writer and reader agree on %d token(s)" % len(wt) if not probs else "; ".join(probs))
            if len(ck.samples) < 8:
                ck.sample({"rule": "R3.agree", "variant": v, "writer": [list(map(str, t)) for t in wt], "reader": [list(map(str, t)) for t in rt]})
        dup = {t: vs for t, vs in wtags.items() if len(vs) > 1}
        ck.ob("R3.tags", "%s tags injective" % what, not dup and None not in wtags, "", "tag → variants: %s" % {("0x%02X" % t if isinstance(t, int) else t): vs for t, vs in sorted(wtags.items(), key=str)})
        back = {t: sorted({x["variant"] for x in ls}) for t, ls in rv.items()}
        bad = {t: vs for t, vs in back.items() if len(vs) != 1 or wtags.get(t) != vs}
        ck.ob("R3.tags", "%s reader inverts the tag table" % what, not bad, "", "mismatching tags: %s" % (bad or "none"))
    ck.floor("R3.agree", "variants compared", n, 24)
    from .. import canary
    canary.require(ck, {"R3.narrow"})
    _prims(ck, fx)
    _narrow(ck, fx, cg)
    _reload(ck, fx, cg)


def _prims(ck, fx):
    from ..layout_scheme import run as lrun
    S = "bytecode::serializable::"
    # read_bool: 0 → false, 1 → true, anything else fails
    b = fx.body(S + "read_bool")
    if ck.anchor("R3.prims", "read_bool", b):
        # decided by executing the reader with the byte fixed to 0, 1, 2, 255 in turn (whatever its control structure)
        table = {}
        for t in (0, 1, 2, 255):
            try:
                ex, paths = lrun(fx, S + "read_bool", [("var", "reader")], first_byte=t)
            except Exception as e:  # noqa
                paths = None
            outs = set()
            for p in paths or []:
                reads = [e for e in p["eff"] if e["k"] == "read"]
                if any(e["k"] in ("assume_fail",) for e in p["eff"]) or any(
                        e["k"] == "assume" and e["args"][0][0] == "app" and e["args"][0][1] in ("is_ok",) and e["args"][1] == lit(False) for e in p["eff"]):
                    continue       # the read itself failed
                if p["out"][0] == "val" and p["out"][1] in (lit(True), lit(False)) and len(reads) == 1 and reads[0]["args"][1] == lit(1):
                    outs.add(p["out"][1][1])
                elif p["out"][0] == "panic":
                    outs.add("fails")
                else:
                    outs.add("?")
            table[t] = sorted(outs, key=str)
        ok = table == {0: [False], 1: [True], 2: ["fails"], 255: ["fails"]}
        ck.ob("R3.prims", "read_bool", ok, loc(b), "byte → outcome %s; expected 0 → false, 1 → true, anything else fails" % table)
    # write_utf8 / read_utf8 consume exactly the written number of bytes
    ex, paths = lrun(fx, S + "read_utf8", [("var", "reader")])
    if ck.anchor("R3.prims", "read_utf8", paths):
        ok = False
        for p in paths:
            if p["out"][0] != "val":
                continue
            items = L.r_items(p["eff"])
            if len(items) == 2 and items[0][0] == "r" and items[0][1] == 4 and items[1][0] == "each":
                rng = items[1][1]
                end = L.loop_count(rng)
                body = items[1][2][0] if items[1][2] else []
                reads = [x for x in body if x[0] == "r"]
                ok = end is not None and L.decode_of(end, items[0][2]) == ("u32", "le") and len(reads) == 1 and reads[0][1] == 1
        ck.ob("R3.prims", "read_utf8 consumes u32 n then exactly n bytes", ok, "", "shape ok: %s" % ok)
    # every read buffer has the size of the type it is decoded as
    n = 0
    for name in ("read_u8", "read_u16", "read_u32", "read_i32"):
        ex, paths = lrun(fx, S + name, [("var", "reader")])
        if not ck.anchor("R3.prims", name, paths):
            continue
        for p in paths:
            if p["out"][0] != "val":
                continue
            items = L.r_items(p["eff"])
            if len(items) == 1 and items[0][0] == "r":
                dec = L.decode_of(p["out"][1], items[0][2])
                n += 1
                want = name.split("_", 1)[1]
                ck.ob("R3.prims", name, dec is not None and dec[0] == want and L.WIDTH[dec[0]] == items[0][1] and (dec[1] == "le" or items[0][1] == 1), "",
                      "%s reads %d byte(s) and decodes %s" % (name, items[0][1], dec))
    ck.floor("R3.prims", "primitive readers", n, 1)


def _diverges(fx, n):
    n = peel(n)
    if (fx.ty(n) or "") == "!":
        return True
    if n.get("k") == "Block":
        b = n["block"]
        if "expr" in b:
            return _diverges(fx, b["expr"])
        if b["stmts"] and b["stmts"][-1]["k"] in ("Semi", "Expr"):
            return _diverges(fx, b["stmts"][-1]["e"])
    return False


def _narrow(ck, fx, cg):
    roots = cg.dids_of(A.get("program.serialize"))
    reach = cg.reachable(roots)
    n = 0
    for d in sorted(reach):
        hb = fx.hir_by_did.get(d)
        if not hb or hb["from_expansion"]:
            continue
        for node, ps in walk_body(hb):
            if node.get("k") == "Cast" and node.get("to") in MAXV and node.get("from") in ("usize", "u64", "u32", "u16", "i32", "i64", "isize") and node["from"] != node["to"]:
                order = ["u8", "u16", "u32", "u64", "usize"]
                if node["from"] in order and order.index(node["from"]) <= order.index(node["to"]):
                    continue
                n += 1
                l = local_of(node["e"])
                guarded = False
                if l:
                    for x, xps in walk_body(hb):
                        if x.get("k") != "If" or not _diverges(fx, x["then"]):
                            continue
                        c = peel(x["cond"])
                        neg = False
                        while c.get("k") == "Unary" and c.get("op") == "Not":
                            neg = not neg
                            c = peel(c["e"])
                        if c.get("k") != "Binary":
                            continue
                        a = local_of(c["lhs"])
                        m = const_int(c["rhs"])
                        if not a or a[0] != l[0] or m is None:
                            continue
                        # diverges unless value <= m   (neg: !(v <= m) / !(v < m);  plain: v > m / v >= m)
                        if neg and c["op"] in ("Le", "Lt"):
                            bound = m if c["op"] == "Le" else m - 1
                        elif not neg and c["op"] in ("Gt", "Ge"):
                            bound = m if c["op"] == "Gt" else m - 1
                        else:
                            continue
                        if bound <= MAXV[node["to"]]:
                            guarded = True
                ck.ob("R3.narrow", "%s|as %s" % (hb["path"], node["to"]), guarded, loc(node),
                      "`%s as %s` %s" % (node["from"], node["to"], "is preceded by a range assertion on the same value" if guarded else "can silently truncate (no range assertion)"))
    ck.floor("R3.narrow", "narrowing casts on the write path", n, 0)


def _reload(ck, fx, cg):
    # labels derived by the same function on both sides
    lf = cg.dids_of("bytecode::program::Labels::from")
    if ck.anchor("R3.reload", "Labels::from", lf or None):
        callers = sorted({cg.path[d] for d in cg.callers_of(lf[0])})
        need = {A.get("materialize"), A.get("program.from_bytes")}
        reaching = {side for side in need if cg.dids_of(side) and lf[0] in cg.reachable(cg.dids_of(side))}
        ck.ob("R3.reload", "labels derived by one function at compile and load time", need <= reaching, "",
              "Labels::from is reached from %s (direct callers: %s)" % (sorted(reaching), callers))
        li = [cg.dids_of("bytecode::program::Code::labels"), cg.dids_of("bytecode::program::Code::label_addresses")]
        for side in need:
            ds = cg.dids_of(side)
            if not ds:
                continue
            reach = cg.reachable(ds)
            ok = all(x and x[0] in reach for x in li)
            ck.ob("R3.reload", "%s uses Code::labels + Code::label_addresses" % side.rsplit("::", 1)[-1], ok, loc(fx.body(side)) if fx.body(side) else "",
                  "both derivation inputs are reached from it: %s" % ok)
    # program frame: the pool and the globals are kept as read / written
    from ..layout_scheme import run as lrun
    for role, args in (("program.from_bytes", [("var", "input")]), ("program.serialize", [("var", "self"), ("var", "sink")])):
        try:
            ex, paths = lrun(fx, A.get(role), args)
        except Exception as e:
            ck.ob("R3.reload", "%s keeps sequences intact" % role, False, "", "cannot extract (unprovable): %s" % e)
            continue
        if role == "program.from_bytes":
            okp = [p for p in paths or [] if p["out"][0] == "val" and p["out"][1][0] == "ctor"]
            pp = L.pool_problems(okp[0]) if okp else ["no successful path"]
            ck.ob("R3.reload", "the loaded pool holds the file's constants one-to-one, in order", not pp, "", "; ".join(pp) or "collected from / pushed by the reading loop, once per constant")
        bad = set()
        for p in paths or []:
            if p["out"][0] == "val" and p["out"][1][0] == "ctor":
                # `labels` is a name -> address map by design; every other field is a sequence / index
                bad |= {h for k, v in p["out"][1][3] if k != "labels" for h in L.REORDERING if L._has_head(v, h)}
            for e in p["eff"]:
                bad |= {h for h in L.REORDERING if L._has_head(e, h)}
        ck.ob("R3.reload", "%s keeps sequences intact" % role, not bad, "", "no reordering / deduplicating collection on the path" if not bad else
              "a sequence passes through %s: order / multiplicity of its elements is not preserved" % "/".join(sorted(bad)))
    # … and the writer's counterpart: what is written for the pool is every constant of the program, in order, each by
    # its own serializer *as it stands in the pool* (a constant renamed, normalised or substituted on the way out is a
    # different program after reload: constants are shared between all their uses)
    try:
        from . import c04 as _c04
        _best, _shape, _probs = _c04.frame_writer(fx)
        ck.ob("R3.reload", "the written pool holds the program's constants one-to-one, in order, as they are", not _probs, "",
              "u16 n, then each of the n constants through its own serializer; globals and entry as stored" if not _probs else "; ".join(_probs))
    except Exception as e:  # noqa
        ck.ob("R3.reload", "the written pool holds the program's constants one-to-one, in order, as they are", False, "", "cannot extract (unprovable): %s" % e)
    # the loader is fed the bytes of the file: the CLI's input reader is byte-transparent
    from . import shared
    sites = shared.reader_transparency(fx)
    for fn_, where_, ok_, why_ in shared.partial_source_readers(fx):
        ck.ob("R3.source", "%s|reads the input" % fn_, ok_, where_, why_)
    for fn, where, ok, why in sites:
        ck.ob("R3.source", "%s|input reader" % fn, ok, where,
              "the input reader is %s" % why if ok else "the bytes of a bytecode file can be altered before Program::from_bytes sees them: the input reader is %s" % why)
    ck.floor("R3.source", "places that build the CLI's input reader", len(sites), 1)
    for item in ("read",):
        fb = fx.body("<NamedSource as std::io::Read>::%s" % item)
        if ck.anchor("R3.source", "<NamedSource as Read>::%s" % item, fb):
            from .c08 import _is_plain_forward
            okf, whyf = _is_plain_forward(fb, "std::io::Read::" + item)
            ck.ob("R3.source", "NamedSource|%s forwards" % item, okf, loc(fb), whyf)
    from . import shared as _sh
    okd, whered, whyd = _sh.bc_deserialize_plain(fx, A)
    if ck.anchor("R3.source", "BCSerializer::deserialize", True if okd is not None else None):
        ck.ob("R3.source", "the bytecode deserializer hands the reader untouched to Program::from_bytes", okd is True, whered, whyd)
    # the loader refuses a file only where decoding itself fails (a read, a tag, UTF-8, a label that is not in the pool):
    # an explicit refusal (bail! / ensure! / panic! / assert!) at the level of the whole program is a *validation* the
    # format does not state — a program the writer emitted and `run` executes may then fail to load
    try:
        exf, pathsf = lrun(fx, A.get("program.from_bytes"), [("var", "input")])
    except Exception as e:
        pathsf = None
    if pathsf is not None:
        explicit = []
        n_fail = 0
        for p in pathsf:
            o = p["out"]
            failing = o[0] == "panic" or (o[0] == "val" and isinstance(o[1], tuple) and o[1] and o[1][0] == "err")
            if not failing:
                continue
            n_fail += 1
            made = [e for e in p["eff"] if e["k"] == "call" and (e["args"][0][1].startswith("anyhow::private::") or e["args"][0][1].endswith("::format_err")
                                                                  or e["args"][0][1].startswith("anyhow::Error::msg"))]
            # a constant that is referenced as a name but is not a String / an index outside the pool is a decoding
            # failure wherever the accessor is called from (a closure of a collect or the body of a loop)
            made = [e for e in made if ((_sh.fn_at(fx, e["at"]) or {}).get("impl_self") or "") not in (L.PO, "bytecode::program::ConstantPool")]
            raised = o[0] == "panic" and isinstance(o[1], str) and ("panic_fmt" in o[1] or "begin_panic" in o[1] or "panic_display" in o[1] or "assert_failed" in o[1])
            if raised and not made:
                # a panic raised in the failure handler of a std operation (`read_exact(..).unwrap_or_else(|e| panic!(..))`,
                # `from_utf8(..)` likewise) is that operation's failure with a hand-written message — decoding, not validation:
                # the last thing the path decided before panicking is that the operation failed
                decided = [e for e in p["eff"] if e["k"] in ("assume", "assume_fail", "assume_ok")]
                if decided and decided[-1]["k"] == "assume_fail" and isinstance(decided[-1]["args"][0], tuple) and decided[-1]["args"][0][:1] == ("fall",):
                    origin = [e for e in p["eff"] if e.get("res") == decided[-1]["args"][0] and e["k"] in ("call", "read")]
                    if origin and (origin[-1]["k"] == "read" or origin[-1]["args"][0][1].startswith(("std::", "core::", "alloc::"))):
                        raised = False
            if made or raised:
                explicit.append((made[-1]["at"] if made else ([e for e in p["eff"] if e.get("at")] or [{"at": ""}])[-1]["at"]))
        ck.ob("R3.reload", "the loader refuses a file only where decoding fails", not explicit, explicit[0] if explicit else "",
              "%d failing path(s) of Program::from_bytes, none raised by an explicit check" % n_fail if not explicit else
              "%d of %d failing path(s) are explicit refusals (bail!/ensure!/panic!) added on top of decoding, first at %s: files the writer produces and `run` accepts can be rejected on load" % (
                  len(explicit), n_fail, explicit[0]))
    # the writer emits code only through the Method constants' ranges: an instruction of the in-memory program that lies
    # outside every method's range is lost by a save/load cycle. That every instruction the compiler emits into the
    # program's code belongs to a method's own range is C02's R2.methods — evaluated here as one presupposition
    shared.presuppose(ck, fx, cg, "C02", lambda o: o["rule"] == "R2.methods", "R3.reload",
                      "every instruction of a compiled program lies in a method's range (nothing is lost by writing method by method)", floor=2)
    # loader: Method arm appends the opcodes read, in order, and records (old length, count)
    rv, err = L.reader_variants(fx, "constant.from_bytes", L.PO)
    verdicts = []
    why = "no Method reader path"
    for tag, ls in (rv or {}).items():
        for x in ls:
            if x["variant"] != "Method":
                continue
            code = dict(x["term"][3]).get("code")
            ext = [i for i in x["items"] if i[0] == "extend"]
            s = fmt_term(code)
            okp = len(ext) == 1 and "len(field(code, '0'))" in s and "start" in s
            verdicts.append(okp)
            if not okp or why == "no Method reader path":
                why = "method code is appended to the program's code (one extend): %s; its range starts at the previous length: %s" % (len(ext) == 1, "len(field(code, '0'))" in s)
    # on EVERY path that builds a Method (a path that reuses code already loaded, skips or rewrites instructions gives
    # the method a range that is not the instructions read for it)
    ok = bool(verdicts) and all(verdicts)
    ck.ob("R3.reload", "loader appends method code in pool order", ok, "", why + ("" if ok or not verdicts else " — on %d of %d path(s) that build a Method" % (verdicts.count(False), len(verdicts))))
    # writer: the method's own range, forwards
    layouts, err = L.writer_variant(fx, "constant.serialize", L.PO, "Method")
    ok = False
    if layouts:
        for f in layouts[0]["fields"]:
            if f[0].startswith("counted:") and f[1] == "code":
                ok = f[2].get("forward") and f[2].get("count_matches_sequence") and "self.code" in f[2].get("base", "")
    ck.ob("R3.reload", "writer materialises the method's own range forwards", bool(ok), "", "range taken from the method's (start, length): %s" % bool(ok))
