"""C04 — bytecode files follow the documented Feeny/FML binary layout.

R4.writer = S3   layout extracted from Program::serialize ↓ equals the independent grammar S3.
R4.reader = S3   layout extracted from Program::from_bytes ↓ equals S3 (catches symmetric changes).
R4.doc           three-way agreement code ↔ S3 ↔ the tag/opcode numbers in the doc comments.
R4.notrailing    nothing is written after the entry index; the compile action writes nothing else.
R4.le            every multi-byte primitive is little-endian (part of the comparisons above).
"""
import re

from .. import anchors as A
from ..facts import user_macros_of, walk_body, loc, peel, callee_name
from ..census import local_of
from ..symdbg import fmt_term
from ..symex import lit
from ..layout_scheme import run as lrun
from . import layout as L

LEVEL = "other"


def run_prop(ck, fx, cg, tier, rules=("writer", "reader", "doc", "notrailing")):
    pass


def run(ck, fx, cg, tier):
    ck.explanation = (
        "The byte layout is a syntax-directed template of the serializer and the loader. Both are executed "
        "symbolically down to Write::write_all / Read::read_exact (helpers inlined), per constant kind (7), per "
        "opcode (17) and for the program frame; the extracted layouts — tag value, field order, primitive width, "
        "endianness, count widths, string length in bytes, element order — are compared with S3, an independent "
        "grammar written from the property statement and the Feeny opcode numbering, and with the numbers in the "
        "doc comments. Because writer AND reader are each compared with S3, a symmetric change (width, endianness, "
        "tag, order, length in chars) is caught. Also: nothing is written after the entry index and the compile "
        "action writes nothing else. Intended sound for 'every emitted file is exactly …' and for the reader "
        "accepting exactly that grammar; that a file denotes *the* program semantically is C05.")
    ck.trusted_base = ["rustc resolution/type check", "fml-facts dumper", "symbolic executor + std models (to_le_bytes/from_le_bytes, write_all, read_exact)",
                       "S3 layout grammar (DESIGN A.3)"]
    n_w = n_r = 0
    # ---------------------------------------------------------------- constants and opcodes
    for role_w, role_r, adt, spec, what in (("constant.serialize", "constant.from_bytes", L.PO, L.S3_CONST, "constant"),
                                            ("opcode.serialize", "opcode.from_bytes", L.OP, L.S3_OP, "opcode")):
        a = fx.adts.get(adt)
        if not ck.anchor("R4", "type " + adt, a):
            continue
        variants = [v["name"] for v in a["variants"]]
        ck.ob("R4.writer", "%s kinds = S3" % what, set(variants) == set(spec), loc(a), "%s variants %s; S3 has %s" % (what, sorted(variants), sorted(spec)))
        ck.fn(A.get(role_w))
        ck.fn(A.get(role_r))
        for v in variants:
            if v not in spec:
                continue
            layouts, err = L.writer_variant(fx, role_w, adt, v)
            if layouts is None:
                ck.ob("R4.writer", "%s %s" % (what, v), False, "", "cannot extract the writer layout (unprovable): %s" % err)
            else:
                probs = L.check_writer_variant(spec[v], layouts, v)
                n_w += 1
                at = layouts[0]["fields"][0][2]["at"] if layouts and layouts[0]["fields"] else ""
                ck.ob("R4.writer", "%s %s" % (what, v), not probs, at,
                      "tag 0x%02X + %s" % (spec[v][0], spec[v][1]) if not probs else "; ".join(probs))
                if len(ck.samples) < 10 and layouts:
                    ck.sample({"rule": "R4.writer", "variant": v, "fields": [(f[0], f[1]) for f in layouts[0]["fields"]]})
        rv, err = L.reader_variants(fx, role_r, adt)
        if rv is None:
            ck.ob("R4.reader", "%s reader" % what, False, "", "cannot extract the reader layout (unprovable): %s" % err)
            continue
        tags = {t: sorted({x["variant"] for x in ls}) for t, ls in rv.items()}
        for v in variants:
            if v not in spec:
                continue
            tag = spec[v][0]
            ls = rv.get(tag, [])
            probs = L.check_reader_variant(spec[v], v, ls)
            n_r += 1
            ck.ob("R4.reader", "%s %s" % (what, v), not probs, ls[0]["items"][0][3] if ls else "",
                  "tag 0x%02X → %s with fields %s" % (tag, v, spec[v][1]) if not probs else "; ".join(probs) + " (tag 0x%02X builds %s)" % (tag, tags.get(tag)))
        extra = sorted(t for t in rv if t not in {s[0] for s in spec.values()})
        ck.ob("R4.reader", "%s reader accepts only S3 tags" % what, not extra, "", "tags accepted: %s" % sorted(tags))
    ck.floor("R4.writer", "variant layouts compared", n_w, 24)
    ck.floor("R4.reader", "variant layouts compared", n_r, 24)
    _frame(ck, fx)
    _doc(ck, fx)
    _notrailing(ck, fx, cg)
    # "any file in that layout is loaded as the program it denotes": the loader sees the file's own bytes
    from . import shared
    sites = shared.reader_transparency(fx)
    for fn_, where_, ok_, why_ in shared.partial_source_readers(fx):
        ck.ob("R4.source", "%s|reads the input" % fn_, ok_, where_, why_)
    for fn, where, ok, why in sites:
        ck.ob("R4.source", "%s|input reader" % fn, ok, where,
              "the input reader is %s" % why if ok else "the bytes of a file can be altered before the loader sees them: the input reader is %s" % why)
    ck.floor("R4.source", "places that build the CLI's input reader", len(sites), 1)
    # "any file in that layout is loaded as the program it denotes": beyond the per-kind layouts, the loader as a whole
    # (C03's rules: code appended as read, labels derived from the complete pool by the shared function, no refusals)
    shared.presuppose(ck, fx, cg, "C03", lambda o: o["rule"] == "R3.reload", "R4.reader", "loader|the program frame is assembled as the layout says", floor=5)
    from . import shared as _sh
    okd, whered, whyd = _sh.bc_deserialize_plain(fx, A)
    if ck.anchor("R4.source", "BCSerializer::deserialize", True if okd is not None else None):
        ck.ob("R4.source", "the bytecode deserializer hands the reader untouched to Program::from_bytes", okd is True, whered, whyd)


def frame_writer(fx):
    """(best successful path, shape, problems) of Program::serialize — Program := u16 n Constant×n  u16 g u16×g  u16 entry,
    every constant written by its own serializer as it stands in the pool"""
    self_t = ("var", "self")
    ex, paths = lrun(fx, A.get("program.serialize"), [self_t, ("var", "sink")])
    oks = [p for p in paths or [] if p["out"][0] == "val" and p["out"][1][0] in ("ok", "fall")]
    # the path where every write succeeded is the one ending in the entry write
    best = max(oks, key=lambda p: len(p["eff"])) if oks else None
    probs = []
    shape = None
    if best is None:
        probs.append("no successful path")
    else:
        items = L.w_items(best["eff"])
        fields, _ = L.parse_writer(items, None, {"constant_pool": L_field("constant_pool"), "globals": L_field("globals"), "entry": L_field("entry")})
        shape = [(f[0], f[1]) for f in fields]
        want = [("counted:u16le:sub:constant", "constant_pool"), ("counted:u16le:u16le", "globals"), ("u16le", "entry")]
        if shape != want:
            probs.append("program frame is %s, S3 says %s" % (shape, want))
        for f in fields:
            if f[0].startswith("counted") and not (f[2].get("count_matches_sequence") and f[2].get("forward")):
                probs.append("count/sequence mismatch or reverse order in `%s`" % f[1])
    return best, shape, probs


def _frame(ck, fx):
    """Program := u16 n Constant×n  u16 g u16×g  u16 entry"""
    try:
        best, shape, probs = frame_writer(fx)
        paths = True
    except Exception as e:
        ck.ob("R4.writer", "program frame", False, "", "cannot extract: %s" % e)
        paths = None
        best = None
    if paths:
        if shape is not None:
            ck.sample({"rule": "R4.writer", "program_frame": shape})
        ck.ob("R4.writer", "program frame", not probs, "", "u16 n, Constant×n, u16 g, u16×g, u16 entry" if not probs else "; ".join(probs))
        if best is not None:
            last = [it for it in L.w_items(best["eff"])][-1] if L.w_items(best["eff"]) else None
            ok = last is not None and last[0] == "w" and L.mentions(last[2], L_field("entry"))
            ck.ob("R4.notrailing", "serialize ends with the entry index", ok, last[3] if last else "", "last write: %s" % (fmt_term(last[2])[:80] if last and last[0] == "w" else last[0] if last else None))
    try:
        ex, paths = lrun(fx, A.get("program.from_bytes"), [("var", "input")])
    except Exception as e:
        ck.ob("R4.reader", "program frame", False, "", "cannot extract: %s" % e)
        return
    if not ck.anchor("R4.reader", "Program::from_bytes", paths):
        return
    oks = [p for p in paths if p["out"][0] == "val" and p["out"][1][0] == "ctor"]
    probs = []
    if not oks:
        probs.append("no successful path")
    for p in oks[:1]:
        items = L.r_items(p["eff"])
        shape = []
        i = 0
        while i < len(items):
            it = items[i]
            if it[0] == "r" and i + 1 < len(items) and items[i + 1][0] == "each":
                body = items[i + 1][2][0] if items[i + 1][2] else []
                el = [x for x in body if x[0] in ("r", "sub")]
                shape.append(("count%d" % it[1], "sub:" + el[0][1] if el and el[0][0] == "sub" else ("r%d" % el[0][1] if el else "?")))
                rng = items[i + 1][1]
                end = L.loop_count(rng)
                dec = L.decode_of(end, it[2]) if end is not None else None
                if dec != ("u16", "le"):
                    probs.append("a count is decoded as %s, S3 says u16 little-endian" % (dec,))
                i += 2
            elif it[0] == "r":
                shape.append(("r%d" % it[1],))
                i += 1
            else:
                i += 1
        want = [("count2", "sub:constant"), ("count2", "r2"), ("r2",)]
        if shape != want:
            probs.append("reader frame is %s, S3 says %s" % (shape, want))
        st = p["out"][1]
        ent = dict(st[3]).get("entry")
        last_read = [x for x in items if x[0] == "r"][-1] if items else None
        if last_read and not (L.mentions(ent, last_read[2]) and L.decode_of(ent, last_read[2]) == ("u16", "le")):
            probs.append("the final u16 does not become the entry index")
        probs += ["constant pool: " + x for x in L.pool_problems(p)]
        # `labels` is a name -> address map by design; every other field is a sequence / index read from the file
        bad = sorted({h for k, v in st[3] if k != "labels" for h in L.REORDERING if L._has_head(v, h)})
        if bad:
            probs.append("a sequence of the loaded program passes through %s: order / multiplicity of the elements in the file is not preserved" % "/".join(bad))
        ck.sample({"rule": "R4.reader", "program_frame": shape})
    ck.ob("R4.reader", "program frame", not probs, "", "u16 n, Constant×n, u16 g, u16×g, u16 entry; nothing read afterwards" if not probs else "; ".join(probs))


def L_field(n):
    return ("app", "field", (("var", "self"), lit(n)))


def _doc(ck, fx):
    """`Serialized with tag 0x..` / `Serialized as opcode 0x..` in the variants' doc comments"""
    for adt, spec, pat in ((L.PO, L.S3_CONST, r"tag `0x([0-9A-Fa-f]+)`"), (L.OP, L.S3_OP, r"opcode `0x([0-9A-Fa-f]+)`")):
        a = fx.adts.get(adt)
        if not a:
            continue
        n = 0
        for v in a["variants"]:
            m = re.search(pat, v.get("doc", ""))
            if not m:
                continue
            n += 1
            doc = int(m.group(1), 16)
            want = spec.get(v["name"], (None,))[0]
            ck.ob("R4.doc", "%s::%s" % (adt.rsplit("::", 1)[1], v["name"]), doc == want, "",
                  "documentation says 0x%02X, S3 says %s" % (doc, "0x%02X" % want if want is not None else "?"))
        ck.floor("R4.doc", "documented numbers on %s" % adt.rsplit("::", 1)[1], n, len(spec))


def _notrailing(ck, fx, cg):
    b = fx.body(A.get("cli.compile"))
    if not ck.anchor("R4.notrailing", "CompilerAction::compile", b):
        return
    ck.fn(b["path"])
    sink = None
    for n, ps in walk_body(b):
        if n.get("k") == "Block":
            for st in n["block"]["stmts"]:
                if st["k"] == "Let" and st["pat"].get("k") == "Binding" and (fx.tyname(st["pat"].get("ty")) or "") == "NamedSink":
                    sink = st["pat"]["lid"]
    if not ck.anchor("R4.notrailing", "the NamedSink local of the compile action", sink):
        return
    uses = []
    for n, ps in walk_body(b):
        if n.get("k") == "Path" and n["res"].get("k") == "Local" and n["res"]["lid"] == sink:
            # climb to the consuming call
            for role, p in reversed(ps):
                if p.get("k") in ("Call", "MethodCall"):
                    uses.append(callee_name(p) or p.get("name"))
                    break
    from .c08 import _wraps_flush
    flushers = set()
    for n, ps in walk_body(b):
        if n.get("k") in ("Call", "MethodCall") and _wraps_flush(fx, n):
            flushers.add(callee_name(n) or n.get("name"))
    writing = [u for u in uses if not (u or "").endswith("::flush") and u not in flushers]     # flush emits no bytes of its own
    ck.ob("R4.notrailing", "compile action writes only through the serializer", writing == [A.get("cli.bc.serialize")], loc(b), "uses of the sink: %s" % uses)
    # the file must contain nothing but the layout: the output file is created/truncated when opened
    from . import shared
    n_open = 0
    for hb in fx.hir:
        if hb["from_expansion"] or not hb["path"].startswith("NamedSink::"):
            continue
        for node, ok, how in shared.write_opens(fx, hb):
            n_open += 1
            ck.ob("R4.notrailing", "%s|output file is truncated on open" % hb["path"], ok, loc(node),
                  "opened with %s%s" % (how, "" if ok else " — compiling over an older, longer file leaves its tail after the entry index (trailing bytes)"))
    ck.floor("R4.notrailing", "output-file opens examined", n_open, 1)
    # stdout IS the output file of `fml compile` without -o: nothing reachable from the action may print to it
    roots = cg.dids_of(A.get("cli.compile"))
    n_reach = 0
    for d in sorted(cg.reachable(roots)) if roots else []:
        hb = fx.hir_by_did.get(d)
        if hb is None or hb["from_expansion"]:
            continue
        n_reach += 1
        seen_here = set()
        for n, ps in walk_body(hb):
            ms = set(user_macros_of(n)) & {"println", "print", "dbg"}
            if ms and n.get("k") in ("Call", "MethodCall", "FormatArgs") and ("print" not in seen_here):
                seen_here.add("print")
                ck.ob("R4.notrailing", "%s|%s!" % (hb["path"], sorted(ms)[0]), False, loc(n),
                      "%s! on the compile path: the text lands in front of / inside the bytecode when it is written to stdout (`fml compile x > out.bc`)" % sorted(ms)[0])
            if n.get("k") in ("Call", "MethodCall") and callee_name(n) == "std::io::stdout" and not hb["path"].startswith("NamedSink::"):
                ck.ob("R4.notrailing", "%s|stdout()" % hb["path"], False, loc(n), "std::io::stdout() used on the compile path outside NamedSink")
    ck.ob("R4.notrailing", "nothing else prints to stdout on the compile path", True, "", "%d reachable function(s) examined" % n_reach, nontrivial=False)
    ck.floor("R4.notrailing", "functions reachable from the compile action", n_reach, 20)
    from .. import canary as _canary
    _canary.require(ck, {"R4.stdout"})
    b2 = fx.body(A.get("cli.bc.serialize"))
    if ck.anchor("R4.notrailing", "BCSerializer::serialize", b2):
        calls = [callee_name(n) for n, ps in walk_body(b2) if n.get("k") in ("Call", "MethodCall") and n.get("callee") and not (callee_name(n) or "").startswith("core::panicking")]
        calls = [c for c in calls if "panic" not in c and "unimplemented" not in c]
        ck.ob("R4.notrailing", "BYTES format = Program::serialize only", calls == [A.get("program.serialize")], loc(b2), "calls: %s" % calls)
