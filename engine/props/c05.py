"""C05 — the VM gives any conforming bytecode its documented instruction semantics.

R5.op        every eval_* handler's successful paths conform to the S1 row of its opcode (values popped in
             which order, where each flows, constant kinds demanded, ip effect, frames built).
R5.dispatch  eval_opcode maps each OpCode variant to its own handler with its own operands; no wildcard.
R5.truthy    Pointer::evaluate_as_condition: Null, false falsy; everything else truthy (through eval_branch).
R5.init      State::from: globals = Slot globals initialised to null, functions = Method globals by name,
             entry frame with `locals` nulls and no return address, ip = entry start.
R5.agnostic  the VM compares names only with the built-in method spellings; labels resolve through the map.
R5.spellings built-in tables contain the Feeny spellings with the same action as their operator twins (C09).
R5.arity     an argument-count comparison precedes every frame push / built-in result.
"""
from .. import anchors as A
from ..facts import walk_body, loc, peel, callee_name
from ..symex import lit, TRUE, FALSE
from ..symdbg import fmt_term
from . import c05_vm as V

LEVEL = "other"
I = "bytecode::interpreter::"

DISPATCH = {
    "Literal": ("eval_literal", ["index"]), "GetLocal": ("eval_get_local", ["index"]), "SetLocal": ("eval_set_local", ["index"]),
    "GetGlobal": ("eval_get_global", ["name"]), "SetGlobal": ("eval_set_global", ["name"]), "Object": ("eval_object", ["class"]),
    "Array": ("eval_array", []), "GetField": ("eval_get_field", ["name"]), "SetField": ("eval_set_field", ["name"]),
    "CallMethod": ("eval_call_method", ["name", "arguments"]), "CallFunction": ("eval_call_function", ["name", "arguments"]),
    "Label": ("eval_label", []), "Print": ("eval_print", ["format", "arguments"]), "Jump": ("eval_jump", ["label"]),
    "Branch": ("eval_branch", ["label"]), "Return": ("eval_return", []), "Drop": ("eval_drop", []),
}


def run(ck, fx, cg, tier):
    ck.explanation = (
        "Structural conformance of every opcode handler to the abstract machine S1. Each eval_* function (with the "
        "state-component methods it calls inlined down to Vec/HashMap/slice primitives on the State's fields) is "
        "executed symbolically; every successful path is normalised to abstract-machine events and compared with "
        "the opcode's S1 row: which values are popped in which order and where each flows, which constant kind is "
        "demanded, the ip effect (next / label address through the label map / method start), the frame built by "
        "calls ([receiver] ++ arguments in call order ++ null×locals, return to the instruction after the call), "
        "Return restoring the saved address, Branch polarity per truthiness case. Plus: the dispatcher maps each "
        "opcode to its own handler with its own operands; State::from initialises globals to null, indexes functions "
        "by name and builds the entry frame; the VM knows no compiler-private names. Necessary, and close to "
        "sufficient for straight-line instruction semantics; heap/HashMap implementations and run-time values are "
        "not decided.")
    ck.trusted_base = ["rustc resolution/type check", "fml-facts dumper", "symbolic executor + std models", "abstract VM S1 (DESIGN §3.0)"]
    V.op_rules(ck, fx, cg, "R5.op")
    V.object_rules(ck, fx, cg, "R5.op")
    _dispatch(ck, fx)
    _init(ck, fx)
    _agnostic(ck, fx, cg)
    _call_object_method(ck, fx)
    V.orientation_rules(ck, fx, cg, "R5.component")
    # R5.spellings: the Feeny spellings of the built-in methods behave like their operator twins
    from . import c09
    c09.run(ck, fx, cg, tier, feeny=True, rule="R5.spellings")


def _dispatch(ck, fx):
    b = fx.body(A.get("eval_opcode"))
    if not ck.anchor("R5.dispatch", "eval_opcode", b):
        return
    ck.fn(b["path"])
    ms = [n for n, ps in walk_body(b) if n.get("k") == "Match" and n.get("src") == "Normal"]
    if not ck.anchor("R5.dispatch", "match on the opcode", ms or None):
        return
    m = ms[0]
    adt = fx.adts.get("bytecode::bytecode::OpCode")
    variants = [v["name"] for v in adt["variants"]] if adt else []
    seen = {}
    for arm in m["arms"]:
        pat = arm["pat"]
        v = (pat.get("res") or {}).get("variant")
        if v is None:
            ck.ob("R5.dispatch", "arm|%s" % pat["k"], False, loc(arm["pat"]), "dispatcher has a wildcard/binding arm: an opcode could be handled by the wrong handler")
            continue
        body = peel(arm["body"])
        callee = callee_name(body) if body.get("k") == "Call" else None
        want, operands = DISPATCH.get(v, (None, None))
        ok = callee == I + want if want else False
        # operands: the pattern's bindings flow to the handler in order
        binds = {}
        for f in pat.get("fields", []):
            if f["pat"].get("k") == "Binding":
                binds[f["pat"]["lid"]] = f["name"]
        passed = []
        for a in body.get("args", []) if body.get("k") == "Call" else []:
            a = peel(a)
            if a.get("k") == "Path" and a["res"].get("k") == "Local" and a["res"]["lid"] in binds:
                passed.append(binds[a["res"]["lid"]])
        ok = ok and passed == operands
        seen[v] = True
        ck.ob("R5.dispatch", v, ok, loc(arm["pat"]), "%s → %s(%s); expected %s(%s)" % (v, (callee or "?").rsplit("::", 1)[-1], ", ".join(passed), want, ", ".join(operands or [])))
    ck.ob("R5.dispatch", "all opcodes dispatched", set(seen) == set(variants) and len(variants) == 17, loc(m), "%d of %d opcode variants have their own arm" % (len(seen), len(variants)))


def _init(ck, fx):
    name = A.get("state.from")
    ex, paths, err = V.handler_paths(fx, name, [("var", "program")])
    if not ck.anchor("R5.init", "State::from", paths):
        if err:
            ck.ob("R5.init", "State::from", False, "", "template extraction failed: %s" % err)
        return
    ck.fn(name)
    oks = [p for p in paths if p["out"][0] == "val" and p["out"][1][0] == "ok"]
    if not oks:
        ck.ob("R5.init", "State::from", False, "", "no successful path")
        return
    for i, p in enumerate(oks):
        st = p["out"][1][1]
        f = dict(st[3]) if st[0] == "ctor" else {}
        s = fmt_term(st)
        problems = []
        fs = f.get("frame_stack")
        ip = f.get("instruction_pointer")
        # globals initial value: the closure in GlobalFrame::from clones `initial`
        all_eff = list(V._all_effects(p["eff"]))
        glob_init = [e for e in all_eff if False]
        txt = "\n".join(fmt_term(e["res"]) if e.get("res") else "" for e in all_eff)
        # entry frame
        pushes = [e for e in all_eff if e["k"] == "call" and V.suffix(e) == "push" and "Frame" in fmt_term(e["args"][2] if len(e["args"]) > 2 else ())]
        if len(pushes) != 1:
            problems.append("%d frames pushed at start" % len(pushes))
        else:
            fr = pushes[0]["args"][2]
            ff = dict(fr[3]) if fr[0] == "ctor" else {}
            if ff.get("return_address") != ("none",):
                problems.append("entry frame has a return address (an entry method ending in return would not stop)")
            lt = fmt_term(ff.get("locals"))
            if "'locals'" not in lt:
                problems.append("entry frame size is not the entry method's locals (%s)" % lt[:80])
        # instruction pointer: entry start (or none for an empty entry)
        ips = fmt_term(ip)
        if not ("'start'" in ips or "InstructionPointer" in ips):
            problems.append("ip is not initialised from the entry method's start address: %s" % ips[:80])
        ck.ob("R5.init", "State::from|path%d" % i, not problems, "", "entry frame / ip initialised per S1" if not problems else "; ".join(problems))
    # globals are created as Null: the initial value handed to GlobalFrame::from, and from() stores it for every name
    b = fx.body(name)
    init_ok = False
    for n, ps in walk_body(b):
        if n.get("k") == "Call" and callee_name(n) == "bytecode::state::GlobalFrame::from" and len(n["args"]) == 2:
            a = peel(n["args"][1])
            init_ok = a.get("k") == "Path" and a["res"].get("variant") == "Null"
            ck.ob("R5.init", "globals start as null", init_ok, loc(n), "initial global value is %s" % (a["res"].get("variant") if a.get("k") == "Path" else a.get("k")))
    ex2, gp, err2 = V.handler_paths(fx, "bytecode::state::GlobalFrame::from", [("var", "names"), ("var", "initial")])
    if ck.anchor("R5.init", "GlobalFrame::from", gp):
        good = False
        for p in gp:
            if not (p["out"][0] == "val" and isinstance(p["out"][1], tuple) and p["out"][1][:1] == ("ok",)):
                continue
            for e in p["eff"]:
                if e["k"] == "foreach" and e["args"][0][0] == "iter" and e["args"][0][1] == ("var", "names") and all((x[0] if isinstance(x, tuple) else x) == "map" for x in e["args"][0][3]):
                    # either collected as (name, initial) pairs or inserted name ↦ initial on every continuing pass
                    per = []
                    for q in e.get("paths", []):
                        r = q["out"][1] if q["out"][0] == "val" else None
                        pair = isinstance(r, tuple) and r[:1] == ("tuple",) and r[1][0] == e.get("elem") and r[1][1] == ("var", "initial")
                        ins = [c for c in q["eff"] if c["k"] == "call" and V.suffix(c) == "insert" and len(c["args"]) == 4]
                        per.append(pair or (len(ins) == 1 and ins[0]["args"][2] == e.get("elem") and ins[0]["args"][3] == ("var", "initial")
                                            and V.mentions(p["out"][1], ins[0]["args"][1])))
                    good = bool(per) and all(per)
        ck.ob("R5.init", "every declared global maps to the initial value", good, "", "GlobalFrame::from builds (name, initial) pairs: %s" % good)
    # only Slot globals become variables, only Method globals become functions (filter predicates)
    filt = []
    for n, ps in walk_body(b):
        if n.get("k") == "MethodCall" and n["name"] == "filter":
            for x, _ in __import__("engine.facts", fromlist=["walk"]).walk(n["args"][0]):
                if x.get("k") == "MethodCall" and x["name"] in ("is_slot", "is_method"):
                    filt.append(x["name"])
    if sorted(filt) != ["is_method", "is_slot"]:
        # decided on the paths instead: a pass over the program's globals contributes an element to a collection only
        # under `is_slot` (the variables) resp. `is_method` (the functions); `.filter(p)` and `if p { v.push(..) }` alike
        gates = []
        for p in oks[:1]:
            for e in V._all_effects(p["eff"]):
                if e["k"] != "foreach":
                    continue
                contributing, idle = set(), set()
                for q in e.get("paths", []):
                    def _g(c):
                        t = fmt_term(c["args"][0])
                        el = fmt_term(e.get("elem")) if e.get("elem") else "?"
                        return {g for g, v in (("is_slot", "Slot"), ("is_method", "Method")) if (g + "(" in t or ("is_variant(" in t and ", '%s')" % v in t)) and el in t}
                    gate_t = {g for c in q["eff"] if c["k"] == "assume" and c["args"][1] == TRUE for g in _g(c)}
                    gate_f = {g for c in q["eff"] if c["k"] == "assume" and c["args"][1] != TRUE for g in _g(c)}
                    gives = (q["out"][0] == "val" and e.get("driver") == "collect" and q["out"][1] != ("lit", None)) or any(c["k"] == "call" and V.suffix(c) == "push" for c in q["eff"])
                    if not (gate_t or gate_f):
                        continue
                    if gives:
                        contributing |= gate_t if gate_t else {"(ungated)"}
                    else:
                        idle |= gate_f
                if contributing:
                    gates.append((sorted(contributing), sorted(idle)))
        sem_ok = sorted(g[0][0] for g in gates if len(g[0]) == 1) == ["is_method", "is_slot"] and len(gates) == 2 and all(
            (not idle) or idle == c for c, idle in gates)
        ck.ob("R5.init", "slots → variables, methods → functions", sem_ok, loc(b), "passes over the globals contribute under: %s" % gates)
    else:
        ck.ob("R5.init", "slots → variables, methods → functions", True, loc(b), "global partition predicates: %s" % filt)


def _agnostic(ck, fx, cg):
    """no compiler-private spelling in the VM's reachable set; labels only through the map"""
    roots = cg.dids_of(A.get("evaluate_with")) + cg.dids_of(A.get("state.from"))
    reach = cg.reachable(roots)
    private = ("λ:", "if:", "loop:", "::size_", "::array_", "::i_", "if:consequent", "if:end", "loop:body", "loop:condition")
    bad = []
    n = 0
    for d in reach:
        hb = fx.hir_by_did.get(d)
        if not hb or hb["from_expansion"]:
            continue
        for node, ps in walk_body(hb):
            if node.get("k") == "Lit" and node["lit"].get("t") == "str":
                n += 1
                v = node["lit"]["v"]
                if any(v.startswith(p) or v == p for p in private):
                    bad.append((hb["path"], v, loc(node)))
    ck.ob("R5.agnostic", "no compiler-private names in the VM", not bad, bad[0][2] if bad else "", "%d string literals examined; private spellings: %s" % (n, bad or "none"))
    ck.floor("R5.agnostic", "string literals examined", n, 1)
    _execute_wiring(ck, fx)
    # Print: "the printed output equals the abstract machine's" includes how values are rendered (shared sub-objects print,
    # only self-containing values fail): C15's renderer rules
    from . import shared as _sh
    _sh.presuppose(ck, fx, cg, "C15", lambda o: o["rule"] == "R15.render", "R5.op", "Print|values are rendered as documented (C15 renderer rules)", floor=3)
    # … and the format itself is scanned as the instruction's documentation says (placeholders, escapes, text verbatim
    # — for every format string, not only those the compiler's front end lets through)
    _sh.presuppose(ck, fx, cg, "C15", lambda o: o["rule"].startswith("R15.fsm"), "R5.op", "Print|the format is scanned as documented (C15 scanner rules)", floor=10)


def _call_object_method(ck, fx):
    name = "eval_call_object_method"
    ex, paths, err = V.handler_paths(fx, name)
    if not ck.anchor("R5.op", name, paths):
        return
    ck.fn(I + name)
    for i, p in enumerate(V.ok_paths(paths)):
        evs = V.events(p["eff"])
        R = V.Row()
        sk = V.state_kinds(evs)
        R.need(sk == ["ip_bump", "frame_push", "ip_set"], "state effects %s, expected [ip_bump, frame_push, ip_set]" % sk)
        fp = [e for e in evs if e["e"] == "frame_push"]
        ip = [e for e in evs if e["e"] == "ip_set"]
        if fp and fp[0]["val"][0] == "ctor":
            f = dict(fp[0]["val"][3])
            locs = f.get("locals")
            m = ("var", "method")
            nl = ("app", "cast", (lit("usize"), V.fld(("app", "proj", (m, lit("Method"), lit("locals"))), "0")))
            want = ("app", "concat", (("app", "array", (("var", "pointer"),)), ("var", "argument_pointers"), ("app", "vec_repeat", (V.NULLP, nl))))
            R.need(locs == want, "frame is not [receiver] ++ arguments ++ null×locals: %s" % fmt_term(locs)[:200])
            ra = f.get("return_address")
            R.need(ra is not None and ra[0] == "sym" and ra[2] == "ip_after_bump", "return address is not the instruction after the call")
        if ip:
            R.need(ip[0]["val"] == ("some", V.fld(("app", "proj", (("var", "method"), lit("Method"), lit("code"))), "start")), "ip is not set to the method's start address")
        R.need(V.assumed(p["eff"], "ne(len(argument_pointers)", False), "R5.arity: argument count is not compared with the method's parameter count")
        ck.ob("R5.op", name + ("|path%d" % i if i else ""), not R.problems, evs[0]["at"] if evs else "", "conforms to the S1 row (user method call)" if not R.problems else "; ".join(R.problems))


def _execute_wiring(ck, fx):
    """`fml execute FILE`: the program that is evaluated is the one deserialised from the selected input, evaluated once,
    by the same entry `run` uses."""
    from ..facts import walk, peel
    from ..census import local_of
    b = fx.body(A.get("cli.interpret"))
    if not ck.anchor("R5.wiring", "BytecodeInterpreterAction::interpret", b):
        return
    ck.fn(b["path"])
    lets = {}
    for n, ps in walk_body(b):
        if n.get("k") == "Block":
            for st in n["block"]["stmts"]:
                if st["k"] == "Let" and st["pat"].get("k") == "Binding" and "init" in st:
                    lets[st["pat"]["lid"]] = st["init"]

    def calls_in(e):
        return [(callee_name(x) or x.get("name"), x) for x, _ in walk(e) if x.get("k") in ("Call", "MethodCall")]
    ev = [n for n, ps in walk_body(b) if n.get("k") == "Call" and callee_name(n) == A.get("evaluate_mem")]
    ok_ev = len(ev) == 1
    prog = local_of(ev[0]["args"][0]) if ok_ev else None
    ok_prog = ok_src = False
    if prog and prog[0] in lets:
        des = [x for c, x in calls_in(lets[prog[0]]) if c == A.get("cli.bc.deserialize")]
        if len(des) == 1:
            ok_prog = True
            arg = peel(des[0]["args"][-1])
            while arg.get("k") in ("AddrOf", "Unary"):
                arg = peel(arg["e"])
            src = local_of(arg)
            if src and src[0] in lets:
                ok_src = any((c or "").endswith("::selected_input") for c, _ in calls_in(lets[src[0]]))
    ck.ob("R5.wiring", "execute: selected input → deserialize → evaluate", ok_ev and ok_prog and ok_src, loc(b),
          "evaluated exactly once by the shared entry: %s; the evaluated program is the deserialised one: %s; it is read from the selected input: %s" % (ok_ev, ok_prog, ok_src))
