"""VM-side template rules shared by C05 / C10 / C12 / C13 / C14 / C15.

Every eval_* handler is executed symbolically down to std primitives on the State's fields
(engine/vm_scheme.py). The effects of each successful path are normalised into abstract-machine
events (pop / peek / push / popn / frame ops / ip ops / global, function, label, constant lookups /
alloc / deref) and compared with the S1 row of the opcode."""
from .. import anchors as A
from ..symex import lit, TRUE, FALSE, UNIT
from ..symdbg import fmt_term
from ..vm_scheme import run_fn, VMClient
from ..facts import loc

I = "bytecode::interpreter::"
STATE = ("var", "state")
PROGRAM = ("var", "program")


def fld(b, n):
    return ("app", "field", (b, lit(n)))


OS = fld(fld(STATE, "operand_stack"), "0")
FR = fld(fld(STATE, "frame_stack"), "frames")
GL = fld(fld(fld(STATE, "frame_stack"), "globals"), "0")
FN = fld(fld(fld(STATE, "frame_stack"), "functions"), "0")
IPF = fld(STATE, "instruction_pointer")
HEAP = fld(STATE, "heap")
HEAPM = fld(HEAP, "memory")
CP = fld(fld(PROGRAM, "constant_pool"), "0")
LB = fld(fld(PROGRAM, "labels"), "names")
NULLP = ("ctor", "bytecode::heap::Pointer", "Null", ())

_cache = {}


CANON_BY_TYPE = [("&bytecode::program::Program", "program"), ("&mut bytecode::state::State", "state"),
                 ("&bytecode::program::ConstantPoolIndex", "index"), ("&bytecode::program::LocalFrameIndex", "index"),
                 ("&bytecode::program::Arity", "arguments"), ("&mut W", "output")]
CANON_BY_POS = {
    "dispatch_method": ["program", "state", "receiver_pointer", "method_name", "argument_pointers"],
    "dispatch_object_method": ["program", "state", "receiver_pointer", "method_name", "argument_pointers"],
    "eval_call_object_method": ["program", "state", "method", "method_name", "pointer", "argument_pointers"],
    "dispatch_null_method": ["method_name", "argument_pointers"],
    "dispatch_integer_method": ["receiver", "method_name", "argument_pointers"],
    "dispatch_boolean_method": ["receiver", "method_name", "argument_pointers"],
    "dispatch_array_method": ["array", "method_name", "argument_pointers"],
    "dispatch_array_get_method": ["array", "method_name", "argument_pointers"],
    "dispatch_array_set_method": ["array", "method_name", "argument_pointers"],
    "bytecode::heap::ArrayInstance::get_element": ["self", "index"],
    "bytecode::heap::ArrayInstance::set_element": ["self", "index", "value_pointer"],
}


def canonical_args(fx, name):
    """parameter terms with canonical names (by position for the dispatch family, by type for eval_*), so
    that renaming a parameter in /repo does not change any rule's verdict"""
    b = fx.body(name if "::" in name else I + name)
    if b is None:
        return None
    if name in CANON_BY_POS and len(CANON_BY_POS[name]) == len(b["params"]):
        return [("var", n) for n in CANON_BY_POS[name]]
    out = []
    tys = [fx.tyname(t) or "" for t in b.get("param_tys", [])]
    for i, p in enumerate(b["params"]):
        nm = p.get("name", "p%d" % i)
        t = tys[i] if i < len(tys) else ""
        for ty, canon in CANON_BY_TYPE:
            if t == ty and name.startswith("eval_"):
                nm = canon
        out.append(("var", nm))
    return out


def handler_paths(fx, name, args=None):
    key = (id(fx), name)
    if key not in _cache:
        try:
            if args is None:
                args = canonical_args(fx, name)
            ex, paths = run_fn(fx, name if "::" in name else I + name, args)
            _cache[key] = (ex, paths, None)
        except Exception as e:  # Unsupported etc.
            _cache[key] = (None, None, "%s: %s" % (type(e).__name__, e))
    return _cache[key]


def ok_paths(paths):
    """successful paths: Ok(..), or a fallible value handed on unchanged (tail call of a fallible operation)"""
    return [p for p in paths if p["out"][0] == "val" and isinstance(p["out"][1], tuple) and p["out"][1][0] in ("ok", "fall")]


def suffix(e):
    return e["args"][0][1].rsplit("::", 1)[-1] if e["k"] == "call" else None


def events(effs):
    """normalise a path's effects to abstract-machine events"""
    out = []
    reversed_terms = set()
    for e in effs:
        k = e["k"]
        if k == "call":
            s = suffix(e)
            recv = e["args"][1] if len(e["args"]) > 1 else None
            rest = e["args"][2:]
            res = e.get("res")
            val = ("payload", res) if isinstance(res, tuple) and res and res[0] == "fall" else res
            if recv == OS:
                if s == "pop":
                    out.append({"e": "pop", "res": res, "val": val, "at": e["at"]})
                elif s == "push":
                    out.append({"e": "push", "val": rest[0], "at": e["at"]})
                elif s in ("last", "last_mut"):
                    out.append({"e": "peek", "res": res, "val": val, "at": e["at"]})
                else:
                    out.append({"e": "os_other", "op": s, "at": e["at"]})
            elif recv == FR:
                if s == "push":
                    from ..symex import resolve_built
                    out.append({"e": "frame_push", "val": resolve_built(rest[0], effs), "at": e["at"]})
                elif s == "pop":
                    out.append({"e": "frame_pop", "res": res, "val": val, "at": e["at"]})
                elif s in ("last", "last_mut"):
                    out.append({"e": "frame_top", "res": res, "val": val, "at": e["at"]})
                else:
                    out.append({"e": "frames_other", "op": s, "at": e["at"]})
            elif recv == GL:
                out.append({"e": "glob_" + s, "key": rest[0] if rest else None, "arg": rest[1] if len(rest) > 1 else None, "res": res, "val": val, "at": e["at"]})
            elif recv == FN:
                out.append({"e": "fn_" + s, "key": rest[0] if rest else None, "res": res, "val": val, "at": e["at"]})
            elif recv == CP:
                out.append({"e": "cp_get", "idx": rest[0] if rest else None, "res": res, "val": val, "at": e["at"]})
            elif recv == LB:
                out.append({"e": "label_get", "key": rest[0] if rest else None, "res": res, "val": val, "at": e["at"]})
            elif recv == HEAPM:
                out.append({"e": "deref", "idx": rest[0] if rest else None, "res": res, "val": val, "mut": s.endswith("mut"), "op": s, "at": e["at"]})
            elif s == "new_adhoc" or "anyhow" in e["args"][0][1]:
                continue
            else:
                out.append({"e": "call", "op": s, "recv": recv, "args": rest, "res": res, "val": val, "at": e["at"], "path": e["args"][0][1]})
        elif k == "set_field":
            b, f, v = e["args"]
            if b == IPF and f == lit("0"):
                out.append({"e": "ip_set", "val": v, "at": e["at"]})
            else:
                out.append({"e": "set_field", "base": b, "field": f[1], "val": v, "at": e["at"]})
        elif k == "store_index":
            out.append({"e": "store_index", "base": e["args"][0], "idx": e["args"][1], "val": e["args"][2], "at": e["at"], "checked": e.get("checked")})
        elif k == "ip_bump":
            out.append({"e": "ip_bump", "at": e["at"]})
        elif k == "alloc":
            out.append({"e": "alloc", "obj": e["args"][1], "res": e["res"], "at": e["at"]})
        elif k == "reverse":
            out.append({"e": "reverse", "val": e["args"][0], "at": e["at"]})
        elif k == "foreach" and not e.get("taken_exit"):
            out.append({"e": "foreach", "eff": e, "iter": e["args"][0], "bodies": [events(p["eff"]) for p in e.get("paths", [])],
                        "results": e.get("results", []), "at": e["at"]})
        elif k in ("render", "dispatch", "builtin", "redispatch"):
            out.append({"e": k, "args": e["args"], "res": e.get("res"), "val": ("payload", e.get("res")), "at": e["at"]})
        elif k in ("default_on_fail", "discard_err"):
            out.append({"e": k, "val": e["args"][0], "at": e["at"]})
    return out


def assumes(effs):
    return [(e["args"][0], e["args"][1] == TRUE) for e in effs if e["k"] == "assume"]


def mentions(t, sub):
    if t == sub:
        return True
    if isinstance(t, tuple):
        return any(mentions(x, sub) for x in t if isinstance(x, tuple))
    return False


def popn(ev):
    """foreach over 0..n whose body pops once, collected → {'n': term, 'seq': term, 'order': 'pop'}"""
    if ev["e"] != "foreach":
        return None
    it = ev["iter"]
    if it[0] != "iter" or it[1][0] != "ctor" or not (it[1][1] or "").endswith("Range"):
        return None
    if it[2] != "fwd":
        return None
    bodies = ev["bodies"]
    if len(bodies) != 1:
        return None
    kinds = [b["e"] for b in bodies[0]]
    into = ev["eff"].get("pushes_into")
    if into is not None:
        # the explicit loop `for _ in 0..n { v.push(stack.pop()?) }` (canonicalised to a collect by the executor)
        if kinds != ["pop", "call"] or bodies[0][1].get("op") != "push" or bodies[0][1].get("recv") != into:
            return None
    elif kinds != ["pop"]:
        return None
    if ev["results"] != [bodies[0][0]["val"]]:
        return None
    f = dict(it[1][3])
    if f.get("start") != lit(0):
        return None
    cr = ev["eff"].get("collect_result")
    seq = ("payload", cr) if cr else None
    if into is not None:
        seq = ("app", "collected", (lit(ev["eff"].get("loop")),))
    coll = ("app", "collected", (lit(ev["eff"].get("loop")),))
    return {"n": f.get("end"), "seq": seq, "order": "pop", "alts": [x for x in (seq, coll) if x is not None]}


def canon_seq(pn, t):
    """rewrite either spelling of the popped sequence (`payload(<collect result>)` after a `.map`, `collected(loop)`
    after a `?`) to pn['seq'] inside term t"""
    if t in pn["alts"]:
        return pn["seq"]
    if isinstance(t, tuple):
        return tuple(canon_seq(pn, x) if isinstance(x, tuple) else x for x in t)
    return t


def strip_cast(t):
    while isinstance(t, tuple) and t and t[0] == "app" and t[1] == "cast":
        t = t[2][1]
    return t


def const_string(evs, operand):
    """cp_get(operand.0) whose payload is assumed String → name term; returns (event, name) or None"""
    for e in evs:
        if e["e"] == "cp_get" and strip_cast(e["idx"]) == fld(operand, "0"):
            return e, ("app", "proj", (e["val"], lit("String"), lit("0")))
    return None


class Row:
    """collects problems for one S1 row"""

    def __init__(self):
        self.problems = []

    def need(self, cond, msg):
        if not cond:
            self.problems.append(msg)
        return cond


def kinds(evs):
    return [e["e"] for e in evs]


def state_kinds(evs):
    """events that change / read the abstract machine state, in order"""
    keep = {"pop", "peek", "push", "frame_push", "frame_pop", "frame_top", "ip_set", "ip_bump", "alloc", "foreach",
            "glob_get", "glob_insert", "dispatch", "store_index", "os_other", "frames_other", "default_on_fail", "discard_err"}
    return [e["e"] for e in evs if e["e"] in keep]


# ----------------------------------------------------------------------------------- S1 rows

def row_literal(fx, p, evs, R):
    R.need(state_kinds(evs) == ["push", "ip_bump"], "state effects %s, expected [push, ip_bump]" % state_kinds(evs))
    c = [e for e in evs if e["e"] == "cp_get"]
    R.need(len(c) == 1 and strip_cast(c[0]["idx"]) == fld(("var", "index"), "0"), "does not read the constant at the operand index")
    pu = [e for e in evs if e["e"] == "push"]
    if c and pu:
        v = pu[0]["val"]
        R.need(v[0] == "ctor" and v[2] in ("Null", "Integer", "Boolean"), "pushed value is not a literal pointer: %s" % fmt_term(v))
        if v[0] == "ctor" and v[2] in ("Integer", "Boolean"):
            R.need(v[3][0][1] == ("app", "proj", (c[0]["val"], lit(v[2]), lit("0"))), "pushed payload is not the constant's payload (%s)" % fmt_term(v))
        a = [x for x, val in assumes(p["eff"]) if val and x[0] == "app" and x[1] == "is_variant" and x[2][0] == c[0]["val"]]
        R.need(a and v[0] == "ctor" and a[-1][2][1] == lit(v[2]), "constant kind and pushed kind differ")


def checked_access(effs, v):
    """(sequence, index) when v is the payload of `sequence.get(index)` / `get_mut(index)` — a checked access"""
    if isinstance(v, tuple) and v[:1] == ("payload",):
        for e in _all_effects(effs):
            if e["k"] == "call" and e.get("res") == v[1] and suffix(e) in ("get", "get_mut") and len(e["args"]) == 3:
                return e["args"][1], e["args"][2]
    return None


def row_get_local(fx, p, evs, R):
    R.need(state_kinds(evs) == ["frame_top", "push", "ip_bump"], "state effects %s, expected [frame_top, push, ip_bump]" % state_kinds(evs))
    ft = [e for e in evs if e["e"] == "frame_top"]
    pu = [e for e in evs if e["e"] == "push"]
    if ft and pu:
        want = ("app", "index", (fld(ft[0]["val"], "locals"), None))
        v = pu[0]["val"]
        ok = v[0] == "app" and v[1] == "index" and v[2][0] == fld(ft[0]["val"], "locals") and mentions(v[2][1], fld(("var", "index"), "0"))
        chk = checked_access(p["eff"], v)
        if chk is not None and chk[0] == fld(ft[0]["val"], "locals") and mentions(chk[1], fld(("var", "index"), "0")):
            return      # `locals.get(operand)` — the element, and its absence is the failure: value and bounds check in one
        R.need(ok, "pushed value is not locals[operand] of the current frame: %s" % fmt_term(v))
        R.need(any((not val) and "ge(" in fmt_term(c) and "len(" in fmt_term(c) for c, val in assumes(p["eff"])) or
               any(val and "lt(" in fmt_term(c) and "len(" in fmt_term(c) for c, val in assumes(p["eff"])),
               "no bounds check of the local index against the frame size")


def row_set_local(fx, p, evs, R):
    R.need(state_kinds(evs) == ["peek", "frame_top", "store_index", "ip_bump"], "state effects %s, expected [peek, frame_top, store, ip_bump]" % state_kinds(evs))
    pk = [e for e in evs if e["e"] == "peek"]
    ft = [e for e in evs if e["e"] == "frame_top"]
    stx = [e for e in evs if e["e"] == "store_index"]
    if pk and ft and stx:
        R.need(stx[0]["base"] == fld(ft[0]["val"], "locals") and mentions(stx[0]["idx"], fld(("var", "index"), "0")), "does not store into locals[operand] of the current frame")
        R.need(stx[0]["val"] == pk[0]["val"], "stored value is not the (peeked) top of stack: %s" % fmt_term(stx[0]["val"]))
        R.need(any("len(" in fmt_term(c) for c, val in assumes(p["eff"])) or stx[0].get("checked") is not None, "no bounds check of the local index")


def row_get_global(fx, p, evs, R):
    R.need(state_kinds(evs) == ["glob_get", "push", "ip_bump"], "state effects %s, expected [glob_get, push, ip_bump]" % state_kinds(evs))
    cs = const_string(evs, ("var", "index"))
    g = [e for e in evs if e["e"] == "glob_get"]
    pu = [e for e in evs if e["e"] == "push"]
    if R.need(cs is not None, "name is not the String constant at the operand index") and g and pu:
        R.need(g[0]["key"] == cs[1], "global looked up under a different key")
        R.need(pu[0]["val"] == g[0]["val"], "pushed value is not the global's value")


def row_set_global(fx, p, evs, R):
    R.need(state_kinds(evs) == ["peek", "glob_insert", "ip_bump"], "state effects %s, expected [peek, glob_insert, ip_bump]" % state_kinds(evs))
    cs = const_string(evs, ("var", "index"))
    g = [e for e in evs if e["e"] == "glob_insert"]
    pk = [e for e in evs if e["e"] == "peek"]
    if R.need(cs is not None, "name is not the String constant at the operand index") and g and pk:
        R.need(g[0]["key"] == cs[1], "global stored under a different key")
        R.need(g[0]["arg"] == pk[0]["val"], "stored value is not the (peeked) top of stack")
        # undeclared global must fail: success path assumes the insert replaced something
        R.need(any("is_ok" in fmt_term(c) and mentions(c, g[0]["res"]) for c, val in assumes(p["eff"])),
               "assignment to an undeclared global is not detected (insert result unchecked)")


def row_drop(fx, p, evs, R):
    R.need(state_kinds(evs) == ["pop", "ip_bump"], "state effects %s, expected [pop, ip_bump]" % state_kinds(evs))


def row_label(fx, p, evs, R):
    R.need(state_kinds(evs) == ["ip_bump"], "state effects %s, expected [ip_bump]" % state_kinds(evs))


def row_jump(fx, p, evs, R):
    R.need(state_kinds(evs) == ["ip_set"], "state effects %s, expected [ip_set]" % state_kinds(evs))
    cs = const_string(evs, ("var", "index"))
    lg = [e for e in evs if e["e"] == "label_get"]
    ip = [e for e in evs if e["e"] == "ip_set"]
    if R.need(cs is not None, "label name is not the String constant at the operand index") and R.need(len(lg) == 1, "label is not resolved through the label map") and ip:
        R.need(lg[0]["key"] == cs[1], "label looked up under a different name")
        R.need(ip[0]["val"] == ("some", lg[0]["val"]), "ip is not set to the label's address: %s" % fmt_term(ip[0]["val"]))


WORLDS = (("Null", None, False), ("Integer", None, True), ("Boolean", True, True), ("Boolean", False, False), ("Reference", None, True))


def _in_world(t, popped, kind, payload):
    """three-valued value of a condition term when the popped value is `kind` (with that Boolean payload): True / False /
    None (does not depend on the popped value's kind, or cannot be told)"""
    if t == TRUE:
        return True
    if t == lit(False):
        return False
    if not isinstance(t, tuple) or t[0] != "app":
        return None
    op, a = t[1], t[2]
    if op == "is_variant" and a[0] == popped:
        return a[1][1] == kind
    if op == "proj" and a[0] == popped and a[1] == lit("Boolean") and kind == "Boolean":
        return payload
    if op == "not":
        v = _in_world(a[0], popped, kind, payload)
        return None if v is None else (not v)
    if op in ("or", "and"):
        vs = [_in_world(x, popped, kind, payload) for x in a]
        if op == "or":
            return True if any(v is True for v in vs) else (False if all(v is False for v in vs) else None)
        return False if any(v is False for v in vs) else (True if all(v is True for v in vs) else None)
    if op in ("eq", "ne") and len(a) == 2:
        x, y = (_in_world(a[0], popped, kind, payload), _in_world(a[1], popped, kind, payload))
        if x is None or y is None:
            return None
        return (x == y) if op == "eq" else (x != y)
    return None


def truthiness(p, popped):
    """S1 truthiness of the popped value on this path, decided world by world: the kinds of value (Null, Integer,
    Boolean(true), Boolean(false), Reference) this path's conditions admit must all have the same S1 truthiness.
    → (True/False/None(mixed or none), [case names])"""
    admitted = []
    for kind, payload, truthy in WORLDS:
        ok = True
        for c, val in assumes(p["eff"]):
            v = _in_world(c, popped, kind, payload)
            if v is not None and v != val:
                ok = False
                break
        if ok:
            admitted.append(("%s(%s)" % (kind, str(payload).lower()) if kind == "Boolean" else kind, truthy))
    truths = {t for _, t in admitted}
    if len(truths) != 1:
        return None, [k for k, _ in admitted]
    return truths.pop(), [k for k, _ in admitted]


def row_branch(fx, p, evs, R):
    sk = state_kinds(evs)
    pops = [e for e in evs if e["e"] == "pop"]
    if not R.need(len(pops) == 1 and sk[0] == "pop", "does not pop exactly the condition first (%s)" % sk):
        return
    truth, kinds_ = truthiness(p, pops[0]["val"])
    if not R.need(truth is not None, "this path serves conditions of different S1 truthiness, or none (%s)" % kinds_):
        return
    kind = "/".join(kinds_)
    if truth:
        cs = const_string(evs, ("var", "index"))
        lg = [e for e in evs if e["e"] == "label_get"]
        ip = [e for e in evs if e["e"] == "ip_set"]
        R.need(sk == ["pop", "ip_set"] and cs and lg and ip and lg[0]["key"] == cs[1] and ip[0]["val"] == ("some", lg[0]["val"]),
               "truthy condition (%s) does not jump to the operand's label (effects %s)" % (kind, sk))
    else:
        R.need(sk == ["pop", "ip_bump"], "falsy condition (%s) does not fall through to the next instruction (effects %s)" % (kind, sk))
    R.case = "%s→%s" % (kind, "jump" if truth else "next")
    R.cases = ["%s→%s" % (k, "jump" if truth else "next") for k in kinds_]


def row_return(fx, p, evs, R):
    R.need(state_kinds(evs) == ["frame_pop", "ip_set"], "state effects %s, expected [frame_pop, ip_set]" % state_kinds(evs))
    fp = [e for e in evs if e["e"] == "frame_pop"]
    ip = [e for e in evs if e["e"] == "ip_set"]
    if fp and ip:
        R.need(ip[0]["val"] == fld(fp[0]["val"], "return_address"), "ip is not restored from the popped frame's return address: %s" % fmt_term(ip[0]["val"]))


def row_get_field(fx, p, evs, R):
    R.need(state_kinds(evs) == ["pop", "push", "ip_bump"], "state effects %s, expected [pop, push, ip_bump]" % state_kinds(evs))
    cs = const_string(evs, ("var", "index"))
    pops = [e for e in evs if e["e"] == "pop"]
    dr = [e for e in evs if e["e"] == "deref"]
    gets = [e for e in evs if e["e"] == "call" and e["op"] == "get"]
    pu = [e for e in evs if e["e"] == "push"]
    if R.need(cs and pops and dr and gets and pu, "missing constant/pop/deref/field lookup/push"):
        R.need(mentions(dr[0]["idx"], pops[0]["val"]), "dereferenced object is not the popped value")
        R.need(gets[0]["args"][0] == cs[1] and mentions(gets[0]["recv"], dr[0]["val"]) and "'fields'" in fmt_term(gets[0]["recv"]), "field not looked up by the operand's name in the object's fields")
        R.need(pu[0]["val"] == gets[0]["val"], "pushed value is not the field's value")


def row_set_field(fx, p, evs, R):
    R.need(state_kinds(evs) == ["pop", "pop", "push", "ip_bump"], "state effects %s, expected [pop, pop, push, ip_bump]" % state_kinds(evs))
    cs = const_string(evs, ("var", "index"))
    pops = [e for e in evs if e["e"] == "pop"]
    dr = [e for e in evs if e["e"] == "deref"]
    ins = [e for e in evs if e["e"] == "call" and e["op"] == "insert"]
    pu = [e for e in evs if e["e"] == "push"]
    if R.need(cs and len(pops) == 2 and dr and ins and pu, "missing constant/pops/deref/field store/push"):
        value, host = pops[0]["val"], pops[1]["val"]
        R.need(mentions(dr[0]["idx"], host) and not mentions(dr[0]["idx"], value), "host object is not the SECOND popped value (value first, then host)")
        R.need(dr[0]["mut"], "object is not dereferenced mutably in place")
        R.need(ins[0]["args"][0] == cs[1] and ins[0]["args"][1] == value and "'fields'" in fmt_term(ins[0]["recv"]) and mentions(ins[0]["recv"], dr[0]["val"]),
               "does not store the first popped value under the operand's name in the host's fields")
        R.need(pu[0]["val"] == value, "pushed value is not the stored value")
        R.need(any(mentions(c, ins[0]["res"]) for c, val in assumes(p["eff"])) or any(e["k"] == "assume_ok" and e["args"][0] == ins[0]["res"] for e in p["eff"]),
               "storing into a field the object does not have is not detected (insert result unchecked)")


def row_array(fx, p, evs, R):
    R.need(state_kinds(evs) == ["pop", "pop", "alloc", "push", "ip_bump"], "state effects %s, expected [pop, pop, alloc, push, ip_bump]" % state_kinds(evs))
    pops = [e for e in evs if e["e"] == "pop"]
    al = [e for e in evs if e["e"] == "alloc"]
    pu = [e for e in evs if e["e"] == "push"]
    if R.need(len(pops) == 2 and al and pu, "missing pops/alloc/push"):
        init, size = pops[0]["val"], pops[1]["val"]
        obj = al[0]["obj"]
        s = fmt_term(obj)
        n = ("app", "proj", (size, lit("Integer"), lit("0")))
        R.need(mentions(obj, ("app", "vec_repeat", (init, ("app", "cast", (lit("usize"), n))))) or (mentions(obj, init) and mentions(obj, n) and "vec_repeat" in s),
               "array is not built from the FIRST popped value (initializer) repeated SECOND popped value (size) times: %s" % s[:160])
        R.need(any(c == ("app", "lt", (n, lit(0))) and not val for c, val in assumes(p["eff"])) or any(c == ("app", "ge", (n, lit(0))) and val for c, val in assumes(p["eff"])),
               "negative size is not rejected before the allocation")
        R.need(pu[0]["val"][0] == "ctor" and pu[0]["val"][2] == "Reference" and mentions(pu[0]["val"], al[0]["res"]), "pushed value is not a reference to the new array")


def row_call_function(fx, p, evs, R):
    sk = state_kinds(evs)
    R.need(sk == ["foreach", "ip_bump", "frame_push", "ip_set"], "state effects %s, expected [popn, ip_bump, frame_push, ip_set]" % sk)
    cs = const_string(evs, ("var", "index"))
    fg = [e for e in evs if e["e"] == "fn_get"]
    cps = [e for e in evs if e["e"] == "cp_get"]
    fe = [e for e in evs if e["e"] == "foreach"]
    fp = [e for e in evs if e["e"] == "frame_push"]
    ip = [e for e in evs if e["e"] == "ip_set"]
    if not R.need(cs and fg and len(cps) == 2 and fe and fp and ip, "missing name/function lookup/method constant/pops/frame/ip"):
        return
    R.need(fg[0]["key"] == cs[1], "function looked up under a different name")
    m = cps[1]["val"]
    R.need(mentions(cps[1]["idx"], fg[0]["val"]), "method constant is not the one registered for the function")
    pn = popn(fe[0])
    if R.need(pn is not None, "arguments are not popped as one counted sequence"):
        R.need(strip_cast(pn["n"]) == fld(("var", "arguments"), "0"), "number of popped values is not the instruction's arity")
        rev = [e for e in evs if e["e"] == "reverse" and e["val"] in pn["alts"]]
        R.need(len(rev) % 2 == 1, "popped arguments are not restored to push (call) order before they enter the frame")
        fr = fp[0]["val"]
        f = dict(fr[3]) if fr[0] == "ctor" else {}
        locs = f.get("locals")
        nl = ("app", "cast", (lit("usize"), fld(("app", "proj", (m, lit("Method"), lit("locals"))), "0")))
        want = ("app", "concat", (pn["seq"], ("app", "vec_repeat", (NULLP, nl))))
        R.need(locs is not None and canon_seq(pn, locs) == canon_seq(pn, want), "frame is not [arguments…] ++ null×locals: %s" % fmt_term(locs)[:200])
        ra = f.get("return_address")
        bump_i = sk.index("ip_bump") if "ip_bump" in sk else 99
        R.need(ra is not None and ra[0] == "sym" and ra[2] == "ip_after_bump" and bump_i < sk.index("frame_push"), "return address is not the instruction after the call")
    R.need(any(cc[0] == "app" and cc[1] == "ne" and not tt and mentions(cc, ("var", "arguments")) and "'parameters'" in fmt_term(cc)
               for c, val in assumes(p["eff"]) for cc, tt in spellings(c, val)),
           "argument count is not compared with the function's parameter count")
    R.need(ip[0]["val"] == ("some", fld(("app", "proj", (m, lit("Method"), lit("code"))), "start")), "ip is not set to the function's start address")


def row_call_method(fx, p, evs, R):
    sk = state_kinds(evs)
    R.need(sk == ["foreach", "pop", "dispatch"], "state effects %s, expected [popn(arity-1), pop receiver, dispatch]" % sk)
    cs = const_string(evs, ("var", "index"))
    fe = [e for e in evs if e["e"] == "foreach"]
    pops = [e for e in evs if e["e"] == "pop"]
    dp = [e for e in evs if e["e"] == "dispatch"]
    if not R.need(cs and fe and pops and dp, "missing name/pops/dispatch"):
        return
    pn = popn(fe[0])
    if R.need(pn is not None, "arguments are not popped as one counted sequence"):
        n = strip_cast(pn["n"])
        R.need(n == ("app", "sub", (("app", "cast", (lit("usize"), fld(("var", "arguments"), "0"))), lit(1))), "pops %s values, expected arity - 1" % fmt_term(n))
        rev = [e for e in evs if e["e"] == "reverse" and e["val"] in pn["alts"]]
        R.need(len(rev) % 2 == 1, "popped arguments are not restored to push (call) order")
        a = dp[0]["args"]
        R.need(a[2] == pops[0]["val"] and a[3] == cs[1] and a[4] in pn["alts"], "dispatch does not receive (receiver = last popped, operand's name, arguments in call order)")
    R.need(any((fmt_term(c).startswith("eq(cast('usize', field(arguments, '0')), 0)") and not val) or ("gt(" in fmt_term(c) and val) for c, val in assumes(p["eff"])),
           "arity 0 (no receiver) is not rejected")


def row_print(fx, p, evs, R):
    sk = state_kinds(evs)
    cs = const_string(evs, ("var", "index"))
    fes = [e for e in evs if e["e"] == "foreach"]
    R.need(cs is not None, "format is not the String constant at the operand index")
    if not R.need(len(fes) == 2 and sk[:2] == ["foreach", "foreach"], "expected popn followed by one loop over the format's characters (effects %s)" % sk):
        return
    pn = popn(fes[0])
    if R.need(pn is not None, "arguments are not popped as one counted sequence"):
        R.need(strip_cast(pn["n"]) == fld(("var", "arguments"), "0"), "number of popped values is not the instruction's arity")
        rev = [e for e in evs if e["e"] == "reverse" and e["val"] in pn["alts"]]
        modes = take_modes(p["eff"])
        if modes <= {"back"}:
            R.need(len(rev) % 2 == 0, "argument list must stay in pop order because placeholders take arguments from its back")
        elif modes == {"front"}:
            R.need(len(rev) % 2 == 1, "argument list must be restored to call order because placeholders take arguments from its front")
        else:
            R.need(False, "placeholders take arguments from the list in an unrecognised way (%s)" % sorted(modes))
    it = fes[1]["iter"]
    R.need(it[0] == "iter" and it[2] == "fwd" and it[1] == ("app", "chars", (cs[1],)) if cs else False, "format is not scanned forwards character by character")
    pu = [e for e in evs if e["e"] == "push"]
    R.need(sk[2:] == ["push", "ip_bump"] and pu and pu[0]["val"] == NULLP, "does not end with push(null), ip_bump (effects %s)" % sk[2:])


ROWS = {
    "eval_literal": row_literal, "eval_get_local": row_get_local, "eval_set_local": row_set_local,
    "eval_get_global": row_get_global, "eval_set_global": row_set_global, "eval_drop": row_drop,
    "eval_label": row_label, "eval_jump": row_jump, "eval_branch": row_branch, "eval_return": row_return,
    "eval_get_field": row_get_field, "eval_set_field": row_set_field, "eval_array": row_array,
    "eval_call_function": row_call_function, "eval_call_method": row_call_method, "eval_print": row_print,
}


def op_rules(ck, fx, cg, rule="R5.op"):
    n = 0
    for name, fn in sorted(ROWS.items()):
        ex, paths, err = handler_paths(fx, name)
        if not ck.anchor(rule, name, paths):
            if err:
                ck.ob(rule, name, False, "", "template extraction failed (unprovable): %s" % err)
            continue
        ck.fn(I + name)
        oks = ok_paths(paths)
        if not oks:
            ck.ob(rule, name, False, "", "no successful path")
            continue
        n += 1
        cases = []
        for i, p in enumerate(oks):
            evs = events(p["eff"])
            R = Row()
            fn(fx, p, evs, R)
            case = getattr(R, "case", "path%d" % i)
            cases.extend(getattr(R, "cases", [case]))
            key = "%s|%s" % (name, case) if len(oks) > 1 else name
            at = next((e["at"] for e in evs if e.get("at")), "")
            ck.ob(rule, key, not R.problems, at, "conforms to the S1 row" if not R.problems else "; ".join(R.problems))
        if name == "eval_branch":
            want = {"Null→next", "Integer→jump", "Boolean(true)→jump", "Boolean(false)→next", "Reference→jump"}
            ck.ob(rule, "eval_branch|truthiness cases", set(cases) == want, "", "cases %s, expected %s" % (sorted(cases), sorted(want)))
        if len(ck.samples) < 30:
            ck.sample({"rule": rule, "handler": name, "success_paths": len(oks), "events": [e["e"] for e in events(oks[0]["eff"])][:14]})
    ck.floor(rule, "handlers with an S1 row", n, 16)


# ----------------------------------------------------------------------------------- eval_object

def object_rules(ck, fx, cg, rule="R5.op"):
    ex, paths, err = handler_paths(fx, "eval_object")
    if not ck.anchor(rule, "eval_object", paths):
        return
    ck.fn(I + "eval_object")
    oks = ok_paths(paths)
    for i, p in enumerate(oks):
        evs = events(p["eff"])
        R = Row()
        sk = state_kinds(evs)
        fes = [e for e in evs if e["e"] == "foreach"]
        pops = [e for e in evs if e["e"] == "pop"]
        al = [e for e in evs if e["e"] == "alloc"]
        pu = [e for e in evs if e["e"] == "push"]
        # loops: members lookup (collect), classification, slot pops (rev)
        slot_loops = [f for f in fes if any("pop" in kinds(b) for b in f["bodies"])]
        if R.need(len(slot_loops) == 1, "expected exactly one loop that pops one value per slot"):
            sl = slot_loops[0]
            it = sl["iter"]
            R.need(it[0] == "iter" and it[2] == "rev", "slot values are popped while walking the slots FORWARDS: the first slot would receive the top of the stack")
            R.need(all(kinds(b).count("pop") == 1 for b in sl["bodies"]), "a slot does not pop exactly one value")
            # the iterated collection is the Vec the Slot arm pushes names into, in class order
            vec = it[1]
            cls_loops = [f for f in fes if f is not sl and any(any(e["e"] == "call" and e["op"] == "push" and e["recv"] == vec for e in b) for b in f["bodies"])]
            if R.need(len(cls_loops) == 1, "slot names are not collected by one loop over the class members"):
                cit = cls_loops[0]["iter"]
                R.need(cit[0] == "iter" and cit[2] == "fwd", "class members are not walked in class order")
            # parent popped after all slots
            R.need(sk.count("pop") == 1 and sk.index("pop") > sk.index("foreach") and evs.index(pops[-1]) > evs.index(sl), "parent is not popped after the slot values")
            if al and pops:
                R.need(mentions(al[0]["obj"], pops[-1]["val"]), "popped parent does not become the object's parent")
        R.need(sk[-3:] == ["alloc", "push", "ip_bump"], "does not end with alloc, push, ip_bump (%s)" % sk[-3:])
        if al and pu:
            R.need(pu[0]["val"][0] == "ctor" and pu[0]["val"][2] == "Reference" and mentions(pu[0]["val"], al[0]["res"]), "pushed value is not a reference to the new object")
        cps = [e for e in evs if e["e"] == "cp_get"]
        R.need(cps and strip_cast(cps[0]["idx"]) == fld(("var", "index"), "0") and any(c == ("app", "is_variant", (cps[0]["val"], lit("Class"))) and v for c, v in assumes(p["eff"])),
               "operand is not checked to be a Class constant")
        ck.ob(rule, "eval_object|path%d" % i if len(oks) > 1 else "eval_object", not R.problems, evs[0]["at"] if evs else "",
              "slots filled in class order from values in push order, parent below them, object allocated and pushed" if not R.problems else "; ".join(R.problems))


# ----------------------------------------------------------------------------------- orientation (R13.vm)

def orientation_rules(ck, fx, cg, rule="R13.vm"):
    for name, want_rev in (("bytecode::state::OperandStack::pop_sequence", 1), ("bytecode::state::OperandStack::pop_reverse_sequence", 0)):
        ex, paths, err = handler_paths(fx, name, [("var", "self"), ("var", "n")])
        if not ck.anchor(rule, name, paths):
            continue
        ck.fn(name)
        oks = ok_paths(paths)
        good = False
        why = "no success path"
        for p in oks:
            fe = [e for e in p["eff"] if e["k"] == "foreach"]
            if len(fe) != 1:
                why = "%d loops" % len(fe)
                continue
            e = fe[0]
            it = e["args"][0]
            pops = [x for bp in e.get("paths", []) for x in bp["eff"] if x["k"] == "call" and x["args"][0][1].endswith("::pop")]
            revs = [x for x in p["eff"] if x["k"] == "reverse"]
            rng = it[0] == "iter" and it[1][0] == "ctor" and dict(it[1][3]).get("start") == lit(0) and dict(it[1][3]).get("end") == ("var", "n") and it[2] == "fwd"
            good = rng and len(pops) == 1 and len(revs) % 2 == want_rev
            why = "pops n values (%s), %d reversal(s): result is in %s order" % (rng, len(revs), "push" if len(revs) % 2 else "pop")
        ck.ob(rule, name.rsplit("::", 1)[-1], good, "", why + ("; expected %s order" % ("push (call)" if want_rev else "pop")))


def fresh_frame_rules(ck, fx, cg, rule="R12.fresh"):
    for name in ("eval_call_function", "eval_call_object_method"):
        ex, paths, err = handler_paths(fx, name)
        if not ck.anchor(rule, name, paths):
            continue
        for i, p in enumerate(ok_paths(paths)):
            evs = events(p["eff"])
            fp = [e for e in evs if e["e"] == "frame_push"]
            ok = False
            why = "no frame is pushed"
            if len(fp) == 1 and fp[0]["val"][0] == "ctor":
                locs = dict(fp[0]["val"][3]).get("locals")
                s = fmt_term(locs)
                ok = locs is not None and locs[0] == "app" and locs[1] == "concat" and locs[2][-1][0] == "app" and locs[2][-1][1] == "vec_repeat" and locs[2][-1][2][0] == NULLP
                why = "frame locals = %s" % s[:140]
            ck.ob(rule, name + ("|path%d" % i if i else ""), ok, evs[0]["at"] if evs else "", why + ("" if ok else " — each call must build a new frame whose locals start as null"))


# ----------------------------------------------------------------------------------- faults (R10.faults)

def fault_rules(ck, fx, cg, rule="R10.faults"):
    """No handler path recovers from a failed machine-state primitive: every path on which a pop /
    lookup / kind test / bounds test failed ends in Err (or a panic), and no default-on-miss idiom
    (unwrap_or, map_or, .ok()) is applied to a machine-state primitive."""
    names = sorted(ROWS) + ["eval_object", "dispatch_method", "dispatch_object_method", "eval_call_object_method",
                            "dispatch_array_get_method", "dispatch_array_set_method", "dispatch_array_method",
                            "dispatch_null_method", "dispatch_integer_method", "dispatch_boolean_method"]
    extra = ["bytecode::heap::ObjectInstance::get_field", "bytecode::heap::ObjectInstance::set_field",
             "bytecode::heap::ArrayInstance::get_element", "bytecode::heap::ArrayInstance::set_element",
             "bytecode::heap::Pointer::as_usize", "bytecode::heap::Pointer::as_i32", "bytecode::heap::Pointer::into_heap_reference",
             "bytecode::heap::Pointer::from_literal", "bytecode::state::GlobalFrame::get", "bytecode::state::GlobalFrame::update",
             "bytecode::state::GlobalFunctions::get", "bytecode::state::Frame::get", "bytecode::state::Frame::set",
             "bytecode::state::OperandStack::pop", "bytecode::state::OperandStack::peek", "bytecode::state::FrameStack::pop",
             "bytecode::state::FrameStack::get_locals", "bytecode::state::FrameStack::get_locals_mut",
             "bytecode::program::Labels::get", "bytecode::program::ConstantPool::get", "bytecode::program::Code::get",
             "bytecode::heap::Heap::dereference", "bytecode::heap::Heap::dereference_mut",
             "bytecode::program::ProgramObject::as_str", "bytecode::program::ProgramObject::as_class_definition"]
    n = 0
    n_fail_paths = 0
    for name in names + extra:
        ex, paths, err = handler_paths(fx, name)
        if paths is None:
            if name in extra or err:
                ck.anchor(rule, name, None) if not err else ck.ob(rule, name, False, "", "template extraction failed (unprovable): %s" % err)
            continue
        n += 1
        ck.fn(name if "::" in name else I + name)
        short = name.rsplit("::", 2)[-2] + "::" + name.rsplit("::", 1)[-1] if "::" in name else name
        defaults = []
        swallowed = []
        for p in paths:
            failed = [e for e in p["eff"] if e["k"] == "assume_fail"]
            # conditions learned negatively on a fallible machine value: is_ok(x) = False
            failed += [e for e in p["eff"] if e["k"] == "assume" and e["args"][0][0] == "app" and e["args"][0][1] in ("is_ok", "is_some") and e["args"][1] == FALSE
                       and _is_lookup(p["eff"], e["args"][0][2][0])]
            dflt = [e for e in _all_effects(p["eff"]) if e["k"] in ("default_on_fail", "discard_err") or (
                e["k"] == "recover" and not _recv_mentions(p["eff"], e, "'methods'"))]
            if dflt:
                defaults += dflt
            out = p["out"]
            completes = out[0] == "val" and not (isinstance(out[1], tuple) and out[1] and out[1][0] in ("err", "none"))
            if failed:
                n_fail_paths += 1
                # a missing *method* is not a fault by itself: S1 delegates the call to the parent object
                delegated = any(e["k"] in ("dispatch", "redispatch") for e in p["eff"])
                failed = [e for e in failed if not (delegated and _recv_mentions(p["eff"], e, "'methods'"))]
                if failed and completes and not _is_dup_check(failed):
                    swallowed.append((failed[0], out))
        ck.ob(rule, "%s|no default on miss" % short, not defaults, defaults[0]["at"] if defaults else "",
              "no default-on-miss idiom" if not defaults else "a failed lookup/pop is replaced by a default value (%s) instead of failing" % fmt_term(defaults[0]["args"][0])[:80])
        ck.ob(rule, "%s|failures propagate" % short, not swallowed, swallowed[0][0]["at"] if swallowed else "",
              "every path with a failed primitive ends in Err" if not swallowed else
              "a path on which %s failed completes normally with %s" % (fmt_term(swallowed[0][0]["args"][0])[:60], fmt_term(swallowed[0][1][1])[:60]))
    ck.floor(rule, "handlers / components examined", n, 17)
    ck.floor(rule, "failure paths examined", n_fail_paths, 10)


def _recv_mentions(effs, e, text):
    v = e["args"][0]
    if isinstance(v, tuple) and v and v[0] == "app":
        v = v[2][0]
    for c in _all_effects(effs):
        if c["k"] == "call" and c.get("res") == v and len(c["args"]) > 1:
            return text in fmt_term(c["args"][1])
    return False


_NEG = {"eq": "ne", "ne": "eq", "lt": "ge", "ge": "lt", "gt": "le", "le": "gt"}


def spellings(c, val):
    """the equivalent spellings of one assumption: `eq(a,b)` assumed False is `ne(a,b)` assumed True, `not(x)` assumed
    True is x assumed False, … — yields (condition, truth) pairs, the original first"""
    truth = bool(val == TRUE or val is True)
    seen = []

    def add(cc, tt):
        if (cc, tt) not in seen:
            seen.append((cc, tt))
    add(c, truth)
    cur, t = c, truth
    while isinstance(cur, tuple) and cur[:2] == ("app", "not") and len(cur[2]) == 1:
        cur, t = cur[2][0], not t
        add(cur, t)
    if isinstance(cur, tuple) and cur[:1] == ("app",) and cur[1] in _NEG and len(cur[2]) == 2:
        add(("app", _NEG[cur[1]], cur[2]), not t)
        add(("app", "not", (cur,)), not t)
    return seen


def assumed(effs, text, want):
    """is there an assumption on the path that, in one of its equivalent spellings, contains `text` with truth `want`?"""
    for c, val in assumes(effs):
        for cc, tt in spellings(c, val):
            if text in fmt_term(cc) and tt == want:
                return True
    return False


def take_modes(effs):
    """How a handler takes values out of a local (non operand-stack) sequence: 'back' (Vec::pop, next on a reversed
    iterator, next_back), 'front' (next on a forward iterator, remove(0)). Returns the set of modes seen."""
    modes = set()
    for c in _all_effects(effs):
        if c["k"] != "call" or len(c["args"]) < 2:
            continue
        s = suffix(c)
        recv = c["args"][1]
        if "operand_stack" in fmt_term(recv):
            continue
        if s == "pop" and len(c["args"]) == 2:
            modes.add("back")
        elif s in ("next", "next_back") and isinstance(recv, tuple) and recv and recv[0] == "iter":
            fwd = recv[2] == "fwd"
            modes.add("front" if fwd == (s == "next") else "back")
        elif s == "remove" and len(c["args"]) == 3:
            modes.add("front" if c["args"][2] == lit(0) else "?")
        elif s in ("pop_front",):
            modes.add("front")
        elif s in ("pop_back",):
            modes.add("back")
    return modes


def nonempty_assumed(cond, val):
    """does assuming `cond == val` mean 'a sequence still has elements'?  (is_empty / len compared with 0)"""
    s = fmt_term(cond)
    neg = False
    while s.startswith("not("):
        s = s[4:-1]
        neg = not neg
    truth = (val == TRUE) != neg
    if s.startswith("is_empty("):
        return not truth
    for op, when in (("ne(len(", True), ("gt(len(", True), ("ge(len(", None), ("eq(len(", False), ("le(len(", False), ("lt(len(", None)):
        if s.startswith(op) and s.endswith(", 0)") and when is not None:
            return truth == when
    if s.startswith("ge(len(") and s.endswith(", 1)"):
        return truth
    if s.startswith("lt(len(") and s.endswith(", 1)"):
        return not truth
    return False


def _is_lookup(effs, v):
    for e in _all_effects(effs):
        if e["k"] == "call" and e.get("res") == v:
            s = suffix(e)
            return s in ("get", "get_mut", "pop", "last", "last_mut", "first", "remove")
    return False


def _is_dup_check(failed):
    """`insert(..)` returning None is the *success* case of a uniqueness test, not a failure"""
    return all("insert" in fmt_term(e["args"][0]) for e in failed)


def _all_effects(effs):
    for e in effs:
        yield e
        if e["k"] in ("foreach", "loop"):
            for bp in e.get("paths", []) + e.get("exits", []) + e.get("elem_fail", []):
                yield from _all_effects(bp["eff"])


# ----------------------------------------------------------------------------------- fault rows (explicit detections)

def fault_rows(ck, fx, cg, rule="R10.faults"):
    """Each fault class of the statement has a detection that fails: (class, handler, predicate on paths)."""
    def has_err_with(paths, pred):
        for p in paths:
            o = p["out"]
            # the component hands the fallible lookup result to its caller unchanged (who `?`s it)
            if o[0] == "val" and isinstance(o[1], tuple) and o[1][0] == "fall" and pred({"k": "assume_fail", "args": (o[1],)}):
                return True
        for p in paths:
            out = p["out"]
            failing = (out[0] == "val" and isinstance(out[1], tuple) and out[1][0] == "err") or out[0] == "panic"
            if failing and any(pred(e) for e in _all_effects(p["eff"])):
                return True
        return False

    def assume_pred(text, val=None):
        def f(e):
            if e["k"] != "assume":
                return False
            return any(text in fmt_term(cc) and (val is None or tt == val) for cc, tt in spellings(e["args"][0], e["args"][1]))
        return f

    def fail_pred(op):
        def f(e):
            if e["k"] != "assume_fail":
                return False
            v = e["args"][0]
            return isinstance(v, tuple) and v[0] == "fall" and v[3] == op
        return f

    def either(*preds):
        return lambda e: any(pr(e) for pr in preds)

    def bounds(text):
        """an out-of-range index is detected by a comparison with the length or by a checked access (`get` / `get_mut`)"""
        return either(assume_pred(text, True), assume_pred("lt(", False), fail_pred("get"), fail_pred("get_mut"),
                      assume_pred("is_some(fall", False), assume_pred("is_none(fall", True))

    rows = [
        ("unknown variable (read)", "bytecode::state::GlobalFrame::get", fail_pred("get")),
        ("unknown variable (assignment)", "bytecode::state::GlobalFrame::update", assume_pred("is_ok", None)),
        ("unknown function", "bytecode::state::GlobalFunctions::get", fail_pred("get")),
        ("unknown field (read)", "bytecode::heap::ObjectInstance::get_field", fail_pred("get")),
        ("unknown field (assignment)", "bytecode::heap::ObjectInstance::set_field", fail_pred("insert")),
        ("index out of range (get)", "bytecode::heap::ArrayInstance::get_element", bounds("ge(index, len(")),
        ("index out of range (set)", "bytecode::heap::ArrayInstance::set_element", bounds("ge(index, len(")),
        ("negative index", "bytecode::heap::Pointer::as_usize", assume_pred("ge(", False)),
        ("wrong operand kind (integer expected)", "bytecode::heap::Pointer::as_i32", assume_pred("is_variant(self, 'Integer')", False)),
        ("wrong operand kind (reference expected)", "bytecode::heap::Pointer::into_heap_reference", assume_pred("is_variant(self, 'Reference')", False)),
        ("negative array size", "eval_array", assume_pred("lt(", True)),
        ("function arity mismatch", "eval_call_function", assume_pred("ne(arguments", True)),
        ("method arity mismatch", "eval_call_object_method", assume_pred("ne(len(argument_pointers)", True)),
        ("empty operand stack", "bytecode::state::OperandStack::pop", fail_pred("pop")),
        ("empty frame stack", "bytecode::state::FrameStack::pop", fail_pred("pop")),
        ("missing label", "bytecode::program::Labels::get", fail_pred("get")),
        ("local index out of frame", "bytecode::state::Frame::get", bounds("ge(")),
        ("constant index out of pool", "bytecode::program::ConstantPool::get", fail_pred("get")),
        ("unknown method on an object without parent", "dispatch_object_method", assume_pred("is_variant(", None)),
    ]
    for cls, name, pred in rows:
        ex, paths, err = handler_paths(fx, name)
        if paths is None:
            ck.ob(rule, "detect|" + cls, False, "", "anchor %s missing / not analysable (%s)" % (name, err))
            continue
        ok = has_err_with(paths, pred)
        ck.ob(rule, "detect|" + cls, ok, "", "%s: %s" % (name.rsplit("::", 1)[-1], "a failing path guarded by the detection exists" if ok else
                                                          "no failing path carries this detection — the fault would go unnoticed"))
