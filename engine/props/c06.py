"""C06 — staged parse | compile | execute equals run, for every AST interchange format.

R6.serde       AST / Identifier / Operator derive Serialize and Deserialize; no serde attribute on any field or
               variant (skip, default, rename, flatten, with, … would make the two directions asymmetric/lossy).
R6.tables      ASTSerializer::{serialize, deserialize} use the same crate per variant; extension ∘ from_extension
               is the identity on {LISP, JSON, YAML}; FromStr accepts the documented names (S7).
R6.select      explicit --format wins, else the path's extension, else INTERNAL / none.
R6.samecompile the compile action and run call the same bytecode::compile.
R6.sinks       the parse action writes exactly the serialized AST (complete write).
R6.handoff     in every CLI action the value a stage produces is the value the next stage receives (parse → serialize,
               deserialize → compile → write, parse → compile → evaluate, load → evaluate): nothing rewrites, filters or
               re-derives the program between two stages.
R6.depth       stage-boundary deserialisation of the recursive AST must not impose a nesting bound run lacks.
"""
from .. import anchors as A
from ..facts import walk_body, walk, loc, peel, callee_name, callee_def
from ..census import local_of, fmt_pieces
from ..symdbg import fmt_term
from ..tables import simple_enum_table, literal_to_value_table, find_matches, variants_in_pat, result_of

LEVEL = "other"

S7_NAMES = {"json": "JSON", "lisp": "LISP", "sexp": "LISP", "sexpr": "LISP", "yaml": "YAML", "rust": "INTERNAL", "internal": "INTERNAL", "debug": "INTERNAL"}
S7_EXT = {"LISP": "lisp", "JSON": "json", "YAML": "yaml", "INTERNAL": "internal"}
CRATE_OF = {"LISP": "serde_lexpr", "JSON": "serde_json", "YAML": "serde_yaml"}
# depth-limited deserialisation entry points (confirmed by reading the vendored crate sources)
DEPTH_LIMITED = {
    "serde_json::from_str": "serde_json::Deserializer has a recursion limit of 128 unless disable_recursion_limit() is used",
    "serde_json::from_slice": "recursion limit 128", "serde_json::from_reader": "recursion limit 128",
    "serde_yaml::from_str": "serde_yaml 0.8 has a fixed recursion limit of 128",
    "serde_yaml::from_slice": "fixed recursion limit 128", "serde_yaml::from_reader": "fixed recursion limit 128",
    "serde_lexpr::from_str": "serde_lexpr parses into a bounded-depth Value (recursion limit)",
    "serde_lexpr::from_slice": "bounded depth", "serde_lexpr::from_reader": "bounded depth",
}


def call_table(fx, body):
    """match self { V => …call… } → {variant: callee def path of the first foreign call in the arm}"""
    out = {}
    for m in find_matches(body):
        for arm in m["arms"]:
            vs = set()
            variants_in_pat(arm["pat"], vs)
            calls = [callee_def(x) for x, _ in walk(arm["body"]) if x.get("k") in ("Call", "MethodCall") and x.get("callee") and
                     (callee_def(x) or "").split("::")[0] in ("serde_json", "serde_yaml", "serde_lexpr")]
            for v in vs:
                out[v] = calls[0] if calls else None
        if out:
            return out
    return out



HANDOFF = {
    # action role: the stages in order, (suffix of the callee path, what it is)
    "cli.parse": [("TopLevelParser::parse", "the parser"), ("ASTSerializer::serialize", "the AST writer")],
    "cli.compile": [("ASTSerializer::deserialize", "the AST reader"), ("bytecode::compile", "the compiler"), ("BCSerializer::serialize", "the bytecode writer")],
    "cli.run": [("TopLevelParser::parse", "the parser"), ("bytecode::compile", "the compiler"), ("interpreter::evaluate_with_memory_config", "the VM")],
    "cli.interpret": [("BCSerializer::deserialize", "the bytecode reader"), ("interpreter::evaluate_with_memory_config", "the VM")],
}


def _handoff(ck, fx):
    """Each action is executed symbolically with its stages kept opaque (helpers of the action inlined): on the path
    where everything succeeds, the argument a stage receives must be *the value the previous stage returned* — its
    payload after `expect`/`?`, possibly borrowed — and every stage runs exactly once."""
    from ..symex import Executor, Client, State

    stages = {sfx for chain in HANDOFF.values() for sfx, _ in chain}

    class HC(Client):
        name = "handoff"
        inline_depth = 3

        def no_inline(self, path):
            return any(path.endswith(x) for x in stages)

    def strip(t):
        while isinstance(t, tuple) and t and (t[0] == "payload" or (t[0] == "app" and t[1] in ("ref", "deref", "clone", "as_ref", "borrow", "unwrap", "expect") and len(t[2]) >= 1)):
            t = t[1] if t[0] == "payload" else t[2][0]
        return t

    def label(t):
        if isinstance(t, tuple) and t[:1] == ("sym",) and isinstance(t[2], str) and t[2].startswith("ret:"):
            return t[2][4:]
        if isinstance(t, tuple) and t[:1] == ("fall",):
            return t[3]
        return None

    n = 0
    for role, chain in sorted(HANDOFF.items()):
        b = fx.body(A.get(role))
        if not ck.anchor("R6.handoff", A.get(role), b):
            continue
        ck.fn(b["path"])
        try:
            res = Executor(fx, HC()).run_body(b, [("var", "self")], State())
        except Exception as e:  # noqa
            ck.ob("R6.handoff", "%s|stages" % b["path"], False, loc(b), "cannot execute the action symbolically (unprovable): %s" % str(e)[:160])
            continue
        oks = [(st, o) for st, o in res if o[0] in ("val", "ret") and not any(e["k"] == "assume_fail" for e in st.eff)]
        if not oks:
            ck.ob("R6.handoff", "%s|stages" % b["path"], False, loc(b), "no path on which every step succeeds")
            continue
        verdicts = {}
        for pi, (st, o) in enumerate(oks):
            calls = [e for e in st.eff if e["k"] == "call"]
            prev = None
            for sfx, what in chain:
                mine = [e for e in calls if e["args"][0][1].endswith(sfx)]
                short = sfx.rsplit("::", 1)[-1]
                same_label = [e for e in calls if e["args"][0][1].rsplit("::", 1)[-1] == short]
                key = "%s|%s" % (b["path"], what)
                if len(mine) != 1 or len(same_label) != 1:
                    verdicts.setdefault(key, []).append((False, loc(b), "%s (%s) runs %d time(s) on a successful path (%d call(s) named `%s`): expected exactly once" % (what, sfx, len(mine), len(same_label), short)))
                    break
                if prev is None:
                    verdicts.setdefault(key, []).append((True, mine[0].get("at") or loc(b), "runs exactly once on every successful path"))
                else:
                    got = [label(strip(a)) for a in mine[0]["args"][1:]]
                    ok = prev in got
                    verdicts.setdefault(key, []).append((ok, mine[0].get("at") or loc(b),
                          "receives exactly what `%s` returned" % prev if ok else
                          "%s is not handed the value `%s` returned: its arguments are %s — the program is rewritten between two stages, so the staged pipeline and `run` no longer process the same program" % (what, prev, "; ".join(fmt_term(a)[:120] for a in mine[0]["args"][1:]))))
                prev = short
        for key, vs in sorted(verdicts.items()):
            bad = [v for v in vs if not v[0]]
            n += 1
            v = bad[0] if bad else vs[0]
            ck.ob("R6.handoff", key, not bad, v[1], v[2] + " (%d successful path(s))" % len(vs))
    ck.floor("R6.handoff", "stage calls examined", n, 10)

def _verbatim(ck, fx):
    """What `serialize` returns is the text the format crate produced for exactly this AST (plus, at most, trailing
    white space), and `deserialize` returns what the crate read from exactly the text it was given: symbolic
    execution of both functions per format; any other operation on the text (replace, trim, re-encode) may change
    string literals inside the AST."""
    from ..layout_scheme import run as lrun
    for v, crate in CRATE_OF.items():
        for role, arg, fn in (("cli.ast.serialize", "ast", "to_string"), ("cli.ast.deserialize", "source", "from_str")):
            key = "%s %s text passes through verbatim" % (v, role.rsplit(".", 1)[1])
            try:
                ex, paths = lrun(fx, A.get(role), [("ctor", "ASTSerializer", v, ()), ("var", arg)], track_subs=False)
            except Exception as e:
                ck.ob("R6.verbatim", key, False, "", "cannot execute symbolically (unprovable): %s" % str(e)[:120])
                continue
            oks = [p for p in paths or [] if p["out"][0] == "val" and isinstance(p["out"][1], tuple) and p["out"][1][0] == "ok"]
            why = None
            if not oks:
                why = "no successful path"
            for p in oks:
                calls = [e for e in p["eff"] if e["k"] == "call" and e["args"][0][1].split("::")[0] in ("serde_json", "serde_yaml", "serde_lexpr")]
                if len(calls) != 1 or not calls[0]["args"][0][1].startswith(crate + "::") or not calls[0]["args"][0][1].endswith("::" + fn):
                    why = "calls %s" % [c["args"][0][1] for c in calls]
                    break
                if calls[0]["args"][1:] != (("var", arg),):
                    why = "the crate is handed %s, not the %s the function was given" % (fmt_term(calls[0]["args"][1])[:80] if len(calls[0]["args"]) > 1 else "nothing", arg)
                    break
                val = p["out"][1][1]
                want = ("payload", calls[0]["res"])
                if val[0] == "fmt":
                    pieces = "".join(x[1] if x[0] == "lit" else "{}" for x in val[1])
                    if val[2] != (want,) or pieces.replace("{}", "", 1).strip() != "" or pieces.count("{}") != 1:
                        why = "the result is formatted as %r over %s" % (pieces, [fmt_term(a)[:60] for a in val[2]])
                        break
                elif val[:2] == ("app", "concat_str") and val[2][:1] == (want,) and all(x[0] == "lit" and isinstance(x[1], str) and x[1].strip() == "" for x in val[2][1:]):
                    pass        # the crate's text with trailing white space appended (`text.push('\n')`)
                elif val != want:
                    why = "the result is %s, not the crate's own result" % fmt_term(val)[:160]
                    break
            ck.ob("R6.verbatim", key, why is None, "", "one %s::%s call; its result is returned as it is" % (crate, fn) if why is None else why + " — text inside string literals of the AST can change between stages")


def _select(ck, fx):
    """Format selection is pure Option logic: it is decided by executing both selectors symbolically for each case of
    the explicit flag (and of -o), with selected_input / extension / from_extension kept as opaque calls."""
    from ..symex import Executor, Client, State

    class C(Client):
        name = "select"
        inline_depth = 6

        def no_inline(self, path):
            return path.endswith(("::selected_input", "NamedSource::extension", "ASTSerializer::from_extension"))

    def mentions(t, sub):
        if t == sub:
            return True
        if isinstance(t, tuple):
            return any(mentions(x, sub) for x in t if isinstance(x, tuple))
        return False

    def strip(t):
        while isinstance(t, tuple) and t and t[0] in ("payload", "some", "ok") and len(t) == 2:
            t = t[1]
        return t

    def outcomes(path, adt, over):
        a = fx.adts.get(adt)
        b = fx.body(path)
        if a is None or b is None:
            return None
        fields = [f["name"] for f in a["variants"][0]["fields"]]
        self_t = ("ctor", adt, None, tuple((f, over.get(f, ("var", "self." + f))) for f in fields))
        ex = Executor(fx, C())
        return [(s_, o) for s_, o in ex.run_body(b, [self_t], State()) if o[0] == "val"]

    def from_ext_call(s_, res):
        for e in s_.eff:
            if e["k"] == "call" and e["args"][0][1].endswith("ASTSerializer::from_extension") and e.get("res") == strip(res):
                return e
        return None

    def derives(s_, term, origin_pred):
        """term is computed (through calls recorded on the path) from a call satisfying origin_pred"""
        seen = set()
        work = [term]
        while work:
            t = work.pop()
            for e in s_.eff:
                if e["k"] == "call" and e.get("res") is not None and mentions(t, e["res"]) and id(e) not in seen:
                    seen.add(id(e))
                    if origin_pred(e):
                        return True
                    work.extend(e["args"][1:])
        return False

    INTERNAL = ("ctor", "ASTSerializer", "INTERNAL", ())
    # ---- compile: --input-format, else the extension of the input
    pc = A.get("cli.compile.informat")
    try:
        some = outcomes(pc, "CompilerAction", {"input_format": ("some", ("var", "F"))})
        none = outcomes(pc, "CompilerAction", {"input_format": ("none",)})
    except Exception as e:  # noqa
        some = none = None
    if ck.anchor("R6.select", "CompilerAction::selected_input_format", some):
        ok_flag = bool(some) and all(strip(o[1]) == ("var", "F") for _, o in some)
        via = [(s_, o) for s_, o in none if from_ext_call(s_, o[1]) is not None]
        ok_ext = bool(via) and all(derives(s_, from_ext_call(s_, o[1])["args"][1], lambda e: e["args"][0][1].endswith("NamedSource::extension") and derives(
            s_, e["args"][1], lambda e2: e2["args"][0][1].endswith("::selected_input"))) for s_, o in via)
        rest = [o for s_, o in none if from_ext_call(s_, o[1]) is None and o[1] != ("none",)]
        ck.ob("R6.select", "compile: --input-format, else extension of the input", ok_flag and ok_ext and not rest, loc(fx.body(pc)),
              "explicit flag wins: %s; otherwise from_extension(extension of the selected input) or nothing: %s%s" % (ok_flag, ok_ext, "" if not rest else "; other results: %d" % len(rest)))
    # ---- parse: --format, else the extension of -o, else INTERNAL
    pp = A.get("cli.parse.format")
    try:
        some = outcomes(pp, "ParserAction", {"format": ("some", ("var", "F"))})
        nn = outcomes(pp, "ParserAction", {"format": ("none",), "output": ("none",)})
        ns = outcomes(pp, "ParserAction", {"format": ("none",), "output": ("some", ("var", "P"))})
    except Exception as e:  # noqa
        some = nn = ns = None
    if ck.anchor("R6.select", "ParserAction::selected_output_format", some):
        ok_flag = bool(some) and all(strip(o[1]) == ("var", "F") for _, o in some)
        ok_dflt = bool(nn) and all(o[1] == INTERNAL for _, o in nn)
        via = [(s_, o) for s_, o in ns if from_ext_call(s_, o[1]) is not None]
        ok_ext = bool(via) and all(derives(s_, from_ext_call(s_, o[1])["args"][1], lambda e: e["args"][0][1].endswith("::extension") and mentions(e["args"][1], ("var", "P")))
                                   for s_, o in via)
        rest = [o for s_, o in ns if from_ext_call(s_, o[1]) is None and o[1] != INTERNAL]
        ck.ob("R6.select", "parse: --format, else extension of -o, else INTERNAL", ok_flag and ok_dflt and ok_ext and not rest, loc(fx.body(pp)),
              "explicit flag first: %s; no flag and no -o gives INTERNAL: %s; otherwise from_extension(extension of -o), INTERNAL when it has none: %s%s" % (
                  ok_flag, ok_dflt, ok_ext, "" if not rest else "; other results: %d" % len(rest)))


def run(ck, fx, cg, tier):
    ck.explanation = (
        "Partial by design. Decided structurally: the AST types derive both serde directions with no asymmetric or "
        "lossy attribute; the per-format tables pair each format with one crate in both directions, extension and "
        "name tables equal S7 and are mutually inverse; the format-selection logic of the parse and compile actions "
        "lets an explicit flag win, then the path's extension; compile and run share one bytecode::compile; the "
        "parse action writes exactly the serialized AST; and no stage boundary deserialises the recursive AST "
        "through a depth-limited entry point (R6.depth — three genuine findings are on file for the pinned tree). "
        "NOT decided: that every Unicode string survives each third-party format round trip (behaviour of "
        "serde_json / serde_yaml / serde_lexpr over all inputs, outside the repository), the bash wrapper `fml` (not "
        "Rust), and stdin/stdout plumbing at run time.")
    ck.trusted_base = ["rustc resolution/type check", "fml-facts dumper", "serde derive generates mutually inverse impls for attribute-free types",
                       "serde_json/serde_yaml/serde_lexpr round-trip what their own serializer emitted (not analysed)", "S7 (README)"]
    ck.assumptions = ["third-party format crates are not analysed: string fidelity through JSON/YAML/S-expressions is out of scope",
                      "the shell wrapper `fml` is not analysed"]
    # ---------------------------------------------------------------- serde derives / attributes
    for ty in ("parser::AST", "parser::Identifier", "parser::Operator"):
        a = fx.adts.get(ty)
        if not ck.anchor("R6.serde", "type " + ty, a):
            continue
        ser = any(i.get("self_adt") == ty and (i.get("trait") or "").endswith("serde::Serialize") for i in fx.impls)
        de = any(i.get("self_adt") == ty and (i.get("trait") or "").endswith("serde::Deserialize") for i in fx.impls)
        ck.ob("R6.serde", "%s derives both directions" % ty, ser and de, loc(a), "Serialize: %s, Deserialize: %s" % (ser, de))
        short = ty.rsplit("::", 1)[1]
        bad = [(h["item"], h["on"], h["text"]) for h in fx.helper_attrs
               if h["text"].startswith("#[serde") and (h["item"] == short or h["item"].startswith(short + "::"))]
        ck.ob("R6.serde", "%s has no serde attributes" % ty, not bad, loc(a), "serde attributes: %s" % (bad or "none") + ("" if not bad else " — the written and the re-read AST can differ"))
    # hand-written Serialize/Deserialize impls would need their own analysis
    manual = [i for i in fx.impls if (i.get("trait") or "").endswith(("serde::Serialize", "serde::Deserialize")) and not i.get("from_expansion") and i.get("in_src")]
    ck.ob("R6.serde", "no hand-written serde impls", not manual, "", "%d hand-written impl(s)" % len(manual))
    # ---------------------------------------------------------------- tables
    sb, db = fx.body(A.get("cli.ast.serialize")), fx.body(A.get("cli.ast.deserialize"))
    if ck.anchor("R6.tables", "ASTSerializer::serialize", sb) and ck.anchor("R6.tables", "ASTSerializer::deserialize", db):
        ck.fn(sb["path"])
        ck.fn(db["path"])
        st, dt = call_table(fx, sb), call_table(fx, db)
        for v, crate in CRATE_OF.items():
            ok = (st.get(v) or "").startswith(crate + "::to_string") and (dt.get(v) or "").startswith(crate + "::from_str")
            ck.ob("R6.tables", "%s uses %s in both directions" % (v, crate), ok, loc(sb), "writes with %s, reads with %s" % (st.get(v), dt.get(v)))
        ck.sample({"rule": "R6.tables", "serialize": st, "deserialize": dt})
        _verbatim(ck, fx)
        # … and the text a stage reads is the text it was handed: the CLI's input reader is byte-transparent (no skipping,
        # peeking-and-consuming, filtering or re-encoding between the file / stdin and the parser or deserializer)
        from . import shared as _shs
        sites = _shs.reader_transparency(fx)
        for fn_, where_, ok_, why_ in _shs.partial_source_readers(fx):
            ck.ob("R6.sources", "%s|reads the input" % fn_, ok_, where_, why_)
        for fn, where, ok, why in sites:
            ck.ob("R6.sources", "%s|input reader" % fn, ok, where, "the input reader is %s" % why if ok else
                  "the text a stage receives can differ from the text the previous stage wrote: the input reader is %s" % why)
        ck.floor("R6.sources", "places that build the CLI's input reader", len(sites), 1)
    eb = fx.body(A.get("cli.ast.extension"))
    fb = fx.body(A.get("cli.ast.from_extension"))
    if ck.anchor("R6.tables", "ASTSerializer::extension", eb) and ck.anchor("R6.tables", "ASTSerializer::from_extension", fb):
        ext = simple_enum_table(fx, eb, "ASTSerializer") or {}
        ck.ob("R6.tables", "extensions = S7", ext == S7_EXT, loc(eb), "extension table %s; S7 %s" % (ext, S7_EXT))
        tab, dflt = literal_to_value_table(fx, fb)
        inv = {}
        for l, r in (tab or {}).items():
            # Some(ASTSerializer::X)
            if r[0] == "ctor" and r[1] == "Some" and r[2] and r[2][0] == "path":
                inv[l] = r[2][1]
        want = {e: v for v, e in S7_EXT.items() if v != "INTERNAL"}
        ck.ob("R6.tables", "from_extension inverts extension on LISP/JSON/YAML", inv == want and dflt == ("path", "None"), loc(fb),
              "from_extension table %s (default %s); expected %s, default None" % (inv, dflt, want))
        lower = any(n.get("k") == "MethodCall" and n["name"] == "to_lowercase" for n, ps in walk_body(fb))
        ck.ob("R6.tables", "extension lookup is case-insensitive", lower, loc(fb), "to_lowercase applied: %s" % lower)
    nb = fx.body(A.get("cli.ast.from_str"))
    if ck.anchor("R6.tables", "FromStr for ASTSerializer", nb):
        tab, dflt = literal_to_value_table(fx, nb)
        got = {}
        for l, r in (tab or {}).items():
            if r[0] == "ctor" and r[1] == "Ok" and r[2] and r[2][0] == "path":
                got[l] = r[2][1]
        lower = any(n.get("k") == "MethodCall" and n["name"] == "to_lowercase" for n, ps in walk_body(nb))
        ck.ob("R6.tables", "format names = S7", got == S7_NAMES and lower, loc(nb), "names %s, case-insensitive: %s; S7 %s" % (got, lower, S7_NAMES))
    # ---------------------------------------------------------------- selection
    _select(ck, fx)
    # ---------------------------------------------------------------- same compile
    comp = cg.dids_of(A.get("compile.pub"))
    if ck.anchor("R6.samecompile", "bytecode::compile", comp or None):
        callers = sorted({cg.path[d] for d in cg.callers_of(comp[0])})
        ck.ob("R6.samecompile", "compile action and run share bytecode::compile", {A.get("cli.compile"), A.get("cli.run")} <= set(callers), "", "callers: %s" % callers)
        inner = cg.dids_of(A.get("compile"))
        b = fx.body(A.get("compile.pub"))
        direct = b and [callee_name(n) for n, ps in walk_body(b) if n.get("k") in ("Call", "MethodCall") and n.get("callee")] == [A.get("compile")]
        ck.ob("R6.samecompile", "bytecode::compile = compiler::compile", bool(direct), loc(b) if b else "", "thin forwarder: %s" % bool(direct))
    # ---------------------------------------------------------------- hand-off between stages
    _handoff(ck, fx)
    # ---------------------------------------------------------------- sinks
    pa = fx.body(A.get("cli.parse"))
    if ck.anchor("R6.sinks", "ParserAction::parse", pa):
        ck.fn(pa["path"])
        res = None
        for n, ps in walk_body(pa):
            if n.get("k") == "Block":
                for st in n["block"]["stmts"]:
                    if st["k"] == "Let" and st["pat"].get("k") == "Binding" and "init" in st and any(
                            callee_name(x) == A.get("cli.ast.serialize") for x, _ in walk(st["init"]) if x.get("k") in ("Call", "MethodCall")):
                        res = st["pat"]["lid"]
        writes = [n for n, ps in walk_body(pa) if n.get("k") == "MethodCall" and n["name"] in ("write_fmt", "write_all", "write")]
        ok = res is not None and len(writes) == 1 and writes[0]["name"] in ("write_fmt", "write_all")
        if ok and writes[0]["name"] == "write_fmt":
            fa = [x for x, _ in walk(writes[0]) if x.get("k") == "FormatArgs"]
            ok = len(fa) == 1 and fmt_pieces(fa[0]) == "{0}" and local_of(fa[0]["args"][0]) and local_of(fa[0]["args"][0])[0] == res
        elif ok:
            # sink.write_all(result.as_bytes())
            a0 = peel(writes[0]["args"][0])
            while a0.get("k") in ("AddrOf", "Unary") or (a0.get("k") == "MethodCall" and a0["name"] in ("as_bytes", "as_str", "as_ref", "borrow")):
                a0 = peel(a0["recv"] if a0.get("k") == "MethodCall" else a0["e"])
            ok = bool(local_of(a0)) and local_of(a0)[0] == res
        ck.ob("R6.sinks", "parse writes exactly the serialized AST", ok, loc(pa), "one complete write of the serializer's output (write!(sink, \"{}\", out) or write_all(out bytes)): %s" % ok)
        # what is parsed is the selected input
    # output files are created/truncated: a shorter output over an older, longer file must not keep its tail
    from . import shared
    n_open = 0
    for b in fx.hir:
        if b["from_expansion"] or not (b["path"].startswith("NamedSink::") or b["path"] in (A.get("cli.parse"), A.get("cli.compile"))):
            continue
        for node, ok, how in shared.write_opens(fx, b):
            n_open += 1
            ck.ob("R6.sinks", "%s|output file is truncated on open" % b["path"], ok, loc(node),
                  "opened with %s%s" % (how, "" if ok else " — an existing longer file keeps its stale tail, so the next stage reads a different AST / bytecode"))
    ck.floor("R6.sinks", "output-file opens examined", n_open, 1)
    # ---------------------------------------------------------------- sources: every stage reads its whole input, decoded as one text
    n_src = 0
    src_bodies = [b for b in fx.hir if not b["from_expansion"] and b.get("crate", "fml") == "fml" and (
        b["path"].startswith("NamedSource::") or b["path"] in (A.get("cli.parse"), A.get("cli.compile"), A.get("cli.run"), A.get("cli.execute")))]
    reads_whole = 0
    for b in src_bodies:
        n_src += 1
        for node, cd, why in shared.chunked_decodes(fx, b):
            ck.ob("R6.sources", "%s|%s" % (b["path"], cd), False, loc(node),
                  "%s decodes a piece of the input (%s): a multi-byte character split across two pieces is altered or refused, so the stage hands on a different program than `run` reads" % (cd, why))
        for n, ps in walk_body(b):
            if n.get("k") in ("Call", "MethodCall") and n.get("callee") and (n["callee"].get("def") or "") in (
                    "std::io::Read::read_to_string", "std::io::Read::read_to_end", "std::fs::read_to_string", "std::fs::read", "std::io::read_to_string"):
                reads_whole += 1
    ck.ob("R6.sources", "stage inputs are decoded as a whole", True, "", "%d source-side bodies examined, %d whole-input read(s), no chunk-wise decoding" % (n_src, reads_whole), nontrivial=False)
    ck.floor("R6.sources", "source-side bodies examined", n_src, 2)
    from .. import canary
    canary.require(ck, {"R6.sources"})
    # ---------------------------------------------------------------- output names under `-o DIRECTORY`
    # the next stage finds its input by name: `a.b.fml` must become `DIR/a.b.json`. `set_extension` replaces the LAST
    # extension, so it must be applied to the input's full file name; applied to `file_stem()` it strips a second
    # component (`a.json`), which collides with the output of the sibling program `a.fml`
    n_name = 0
    for b in fx.hir:
        if b["from_expansion"] or b.get("crate", "fml") != "fml":
            continue
        calls = {}
        for n, ps in walk_body(b):
            if n.get("k") == "MethodCall" and n.get("callee"):
                cd = callee_def(n) or ""
                if cd in ("std::path::Path::file_stem", "std::path::Path::file_name", "std::path::PathBuf::set_extension", "std::path::Path::with_extension",
                          "std::path::Path::file_prefix"):
                    calls.setdefault(cd.rsplit("::", 1)[1], n)
        if "set_extension" in calls or "with_extension" in calls:
            n_name += 1
            bad = [k for k in ("file_stem", "file_prefix") if k in calls]
            ck.ob("R6.naming", "%s|extension replaced on the full file name" % b["path"], not bad, loc(calls.get("set_extension") or calls.get("with_extension")),
                  "the output name is derived with %s" % ("file_name() + set_extension()" if not bad else
                  "%s() and then set_extension(): a second dot-separated component of the input name is lost, two inputs map to one output file and the next stage is handed another program" % bad[0]))
    ck.floor("R6.naming", "places that derive an output file name", n_name, 1)
    # ---------------------------------------------------------------- depth
    n_depth = 0
    for b in fx.hir:
        if b["from_expansion"]:
            continue
        for n, ps in walk_body(b):
            if n.get("k") in ("Call", "MethodCall") and n.get("callee"):
                cd = callee_def(n) or ""
                if cd in DEPTH_LIMITED:
                    target = (n["callee"].get("gargs") or ["?"])[-1]
                    rt = fx.ty(n) or ""
                    recursive = "parser::AST" in rt or "parser::AST" in " ".join(n["callee"].get("gargs") or [])
                    if not recursive:
                        continue
                    n_depth += 1
                    key = "%s|%s" % (b["path"], cd)
                    ck.ob("R6.depth", key, False, loc(n),
                          "%s deserialises the recursive type AST: %s — `fml compile` refuses ASTs that `fml run` accepts (deep nesting)" % (cd, DEPTH_LIMITED[cd]))
    ck.floor("R6.depth", "deserialisation entry points examined", n_depth, 0)
    ck.extra["depth_limited_entry_points"] = n_depth
