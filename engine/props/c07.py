"""C07 — parsing follows the documented precedence, associativity and layout rules.

R7.strata      the chain Operation → Disjunction → Conjunction → Comparison → Additive → Factor → Operand exists,
               each level is head:Lower (Op Lower)*, and each level's operator set equals S6.
R7.assoc       every level's action is from_binary_expression(head, tail), which is a LEFT fold whose step is
               operation(op, acc, next) = CallMethod{object: acc, name: spelling(op), arguments: [next]}.
R7.spelling    terminal text → Operator variant → as_str is the identity on the 13 spellings.
R7.sugar       a[i] / a[i] <- v build AccessArray / AssignArray with (array, index[, value]) in source order;
               field / call chains are left folds.
R7.else        then-branch of if-then-else is Expression<"closed">; the else-less form exists only for "open".
R7.lexer       skip terminals have empty actions and all five regex terminals equal the reference languages.
R7.shape       grammar side conditions used by C02 (non-empty blocks, root is Top, where functions may occur).
R7.unambiguous the crate builds ⇒ LALRPOP reported no conflicts.
"""
import re
from .. import anchors as A
from .. import grammar as G
from ..regexeq import equivalent
from ..facts import walk_body, walk, loc, peel, callee_name
from ..tables import simple_enum_table, literal_to_value_table
from ..census import local_of
from . import c07_actions as CA

LEVEL = "other"

S6_LEVELS = [  # loosest first
    ("Disjunction", "Conjunction", {"|"}),
    ("Conjunction", "Comparison", {"&"}),
    ("Comparison", "Additive", {"==", "!=", "<", ">", "<=", ">="}),
    ("Additive", "Factor", {"+", "-"}),
    ("Factor", "Operand", {"*", "/", "%"}),
]
S6_REGEX = {
    "whitespace": r"\s*",
    "comment": r"/\*([^*]|\*+[^*/])*\*+/|//[^\n]*",
    "IDENTIFIER": r"[_A-Za-z][_A-Za-z0-9]*",
    "NUMBER": r"-?[0-9]+",
    "STRING_LITERAL": r'"([^\\"]|\\[~ntr\\"])*"',
}


def _all_symbols(syms):
    for sy in syms:
        yield sy
        if getattr(sy, "group", None):
            yield from _all_symbols(sy.group)


def _alt_value(fx, g, rule_name, a):
    """the single value an alternative builds (same in every instantiation), else None"""
    per, probs = CA.alt_values(fx, g, rule_name, a)
    vs = set().union(*per.values()) if per else set()
    if probs or len(vs) != 1:
        return None
    return next(iter(vs))


def op_symbols(g, rule_name, fx=None):
    """operator nonterminal → {terminal text: Operator variant} (the variant is the value the alternative builds)"""
    r = g.rules.get(rule_name)
    out = {}
    if not r:
        return None
    for a in r.alts:
        if len(a.symbols) != 1 or a.symbols[0].kind != "nt":
            return None
        t = g.terminal_pattern(a.symbols[0].ref)
        if not t or t["regex"]:
            return None
        v = _alt_value(fx, g, rule_name, a)
        if not v or v[0] != "C" or not v[1].startswith("Operator::"):
            return None
        out[t["pattern"]] = v[1].split("::", 1)[1]
    return out


def op_symbols_deep(g, rule_name, fx=None, seen=()):
    """like op_symbols, but alternatives may delegate to other operator nonterminals (handing their value on)"""
    r = g.rules.get(rule_name)
    if not r or rule_name in seen:
        return None
    out = {}
    for a in r.alts:
        if len(a.symbols) != 1 or a.symbols[0].kind != "nt":
            return None
        ref = a.symbols[0].ref
        t = g.terminal_pattern(ref)
        v = _alt_value(fx, g, rule_name, a)
        if t and not t["regex"] and v and v[0] == "C" and v[1].startswith("Operator::"):
            sub = {t["pattern"]: v[1].split("::", 1)[1]}
        elif ref in g.rules and v == CA._freeze(CA.P(0)):
            sub = op_symbols_deep(g, ref, fx, seen + (rule_name,))
            if sub is None:
                return None
        else:
            return None
        for k, v2 in sub.items():
            if k in out and out[k] != v2:
                return None
            out[k] = v2
    return out


def run(ck, fx, cg, tier):
    ck.explanation = (
        "The grammar file is analysed as source (E4): productions, macro parameters, conditions and actions of "
        "src/fml.lalrpop are read structurally. Decided: the operator strata and their operator sets (13 operators, "
        "each at exactly one level) equal the README's precedence table; each level's action is the left fold "
        "from_binary_expression whose step builds CallMethod{object: acc, name: spelling(op), arguments: [next]} "
        "(HIR of parser/mod.rs); terminal text ↦ Operator variant ↦ as_str is the identity; index sugar builds "
        "AccessArray/AssignArray in source order; the dangling else is resolved by the open/closed parameterisation; "
        "the two skip terminals have empty actions and all five regex terminals are language-equivalent (NFA→DFA "
        "over an abstract alphabet) to the reference regexes; LALR(1) conflict-freedom is established by LALRPOP "
        "each time the crate builds. NOT decided (language-level statements over all inputs): print→reparse "
        "idempotence and decoration-insensitivity at every token boundary — the lexer and unambiguity rules are "
        "necessary conditions only.")
    ck.trusted_base = ["structural reader for the LALRPOP subset (engine/grammar.py)", "regex equivalence over an abstract alphabet (engine/regexeq.py)",
                       "LALRPOP's conflict check and longest-match lexer", "rustc resolution/type check for parser/mod.rs", "S6 (README operator table)"]
    try:
        g = G.load()
    except Exception as e:
        ck.ob("R7.strata", "grammar", False, "src/fml.lalrpop", "cannot read the grammar (unprovable): %s" % e)
        return
    if not ck.anchor("R7", "src/fml.lalrpop", g):
        return
    as_str = simple_enum_table(fx, fx.body("parser::Operator::as_str"), "parser::Operator") if fx.body("parser::Operator::as_str") else None
    ck.anchor("R7.spelling", "Operator::as_str", as_str)
    # ---------------------------------------------------------------- strata
    op_rule = g.rules.get("Operation")
    ok = bool(op_rule) and len(op_rule.alts) == 1 and [s.ref for s in op_rule.alts[0].symbols] == ["Disjunction"]
    ck.ob("R7.strata", "Operation → Disjunction", ok, "src/fml.lalrpop:%s" % (op_rule.line if op_rule else "?"), "Operation derives exactly Disjunction: %s" % ok)
    all_ops = {}
    for level, lower, want_ops in S6_LEVELS:
        r = g.rules.get(level)
        key = level
        if not r or len(r.alts) != 1:
            ck.ob("R7.strata", key, False, "", "level %s missing or has %d alternatives" % (level, len(r.alts) if r else 0))
            continue
        a = r.alts[0]
        where = "src/fml.lalrpop:%d" % a.line
        syms = a.symbols
        shape_ok = (len(syms) == 2 and syms[0].kind == "nt" and syms[0].ref == lower and syms[0].binder and
                    syms[1].kind == "group" and syms[1].rep == "*" and len(syms[1].group) == 2 and
                    syms[1].group[1].ref == lower and syms[1].group[0].kind == "nt")
        if not shape_ok:
            ck.ob("R7.strata", key, False, where, "level is not `head:%s (Op %s)*`: %s" % (lower, lower, syms))
            continue
        opnt = syms[1].group[0].ref
        ops = op_symbols(g, opnt, fx)
        if ops is None:
            ck.ob("R7.strata", key, False, where, "operator nonterminal %s is not a list of fixed tokens each building one Operator variant" % opnt)
            continue
        ck.ob("R7.strata", key, set(ops) == want_ops, where,
              "%s binds %s over %s; S6 says %s%s" % (level, sorted(ops), lower, sorted(want_ops),
                                                     "" if set(ops) == want_ops else " — operators at the wrong precedence level: %s" % sorted(set(ops) ^ want_ops)))
        for t, v in ops.items():
            if t in all_ops:
                ck.ob("R7.strata", "operator %s at one level" % t, False, where, "operator %s occurs at two levels" % t)
            all_ops[t] = v
        ck.sample({"rule": "R7.strata", "level": level, "operators": sorted(ops), "lower": lower})
    ck.ob("R7.strata", "13 operators in total", len(all_ops) == 13, "", "%d operators placed: %s" % (len(all_ops), sorted(all_ops)))
    # Operand is the bottom: Accessible | Accessible.field chain
    # ---------------------------------------------------------------- spelling round trip
    if as_str:
        for t, v in sorted(all_ops.items()):
            ck.ob("R7.spelling", "`%s`" % t, as_str.get(v) == t, "", "terminal `%s` ↦ Operator::%s ↦ as_str `%s`" % (t, v, as_str.get(v)))
        fb = fx.body("<parser::Operator as std::convert::From<&str>>::from")
        if fb:
            tab, dflt = literal_to_value_table(fx, fb)
            inv_ok = tab is not None and all(tab.get(s) == ("path", v) for v, s in as_str.items())
            ck.ob("R7.spelling", "From<&str> inverts as_str", inv_ok, loc(fb), "From<&str> table is the inverse of as_str on %d spellings: %s" % (len(as_str), inv_ok))
    # the operator *names* of `a.op(b)` and `function op (x)` come from the nonterminal `Operator`: the same table
    uses = [(rn, a.line) for rn, r in g.rules.items() for a in r.alts for sy in _all_symbols(a.symbols) if sy.kind == "nt" and sy.ref == "Operator"]
    if uses:
        om = op_symbols_deep(g, "Operator", fx)
        r_op = g.rules.get("Operator")
        where = "src/fml.lalrpop:%s" % (r_op.line if r_op else "?")
        if om is None:
            ck.ob("R7.spelling", "Operator nonterminal", False, where, "`Operator` (used by %s) is not a table of terminals / operator nonterminals (unprovable)" % sorted({u[0] for u in uses}))
        else:
            diff = {t: (om.get(t), all_ops.get(t)) for t in set(om) | set(all_ops) if om.get(t) != all_ops.get(t)}
            ck.ob("R7.spelling", "Operator nonterminal", not diff, where,
                  "method-call and definition forms name the 13 operators as the infix forms do" if not diff else
                  "`a.op(b)` / `function op (x)` name operators differently from infix `a op b` (terminal: (named, infix)): %s" % diff)
    # ---------------------------------------------------------------- literals denote themselves (R7.tree: Boolean / Unit / Number / String rows)
    # string literals: the terminal and the action that strips the quotes (C15's lexer rules) — the literal's text is part of the tree
    _sh0 = __import__("engine.props.shared", fromlist=["x"])
    _sh0.presuppose(ck, fx, cg, "C15", lambda o: o["rule"] == "R15.lexer", "R7.literals", "string literals denote their text (terminal + quote-stripping action)", floor=2)
    # ---------------------------------------------------------------- the tree every alternative builds
    # (associativity = the accumulation each operator level and each field/call chain builds; a[i] / a[i] <- v; literals;
    #  statement lists keep their first element in front)
    CA.check(ck, fx, g)
    # ---------------------------------------------------------------- dangling else
    c = g.rules.get("Conditional")
    if ck.anchor("R7.else", "Conditional", c):
        ok = False
        why = "unexpected shape"
        if c.params == ["openness"] and len(c.alts) == 2:
            a1, a2 = c.alts
            def arg_of(alt, binder):
                for s in alt.symbols:
                    if s.binder == binder:
                        return s.ref, s.args
                return None, None
            full = [a for a in c.alts if any(s.ref == "ELSE" for s in a.symbols)]
            short = [a for a in c.alts if not any(s.ref == "ELSE" for s in a.symbols)]
            if len(full) == 1 and len(short) == 1:
                then_full = arg_of(full[0], "consequent")
                else_full = arg_of(full[0], "alternative")
                cond_short = (short[0].cond or "").replace(" ", "")
                ok = (then_full == ("Expression", ['"closed"']) and else_full == ("Expression", ["openness"]) and full[0].cond is None
                      and cond_short == 'openness=="open"')
                why = "then-branch of if/else is %s, else-branch %s, else-less form guarded by `%s`" % (then_full, else_full, short[0].cond)
        ck.ob("R7.else", "Conditional<openness>", ok, "src/fml.lalrpop:%d" % c.line, why)
        # every rule that forwards openness passes it on unchanged in tail position; nothing instantiates "closed" with the short form
        closed_users = []
        for name, r in g.rules.items():
            for a in r.alts:
                for ref, args in g.refs(a):
                    if ref == "Conditional" and args != ("openness",):
                        closed_users.append((name, args))
        ck.ob("R7.else", "Conditional is only used with the caller's openness", not closed_users, "", "other instantiations: %s" % (closed_users or "none"))
    # ---------------------------------------------------------------- lexer
    skips = [t for t in g.terminals if t["skip"]]
    ck.ob("R7.lexer", "two skipped terminals with empty actions", len(skips) == 2 and all(t["name"] is None for t in skips), "",
          "skipped terminals: %s" % [(t["pattern"][:20], t["name"]) for t in skips])
    named = {t["name"]: t for t in g.terminals if t["regex"] and t["name"]}
    got = {}
    if len(skips) == 2:
        # identify by language: one equals whitespace, the other the comment language
        for t in skips:
            for label in ("whitespace", "comment"):
                try:
                    eq, w = equivalent(t["pattern"], S6_REGEX[label])
                except Exception as e:
                    eq, w = False, str(e)
                if eq:
                    got[label] = t
        for label in ("whitespace", "comment"):
            ck.ob("R7.lexer", label, label in got, "src/fml.lalrpop:%s" % (got[label]["line"] if label in got else "?"),
                  "a skipped terminal is language-equivalent to `%s`: %s" % (S6_REGEX[label], label in got))
    for name in ("IDENTIFIER", "NUMBER", "STRING_LITERAL"):
        t = named.get(name)
        if not ck.anchor("R7.lexer", "terminal " + name, t):
            continue
        try:
            eq, w = equivalent(t["pattern"], S6_REGEX[name])
        except Exception as e:
            eq, w = False, "cannot analyse: %s" % e
        ck.ob("R7.lexer", name, eq, "src/fml.lalrpop:%d" % t["line"],
              "`%s` ≡ reference `%s`" % (t["pattern"], S6_REGEX[name]) if eq else "`%s` differs from reference `%s`; distinguishing input: %r" % (t["pattern"], S6_REGEX[name], w))
    n_regex = len([t for t in g.terminals if t["regex"]])
    ck.ob("R7.lexer", "exactly five regex terminals", n_regex == 5, "", "%d regex terminals" % n_regex)
    # keyword / punctuation terminals are plain strings, pairwise distinct
    pats = [t["pattern"] for t in g.terminals if not t["regex"]]
    ck.ob("R7.lexer", "fixed tokens pairwise distinct", len(pats) == len(set(pats)) and len(pats) >= 40, "", "%d fixed tokens" % len(pats))
    # ---------------------------------------------------------------- shape side conditions (used by C02)
    _shape(ck, g)
    # ---------------------------------------------------------------- unambiguous
    ck.ob("R7.unambiguous", "LALRPOP accepted the grammar", fx.skipped_non_src > 100, "", "the crate was built for this analysis; generated parser has %d bodies (build.rs process_root().unwrap() fails on conflicts)" % fx.skipped_non_src)


def _shape(ck, g):
    """grammar side conditions used by C02/C12 — the symbol structure; what the alternatives build is R7.tree"""
    blk = g.rules.get("Block")
    ex = g.rules.get("Expressions")
    ok = False
    if blk and ex:
        builds = [a for a in blk.alts if any(s.ref == "Expressions" for s in a.symbols)]
        ok = len(builds) == 1 and any(s.ref == "Expressions" and not s.rep for s in builds[0].symbols)
        ok = ok and len(ex.alts) == 1 and ex.alts[0].symbols and ex.alts[0].symbols[0].kind == "nt" and ex.alts[0].symbols[0].rep == ""
    ck.ob("R7.shape", "Block children are non-empty", ok, "", "a block's list comes from Expressions, which has a mandatory first element (kept in front: R7.tree): %s" % ok)
    users = sorted({n for n, r in g.rules.items() for a in r.alts for ref, args in g.refs(a) if ref == "Expressions"})
    ck.ob("R7.shape", "only Block uses Expressions", users == ["Block"], "", "Expressions referenced from: %s" % users)
    top = g.rules.get("TopLevel")
    tle = g.rules.get("TopLevelExpressions")
    ok = False
    if top and tle:
        ok = top.public and len(top.alts) == 2 and sorted(len(a.symbols) for a in top.alts) == [0, 1]
        ok = ok and len(tle.alts) == 1 and tle.alts[0].symbols[0].rep == ""
    ck.ob("R7.shape", "root is Top with a non-empty child list", ok, "", "TopLevel is the public start symbol; its list has a mandatory first element or is [null] (R7.tree): %s" % ok)
    tops = sorted({n for n, r in g.rules.items() for a in r.alts for ref, args in g.refs(a) if ref in ("TopLevel", "TopLevelExpressions")})
    ck.ob("R7.shape", "only TopLevel builds AST::Top", set(tops) <= {"TopLevel"}, "", "TopLevel / TopLevelExpressions referenced from: %s" % tops)
    users = sorted({n for n, r in g.rules.items() for a in r.alts for ref, args in g.refs(a) if ref in ("FunctionDefinition", "OperatorDefinition")})
    ck.ob("R7.shape", "functions occur only at top level or as object members", set(users) <= {"TopLevelExpression", "Member"}, "", "FunctionDefinition/OperatorDefinition referenced from: %s" % users)
    mem = g.rules.get("Member")
    refs = sorted({ref for a in mem.alts for ref, args in g.refs(a)}) if mem else []
    ck.ob("R7.shape", "object members are fields or functions", refs == ["Assignment", "FunctionDefinition", "OperatorDefinition"], "", "Member ::= %s" % refs)
