"""C07 — the tree each alternative of the grammar builds (R7.tree).

Every alternative's semantic action is executed symbolically in its type-checked form (engine/actions.py: the generated
parser's `__actionN`, constructor helpers of src/parser/mod.rs followed) and the value it builds — a term over the
alternative's symbol *positions* — is compared with the tree the README documents for that syntax (table SPEC below).
The rule is independent of how an action is spelled: `AST::AssignArray{array: Box::new(array), …}`,
`AST::assign_array(array, index, v)` and a local helper all evaluate to the same term; a fold written as
`iter.fold(init, f)` or as a `for` loop updating an accumulator is the same accumulation; a list built with
`VecDeque::push_front` or with `push` + `extend` has the same contents.

An alternative is identified by its syntax (keywords / punctuation by their text, nonterminals by name), not by the
names it gives its symbols.
"""
from .. import actions as AC
from ..symex import as_left_fold, seq_build, _mentions_term
from ..symdbg import fmt_term

# ------------------------------------------------------------------ expected-value language


def _canon_seq(items):
    flat = []
    for it in items:
        if it[0] == "many" and isinstance(it[1], tuple) and it[1][:1] == ("S",):
            flat.extend(it[1][1])
        else:
            flat.append(it)
    if len(flat) == 1 and flat[0][0] == "many":
        return flat[0][1]
    return ("S", tuple(flat))


def P(i, j=None):
    return ("V", "@%d" % i if j is None else "@%d.%d" % (i, j))


def AST(variant_, **f):
    return ("C", "AST::" + variant_, {k.lstrip("_"): v for k, v in f.items()})


def ID(x):
    return ("C", "Identifier", {"0": x})


def L(v):
    return ("L", v)


def ONE(x):
    return ("one", x)


def MANY(x):
    return ("many", x)


def SEQ(*items):
    return _canon_seq(list(items))


def FOLD(init, seq, step):
    return ("F", init, seq, (step,))


ACC = ("ACC",)
EL = ("EL",)
EL0 = ("EL", 0)
EL1 = ("EL", 1)
NULL = AST("Null")
FIELD_STEP = AST("AccessField", object=ACC, field=EL)
OP_STEP = AST("CallMethod", object=ACC, name=ID(EL0), arguments=SEQ(ONE(EL1)))


LEVELS = [("Disjunction", "Conjunction"), ("Conjunction", "Comparison"), ("Comparison", "Additive"), ("Additive", "Factor"), ("Factor", "Operand")]
CHOICE = {"TopLevelExpression", "Expression", "Accessible", "Operation", "Operator", "Literal", "Member"}

# (rule, syntax of the alternative, the values it may build — one per presence/absence of its optional symbols)
SPEC = [
    ("TopLevel", ["TopLevelExpressions"], [AST("Top", _0=P(0))]),
    ("TopLevel", [], [AST("Top", _0=SEQ(ONE(NULL)))]),
    ("TopLevelExpressions", ["TopLevelExpression", "(*)", ";?"], [SEQ(ONE(P(0)), MANY(P(1)))]),
    ("Expressions", ["Expression", "(*)", ";?"], [SEQ(ONE(P(0)), MANY(P(1)))]),
    ("Block", ["begin", "end"], [NULL]),
    ("Block", ["begin", "Expressions", "end"], [AST("Block", _0=P(1))]),
    ("Operand", ["Accessible"], [P(0)]),
    ("Operand", ["Accessible", ".", "(*)", "Ident"], [FOLD(P(0), SEQ(MANY(P(2)), ONE(P(3))), FIELD_STEP)]),
    ("Field", ["Accessible", ".", "(*)", "Ident"], [FOLD(P(0), SEQ(MANY(P(2)), ONE(P(3))), FIELD_STEP)]),
    ("ParenthesizedExpression", ["(", "Expression", ")"], [P(1)]),
    ("Conditional", ["if", "Expression", "then", "Expression", "else", "Expression"], [AST("Conditional", condition=P(1), consequent=P(3), alternative=P(5))]),
    ("Conditional", ["if", "Expression", "then", "Expression"], [AST("Conditional", condition=P(1), consequent=P(3), alternative=NULL)]),
    ("Print", ["print", "(", "String", "(?)", ")"], [AST("Print", format=P(2), arguments=P(3, 1)), AST("Print", format=P(2), arguments=SEQ())]),
    ("ObjectDefinition", ["object", "(?)", "Members"], [AST("Object", extends=P(1, 1), members=P(2)), AST("Object", extends=NULL, members=P(2))]),
    ("Members", ["begin", "(*)", "Member?", "end"], [P(1), SEQ(MANY(P(1)), ONE(P(2)))]),
    ("Parameters", ["(", "(*)", "Ident?", ")"], [P(1), SEQ(MANY(P(1)), ONE(P(2)))]),
    ("Arguments", ["(*)", "Expression?"], [P(0), SEQ(MANY(P(0)), ONE(P(1)))]),
    ("ArrayDefinition", ["array", "(", "Expression", ",", "Expression", ")"], [AST("Array", size=P(2), value=P(4))]),
    ("ArrayAccess", ["Accessible", "[", "Expression", "]"], [AST("AccessArray", array=P(0), index=P(2))]),
    ("ArrayAccess", ["Field", "[", "Expression", "]"], [AST("AccessArray", array=P(0), index=P(2))]),
    ("Loop", ["while", "Expression", "do", "Expression"], [AST("Loop", condition=P(1), body=P(3))]),
    ("FunctionDefinition", ["function", "IdentOrPrint", "Parameters", "->", "Expression"], [AST("Function", name=P(1), parameters=P(2), body=P(4))]),
    ("OperatorDefinition", ["function", "Operator", "Parameters", "->", "Expression"], [AST("Function", name=ID(P(1)), parameters=P(2), body=P(4))]),
    ("IdentOrPrint", ["Ident"], [P(0)]),
    ("IdentOrPrint", ["print"], [ID(L("print"))]),
    ("Application", ["Ident", "(", "Arguments", ")"], [AST("CallFunction", name=P(0), arguments=P(2))]),
    ("Application", ["Accessible", ".", "(*)", "IdentOrPrint", "(", "Arguments", ")"],
     [AST("CallMethod", object=FOLD(P(0), P(2), FIELD_STEP), name=P(3), arguments=P(5))]),
    ("Application", ["Accessible", ".", "(*)", "Operator", "(", "Arguments", ")"],
     [AST("CallMethod", object=FOLD(P(0), P(2), FIELD_STEP), name=ID(P(3)), arguments=P(5))]),
    ("Assignment", ["let", "Ident", "=", "Expression"], [AST("Variable", name=P(1), value=P(3))]),
    ("Mutation", ["Ident", "<-", "Expression"], [AST("AssignVariable", name=P(0), value=P(2))]),
    ("Mutation", ["Accessible", ".", "(*)", "Ident", "<-", "Expression"], [AST("AssignField", object=FOLD(P(0), P(2), FIELD_STEP), field=P(3), value=P(5))]),
    ("Mutation", ["Accessible", "[", "Expression", "]", "<-", "Expression"], [AST("AssignArray", array=P(0), index=P(2), value=P(5))]),
    ("Mutation", ["Field", "[", "Expression", "]", "<-", "Expression"], [AST("AssignArray", array=P(0), index=P(2), value=P(5))]),
    ("VariableAccess", ["Ident"], [AST("AccessVariable", name=P(0))]),
    ("Ident", ["IDENTIFIER"], [ID(P(0))]),
    ("Ident", ["this"], [ID(P(0))]),
    ("Number", ["NUMBER"], [AST("Integer", _0=("parse_i32", P(0)))]),
    ("String", ["STRING_LITERAL"], [("strip_quotes", P(0))]),
    ("Boolean", ["true"], [AST("Boolean", _0=L(True))]),
    ("Boolean", ["false"], [AST("Boolean", _0=L(False))]),
    ("Unit", ["null"], [NULL]),
] + [(lvl, [lower, "(*)"], [FOLD(P(0), P(1), OP_STEP)]) for lvl, lower in LEVELS]

OPERATOR_VARIANT = {"|": "Disjunction", "&": "Conjunction", "==": "Equality", "!=": "Inequality", "<": "Less", ">": "Greater", "<=": "LessEqual",
                    ">=": "GreaterEqual", "+": "Addition", "-": "Subtraction", "*": "Multiplication", "/": "Division", "%": "Module"}
OPERATOR_RULES = ("ConjunctionOperator", "DisjunctionOperator", "EqualityOperator", "AdditiveOperator", "FactorOperator")


# ------------------------------------------------------------------ syntax of an alternative

def syntax_of(g, alt):
    out = []
    for sy in alt.symbols:
        rep = sy.rep or ""
        if sy.kind == "group":
            out.append("(%s)" % (rep or "1"))
            continue
        if sy.kind == "lit":
            out.append(sy.ref + rep)
            continue
        t = g.terminal_pattern(sy.ref)
        if t is not None:
            out.append((sy.ref if t["regex"] else t["pattern"]) + rep)
        else:
            out.append(sy.ref + rep)
    return out


# ------------------------------------------------------------------ normal form of a built value

def norm(t, eff, env=None):
    env = env or {}
    if not isinstance(t, tuple) or not t:
        return ("T", repr(t))
    if t in env:
        return env[t]
    h = t[0]
    if h == "var":
        b = _built(t, eff)
        return b if b is not None else ("V", t[1])
    if h == "obj":
        b = _built(t, eff)
        return b if b is not None else ("T", fmt_term(t) + " (modified in a way that is not followed)")
    if h == "lit":
        return ("L", t[1])
    if h == "ctor":
        ty = (t[1] or "").rsplit("::", 1)[-1]
        name = ty + ("::" + t[2] if t[2] else "")
        return ("C", name, {k: norm(v, eff, env) for k, v in t[3]})
    if h == "some":
        return ("C", "Some", {"0": norm(t[1], eff, env)})
    if h == "none":
        return ("C", "None", {})
    if h == "sym" or (h == "app" and t[1] == "fold_of"):
        f = as_left_fold(t, eff)
        if f is not None:
            inner = dict(env)
            inner[f["acc"]] = ACC
            inner[f["elem"]] = EL
            inner[("app", "tuple_field", (f["elem"], ("lit", 0)))] = EL0
            inner[("app", "tuple_field", (f["elem"], ("lit", 1)))] = EL1
            seq = f["seq"]
            if seq[0] == "iter" and seq[2] == "fwd" and seq[3] and all(isinstance(fl, tuple) and fl[0] == "chain" and isinstance(fl[1], tuple) and fl[1][:1] == ("iter",)
                                                                      and fl[1][2] == "fwd" and not fl[1][3] for fl in seq[3]):
                # `xs.into_iter().chain(ys)`: the elements of xs, then those of ys
                seq = ("iter", ("app", "concat", (seq[1],) + tuple(fl[1][1] for fl in seq[3])), "fwd", ())
            if not (seq[0] == "iter" and seq[2] == "fwd" and not seq[3]):
                sq = ("T", "%s (not a plain forward traversal)" % fmt_term(seq)[:80])
            else:
                sq = norm(seq[1], [e for e in eff if e is not f["effect"]], env)
            steps = tuple(sorted({_freeze(norm(s, f["effect"]["paths"][0]["eff"] if f["effect"].get("paths") else [], inner)) for s in f["steps"]}, key=repr))
            if not f["complete"]:
                steps += (("T", "the accumulation can stop early / skip elements"),)
            return ("F", norm(f["init"], eff, env), sq, steps)
        return ("T", fmt_term(t))
    if h == "payload" and isinstance(t[1], tuple) and t[1][:1] == ("fall",):
        for e in eff:
            if e["k"] == "call" and e.get("res") == t[1]:
                callee = e["args"][0][1]
                if callee.rsplit("::", 1)[-1] in ("from_str", "parse") and "i32" in _callee_types(e):
                    return ("parse_i32", norm(e["args"][1], eff, env))
                return ("T", "result of %s(%s)" % (callee, ", ".join(fmt_term(a)[:40] for a in e["args"][1:])))
        return ("T", fmt_term(t))
    if h == "app":
        if t[1] in ("array", "concat", "vec_of"):
            return _flatten(t, eff, env)
        if t[1] == "index" and len(t[2]) == 2:
            s, r = t[2]
            if r[0] == "ctor" and (r[1] or "").endswith("Range") and dict(r[3]).get("start") == ("lit", 1) and \
                    dict(r[3]).get("end") == ("app", "sub", (("app", "len", (s,)), ("lit", 1))):
                return ("strip_quotes", norm(s, eff, env))
        return ("T", fmt_term(t)[:160])
    return ("T", fmt_term(t)[:160])


def _callee_types(e):
    return e["args"][0][1] + " " + " ".join(str(x) for x in (e.get("gargs") or ()))


def _freeze(x):
    if isinstance(x, dict):
        return tuple(sorted((k, _freeze(v)) for k, v in x.items()))
    if isinstance(x, (tuple, list)):
        return tuple(_freeze(v) for v in x)
    return x


BUILD_CALLS = ("push", "push_back", "push_front", "insert", "extend", "append", "extend_from_slice", "remove", "pop", "truncate", "clear", "reverse", "sort", "swap", "retain", "dedup", "drain")


def _built(base, eff):
    """the contents of `base` when build calls (push/extend/…) are made on it; None when none are made"""
    touched = any(e["k"] == "call" and len(e["args"]) > 1 and e["args"][1] == base and e["args"][0][1].rsplit("::", 1)[-1] in BUILD_CALLS
                  for e in eff) or base[:1] == ("obj",)
    if not touched:
        return None
    b = seq_build(base, eff)
    if b is None:
        return ("T", "%s is modified inside a loop or in a way that is not followed" % fmt_term(base))
    if b == base:
        return ("V", base[1]) if base[0] == "var" else None
    return _flatten(b, [e for e in eff if not (e["k"] == "call" and len(e["args"]) > 1 and e["args"][1] == base)], {})


def _flatten(t, eff, env):
    items = []

    def rec(x):
        if x[0] == "app" and x[1] == "concat":
            for p in x[2]:
                rec(p)
        elif x[0] == "app" and x[1] == "array":
            for y in x[2]:
                items.append(("one", norm(y, eff, env)))
        elif x[0] == "app" and x[1] == "vec_of":
            rec(x[2][0])
        else:
            items.append(("many", norm(x, eff, env)))
    rec(t)
    return _canon_seq(items)


def peel_fold(v):
    """fold over […xs, y] = step(fold over xs, y): trailing single elements of the folded sequence are applied, so that
    `fold(f) over [fields…, last]` and `f(fold(f) over fields, last)` have one normal form"""
    if isinstance(v, dict):
        return {k: peel_fold(x) for k, x in v.items()}
    if not isinstance(v, tuple):
        return v
    if v[:1] == ("F",) and len(v) == 4 and len(v[3]) == 1:
        init, seq, step = peel_fold(v[1]), peel_fold(v[2]), peel_fold(v[3][0])
        if isinstance(seq, tuple) and seq[:1] == ("S",):
            items = list(seq[1])
            if not items:
                return init
            if items[-1][0] == "one":
                inner = peel_fold(("F", init, _canon_seq(items[:-1]), (step,)))
                return _subst(step, {ACC: inner, EL: items[-1][1]})
        return ("F", init, seq, (step,))
    return tuple(peel_fold(x) for x in v)


def _subst(v, m):
    if isinstance(v, dict):
        return {k: _subst(x, m) for k, x in v.items()}
    if isinstance(v, tuple):
        for k, r in m.items():
            if v == k:
                return r
        return tuple(_subst(x, m) for x in v)
    return v


def show(v):
    if not isinstance(v, tuple):
        return repr(v)
    h = v[0]
    if h == "V":
        return "‹%s›" % v[1].lstrip("@")
    if h == "L":
        return repr(v[1])
    if h == "C":
        f = v[2] if isinstance(v[2], dict) else dict(v[2])
        return "%s{%s}" % (v[1], ", ".join("%s: %s" % (k, show(x)) for k, x in sorted(f.items()))) if f else v[1]
    if h == "S":
        return "[" + ", ".join(("%s" if k == "one" else "…%s") % show(x) for k, x in v[1]) + "]"
    if h == "F":
        return "fold(%s over %s from %s)" % (" | ".join(show(s) for s in v[3]), show(v[2]), show(v[1]))
    if h == "ACC":
        return "ACC"
    if h == "EL":
        return "ELEM" + ("" if len(v) == 1 else ".%d" % v[1])
    if h in ("parse_i32", "strip_quotes"):
        return "%s(%s)" % (h, show(v[1]))
    if h == "T":
        return str(v[1])
    return repr(v)


# ------------------------------------------------------------------ the rule

def alt_values(fx, g, rule, alt):
    """{instantiation: set of normalised values}, problems"""
    vals, probs = AC.values(fx, g, rule, alt, positional=True)
    per = {}
    for lhs, v, eff in vals:
        if isinstance(v, tuple) and v[:1] == ("abnormal",):
            per.setdefault(lhs, set()).add(_freeze(("abnormal", v[1])))
        else:
            per.setdefault(lhs, set()).add(_freeze(peel_fold(norm(v, eff))))
    return per, probs


def check(ck, fx, g):
    n = 0
    spec = {}
    for rule, syn, want in SPEC:
        spec.setdefault(rule, []).append((syn, want))
    seen_spec = set()
    for rule, r in g.rules.items():
        for a in r.alts:
            syn = syntax_of(g, a)
            where = "src/fml.lalrpop:%d" % a.line
            key = "%s ::= %s" % (rule, " ".join(syn) or "ε")
            per, probs = alt_values(fx, g, rule, a)
            n += 1
            if probs:
                ck.ob("R7.tree", key, False, where, "cannot evaluate the action (unprovable): %s" % "; ".join(probs))
                continue
            if rule in CHOICE:
                nts = [i for i, sy in enumerate(a.symbols)]
                want = {_freeze(P(nts[0]))} if len(nts) == 1 else None
                ok = want is not None and all(vs == want for vs in per.values())
                ck.ob("R7.tree", key, ok, where, "a choice between forms: the alternative is the tree of its only symbol" if ok else
                      "a choice rule must hand on the tree of its only symbol; builds %s" % sorted(show(v) for vs in per.values() for v in vs))
                continue
            if rule in OPERATOR_RULES:
                t = g.terminal_pattern(a.symbols[0].ref) if len(a.symbols) == 1 and a.symbols[0].kind == "nt" else None
                wantv = OPERATOR_VARIANT.get(t["pattern"]) if t and not t["regex"] else None
                want = {_freeze(("C", "Operator::%s" % wantv, {}))} if wantv else None
                ok = want is not None and all(vs == want for vs in per.values())
                ck.ob("R7.tree", key, ok, where, "`%s` is Operator::%s" % (t["pattern"] if t else "?", wantv) if ok else
                      "the token `%s` must denote Operator::%s; builds %s" % (t["pattern"] if t else syn, wantv, sorted(show(v) for vs in per.values() for v in vs)))
                continue
            cands = [w for s, w in spec.get(rule, []) if s == syn]
            if not cands:
                ck.ob("R7.tree", key, False, where, "no documented tree for this syntax (the README's forms of %s are: %s) — unprovable" % (
                    rule, "; ".join(" ".join(s) or "ε" for s, _ in spec.get(rule, [])) or "none"))
                continue
            seen_spec.add((rule, tuple(syn)))
            want = {_freeze(peel_fold(w)) for w in cands[0]}
            bad = {lhs: vs for lhs, vs in per.items() if vs - {("abnormal", "panic")} != want}
            extra_abn = rule != "Number" and any(("abnormal", "panic") in vs for vs in per.values())
            ok = not bad and not extra_abn and bool(per)
            ck.ob("R7.tree", key, ok, where,
                  "builds %s" % " or ".join(show(w) for w in cands[0]) if ok else
                  "builds %s; the documented tree is %s" % (
                      " or ".join(sorted(show(v) for v in next(iter(bad.values()), set()))) or ("a panic path" if extra_abn else "nothing"),
                      " or ".join(show(w) for w in cands[0])))
    missing = [(r, s) for r, s, _ in SPEC if (r, tuple(s)) not in seen_spec]
    ck.ob("R7.tree", "every documented form exists", not missing, "", "all %d documented forms have an alternative" % len(SPEC) if not missing else
          "documented forms without an alternative: %s" % ["%s ::= %s" % (r, " ".join(s)) for r, s in missing])
    ck.floor("R7.tree", "alternatives evaluated", n, 60)
    return n
