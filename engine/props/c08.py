"""C08 — serialized output is complete however the sink chunks writes.

R8.count     every call that resolves to std::io::Write::write (any receiver, incl. generic W
             and dyn Write) in the code reachable from the serializer / the writing CLI actions
             must have its returned count used; otherwise the callee must be write_all/write_fmt.
R8.forward   local `impl Write` types must forward `write` (count returned unchanged) and must
             not override write_all/write_fmt with something that is not a plain forward.
R8.propagate every Result produced on that path is returned, `?`-propagated, expect/unwrap-ed,
             matched or handed on; never dropped.
"""
from .. import anchors as A
from ..facts import walk_body, callee_def, callee_name, loc, user_macros_of
from ..valueflow import final_uses, success_value_uses

LEVEL = "proof"

WRITE = "std::io::Write::write"
COMPLETE = {"std::io::Write::write_all", "std::io::Write::write_fmt"}
OTHER_PARTIAL = {"std::io::Write::write_vectored"}
RESULT = "std::result::Result"

BAD = {"discarded", "discard_method", "unused_binding"}


def roots(ck, fx, cg):
    rs = []
    for role in ("program.serialize", "cli.compile", "cli.parse", "cli.bc.serialize"):
        p = A.get(role)
        ds = cg.dids_of(p)
        ck.anchor("R8", role + " = " + p, ds or None)
        rs += ds
    return rs


def run(ck, fx, cg, tier):
    ck.explanation = (
        "Static proof over the resolved program (HIR + type-check results; callee resolution by rustc): in every "
        "function reachable in the MIR call graph from Program::serialize and the CLI actions that write "
        "(CompilerAction::compile, ParserAction::parse, BCSerializer::serialize), every sink write is either a "
        "complete write (write_all/write_fmt) or a Write::write whose returned count is used, local Write "
        "implementations forward the count unchanged, and no Result on the path is dropped. With these three "
        "discharged, std's Write contract gives 'all bytes or an error' for every short-write behaviour of the "
        "sink — the property's whole quantifier — without running anything.")
    ck.trusted_base = ["rustc 1.97-nightly name resolution / type check / trait selection (callee resolution)",
                       "fml-facts dumper", "std::io::Write::write_all / write_fmt contract (loop until complete or Err)",
                       "MIR call graph (resolved instances; generic trait calls fan out to every local impl)"]
    ck.assumptions = ["the sink honours the std::io::Write contract",
                      "an explicit flush before exit is not demanded: errors swallowed by BufWriter's drop concern "
                      "failing sinks, which the property's quantifier (short writes) does not include"]
    rs = roots(ck, fx, cg)
    from .. import canary
    canary.require(ck, {'R8.count', 'Rx.propagate'})
    reach = cg.reachable(rs)
    n_sink_sites = 0
    n_result_sites = 0
    prim_sites = 0
    for did in sorted(reach):
        hb = fx.hir_by_did.get(did)
        if hb is None:
            continue  # closures are dumped inside their parents; non-src bodies have no HIR
        ck.fn(hb["path"])
        value = hb["value"]
        for n, ps in walk_body(hb):
            k = n.get("k")
            if k in ("MethodCall", "Call"):
                cd = callee_def(n)
                if cd == WRITE or cd in OTHER_PARTIAL:
                    n_sink_sites += 1
                    if hb["path"].startswith("bytecode::serializable::"):
                        prim_sites += 1
                    key = "%s|%s#%d" % (hb["path"], "write", _ordinal(hb, n, WRITE))
                    uses = success_value_uses(n, ps, value)
                    bad = [u for u in uses if u.kind in BAD]
                    ok = not bad
                    ck.ob("R8.count", key, ok, loc(n),
                          "returned byte count of Write::write is %s" % (
                              "used (%s)" % ", ".join(sorted({u.kind for u in uses})) if ok else
                              "dropped (%s): a short write loses bytes while Ok is reported" % "; ".join(
                                  u.detail or u.kind for u in bad)))
                    ck.sample({"rule": "R8.count", "fn": hb["path"], "at": loc(n), "callee": callee_name(n),
                               "count_consumers": [u.kind for u in uses]})
                elif cd in COMPLETE:
                    n_sink_sites += 1
                    if hb["path"].startswith("bytecode::serializable::"):
                        prim_sites += 1
                    key = "%s|%s#%d" % (hb["path"], cd.rsplit("::", 1)[1], _ordinal(hb, n, cd))
                    ck.ob("R8.count", key, True, loc(n), "complete write (%s)" % cd)
                    ck.sample({"rule": "R8.count", "fn": hb["path"], "at": loc(n), "callee": cd})
            if n.get("tadt") == RESULT and fx.ty(n) and fx.ty(n).startswith("std::result::Result<"):
                # only maximal fallible expressions: skip nodes whose value is merely passed through
                n_result_sites += 1
                uses = final_uses(n, ps, value)
                bad = [u for u in uses if u.kind in BAD]
                if bad or k in ("MethodCall", "Call"):
                    key = "%s|%s#%d" % (hb["path"], _short(n), _ordinal_kind(hb, n))
                    ck.ob("R8.propagate", key, not bad, loc(n),
                          "Result is %s" % ("consumed by " + ", ".join(sorted({u.kind for u in uses})) if not bad else
                                            "dropped: " + "; ".join(u.detail or u.kind for u in bad)),
                          nontrivial=True)
    # local Write impls
    n_impls = 0
    for imp in fx.impls:
        if imp.get("trait") == "std::io::Write" and imp.get("in_src"):
            n_impls += 1
            st = imp["self_ty"]
            for item in imp["items"]:
                path = "<%s as std::io::Write>::%s" % (st, item)
                hb = fx.body(path)
                if not ck.anchor("R8.forward", path, hb):
                    continue
                ck.fn(path)
                if item == "flush":
                    continue
                ok, why = _is_plain_forward(hb, "std::io::Write::" + item)
                ck.ob("R8.forward", "%s|%s" % (st, item), ok, loc(hb), why)
                ck.sample({"rule": "R8.forward", "impl": path, "verdict": why})
    ck.floor("R8.count", "sink write sites in the reachable set", n_sink_sites, 7)
    ck.floor("R8.count", "primitive writer sites in serializable.rs", prim_sites, 6)
    ck.floor("R8.forward", "local impl Write", n_impls, 1)
    ck.floor("R8.propagate", "Result-typed expressions examined", n_result_sites, 40)
    ck.extra["sink_write_sites"] = n_sink_sites
    ck.extra["result_sites_examined"] = n_result_sites
    ck.extra["reachable_functions"] = len(reach)


def _short(n):
    if n.get("k") == "MethodCall":
        return "." + n["name"]
    if n.get("k") == "Call":
        cn = callee_name(n) or (n.get("ctor") or {}).get("path") or "call"
        return cn.rsplit("::", 1)[-1]
    return n.get("k")


def _ordinal(hb, node, cd):
    i = 0
    for n, _ in walk_body(hb):
        if n is node:
            return i
        if n.get("k") in ("MethodCall", "Call") and callee_def(n) == cd:
            i += 1
    return i


def _ordinal_kind(hb, node):
    i = 0
    s = _short(node)
    for n, _ in walk_body(hb):
        if n is node:
            return i
        if n.get("k") == node.get("k") and _short(n) == s:
            i += 1
    return i


def _is_plain_forward(hb, trait_method):
    """body is `self.<field>.<same method>(<params unchanged>)` (possibly via a block tail)."""
    from ..facts import peel
    v = peel(hb["value"])
    if v.get("k") == "Block":
        b = v["block"]
        if b["stmts"] or "expr" not in b:
            return False, "body is not a single forwarding call"
        v = peel(b["expr"])
    if v.get("k") != "MethodCall" or callee_def(v) != trait_method:
        return False, "body does not forward to %s" % trait_method
    r = v["recv"]
    if r.get("k") != "Field":
        return False, "receiver of the forwarded call is not a field of self"
    params = [p.get("name") for p in hb["params"][1:]]
    args = []
    for a in v["args"]:
        a = peel(a)
        if a.get("k") == "Path" and a["res"].get("k") == "Local":
            args.append(a["res"]["name"])
        else:
            args.append(None)
    if args != params:
        return False, "arguments are not passed through unchanged"
    return True, "plain forward to the inner sink (count/result returned unchanged)"
