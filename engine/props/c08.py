"""C08 — serialized output is complete however the sink chunks writes.

R8.count     every call that resolves to std::io::Write::write (any receiver, incl. generic W
             and dyn Write) in the code reachable from the serializer / the writing CLI actions
             must have its returned count used; otherwise the callee must be write_all/write_fmt.
R8.account   a partial write (write / write_vectored) outside a forwarding `impl Write` must be provably resumed:
             either std's resume loop (buf = &buf[n..] until empty) or, on straight-line code, the complete writes
             that follow spell exactly the bytes still owed (linear arithmetic over the count, see c08_account.py).
R8.flush     every buffering writer (BufWriter / LineWriter / stdout, or a local type built around one) that a function
             owns and writes to is flushed explicitly, the Result consumed, after the last write and outside any
             conditional; the owning types forward flush(). A drop-time flush swallows the error.
R8.forward   local `impl Write` types must forward `write` (count returned unchanged) and must
             not override write_all/write_fmt with something that is not a plain forward.
R8.propagate every Result produced on that path is returned, `?`-propagated, expect/unwrap-ed,
             matched or handed on; never dropped.
"""
from .. import anchors as A
from ..facts import walk_body, callee_def, callee_name, loc, user_macros_of
from ..valueflow import final_uses, success_value_uses
from . import c08_account as AC

LEVEL = "proof"

WRITE = "std::io::Write::write"
COMPLETE = {"std::io::Write::write_all", "std::io::Write::write_fmt"}
OTHER_PARTIAL = {"std::io::Write::write_vectored"}
RESULT = "std::result::Result"

BAD = {"discarded", "discard_method", "unused_binding"}


def roots(ck, fx, cg):
    rs = []
    for role in ("program.serialize", "cli.compile", "cli.parse", "cli.bc.serialize"):
        p = A.get(role)
        ds = cg.dids_of(p)
        ck.anchor("R8", role + " = " + p, ds or None)
        rs += ds
    return rs


def run(ck, fx, cg, tier):
    ck.explanation = (
        "Static proof over the resolved program (HIR + type-check results; callee resolution by rustc): in every "
        "function reachable in the MIR call graph from Program::serialize and the CLI actions that write "
        "(CompilerAction::compile, ParserAction::parse, BCSerializer::serialize), every sink write is either a "
        "complete write (write_all/write_fmt) or a Write::write whose returned count is used, local Write "
        "implementations forward the count unchanged, and no Result on the path is dropped. With these three "
        "discharged, std's Write contract gives 'all bytes or an error' for every short-write behaviour of the "
        "sink — the property's whole quantifier — without running anything.")
    ck.trusted_base = ["rustc 1.97-nightly name resolution / type check / trait selection (callee resolution)",
                       "fml-facts dumper", "std::io::Write::write_all / write_fmt contract (loop until complete or Err)",
                       "MIR call graph (resolved instances; generic trait calls fan out to every local impl)"]
    ck.assumptions = ["the sink honours the std::io::Write contract",
                      "an explicit flush before exit is not demanded: errors swallowed by BufWriter's drop concern "
                      "failing sinks, which the property's quantifier (short writes) does not include"]
    rs = roots(ck, fx, cg)
    from .. import canary
    canary.require(ck, {'R8.count', 'R8.account', 'Rx.propagate'})
    reach = cg.reachable(rs)
    n_sink_sites = 0
    n_account = 0
    forwarders = {"<%s as std::io::Write>::%s" % (imp["self_ty"], item) for imp in fx.impls if imp.get("trait") == "std::io::Write" and imp.get("in_src")
                  for item in imp["items"]}
    n_result_sites = 0
    prim_sites = 0
    for did in sorted(reach):
        hb = fx.hir_by_did.get(did)
        if hb is None:
            continue  # closures are dumped inside their parents; non-src bodies have no HIR
        ck.fn(hb["path"])
        value = hb["value"]
        for n, ps in walk_body(hb):
            k = n.get("k")
            if k in ("MethodCall", "Call"):
                cd = callee_def(n)
                if cd == WRITE or cd in OTHER_PARTIAL:
                    n_sink_sites += 1
                    if hb["path"].startswith("bytecode::serializable::"):
                        prim_sites += 1
                    key = "%s|%s#%d" % (hb["path"], "write", _ordinal(hb, n, WRITE))
                    uses = success_value_uses(n, ps, value)
                    bad = [u for u in uses if u.kind in BAD]
                    ok = not bad
                    ck.ob("R8.count", key, ok, loc(n),
                          "returned byte count of Write::write is %s" % (
                              "used (%s)" % ", ".join(sorted({u.kind for u in uses})) if ok else
                              "dropped (%s): a short write loses bytes while Ok is reported" % "; ".join(
                                  u.detail or u.kind for u in bad)))
                    ck.sample({"rule": "R8.count", "fn": hb["path"], "at": loc(n), "callee": callee_name(n),
                               "count_consumers": [u.kind for u in uses]})
                    # the count must also be used *correctly*: the bytes not taken are written next
                    if hb["path"] in forwarders:
                        continue   # R8.forward: the count goes back to the caller unchanged
                    n_account += 1
                    okl, whyl = AC.resume_loop(fx, hb, n, ps)
                    if okl:
                        ck.ob("R8.account", key, True, loc(n), whyl)
                    else:
                        approved = {loc(x) for x, ps2 in walk_body(hb) if x.get("k") in ("MethodCall", "Call") and callee_def(x) == WRITE and AC.resume_loop(fx, hb, x, ps2)[0]}
                        okb, whyb = AC.account_function(fx, hb, approved)
                        ck.ob("R8.account", key, okb, loc(n), whyb if okb else
                              "cannot show that the bytes the sink did not take are written next: %s" % whyb)
                elif cd in COMPLETE:
                    n_sink_sites += 1
                    if hb["path"].startswith("bytecode::serializable::"):
                        prim_sites += 1
                    key = "%s|%s#%d" % (hb["path"], cd.rsplit("::", 1)[1], _ordinal(hb, n, cd))
                    ck.ob("R8.count", key, True, loc(n), "complete write (%s)" % cd)
                    ck.sample({"rule": "R8.count", "fn": hb["path"], "at": loc(n), "callee": cd})
            if n.get("tadt") == RESULT and fx.ty(n) and fx.ty(n).startswith("std::result::Result<"):
                # only maximal fallible expressions: skip nodes whose value is merely passed through
                n_result_sites += 1
                uses = final_uses(n, ps, value)
                bad = [u for u in uses if u.kind in BAD]
                if bad or k in ("MethodCall", "Call"):
                    key = "%s|%s#%d" % (hb["path"], _short(n), _ordinal_kind(hb, n))
                    ck.ob("R8.propagate", key, not bad, loc(n),
                          "Result is %s" % ("consumed by " + ", ".join(sorted({u.kind for u in uses})) if not bad else
                                            "dropped: " + "; ".join(u.detail or u.kind for u in bad)),
                          nontrivial=True)
    # local Write impls
    n_impls = 0
    for imp in fx.impls:
        if imp.get("trait") == "std::io::Write" and imp.get("in_src"):
            n_impls += 1
            st = imp["self_ty"]
            for item in imp["items"]:
                path = "<%s as std::io::Write>::%s" % (st, item)
                hb = fx.body(path)
                if not ck.anchor("R8.forward", path, hb):
                    continue
                ck.fn(path)
                if item == "flush":
                    continue   # R8.flush
                ok, why = _is_plain_forward(hb, "std::io::Write::" + item)
                ck.ob("R8.forward", "%s|%s" % (st, item), ok, loc(hb), why)
                ck.sample({"rule": "R8.forward", "impl": path, "verdict": why})
    _flush(ck, fx, cg, reach)
    # the sink receives the serializer's bytes and nothing else happens to it: the compile action touches its sink only by
    # handing it to the serializer and flushing it (no pre-sizing, seeking, second handle) — C04's R4.notrailing
    # obligations, evaluated as one presupposition
    from . import shared as _sh8
    _sh8.presuppose(ck, fx, cg, "C04", lambda o: o["rule"] == "R4.notrailing", "R8.only",
                    "the output sink is only written by the serializer and flushed", floor=1)
    ck.floor("R8.count", "sink write sites in the reachable set", n_sink_sites, 1)
    ck.floor("R8.forward", "local impl Write", n_impls, 1)
    ck.floor("R8.propagate", "Result-typed expressions examined", n_result_sites, 5)
    ck.extra["sink_write_sites"] = n_sink_sites
    ck.extra["partial_write_sites_outside_forwarders"] = n_account
    ck.extra["result_sites_examined"] = n_result_sites
    ck.extra["reachable_functions"] = len(reach)


BUFFERING_CTORS = ("std::io::BufWriter::<W>::new", "std::io::BufWriter::<W>::with_capacity", "std::io::LineWriter::<W>::new",
                   "std::io::LineWriter::<W>::with_capacity", "std::io::stdout")
BUFFERED_STD = ("std::io::BufWriter<", "std::io::LineWriter<", "std::io::Stdout", "std::io::StdoutLock")
FLUSHERS = ("std::io::Write::flush", "std::io::BufWriter::<W>::into_inner", "std::io::LineWriter::<W>::into_inner")


def buffered_types(fx):
    """std's buffering writers plus every local struct that is built around one (NamedSink { sink: Box::new(BufWriter::new(..)) })"""
    local = {}
    for hb in fx.hir:
        if hb["from_expansion"]:
            continue
        for n, ps in walk_body(hb):
            if n.get("k") in ("Call", "MethodCall") and callee_def(n) in BUFFERING_CTORS:
                for role, p in reversed(ps):
                    if p.get("k") == "Struct" and (p.get("res") or {}).get("path") in fx.adts:
                        local.setdefault(p["res"]["path"], []).append((hb["path"], loc(n), callee_def(n)))
                        break
                    if p.get("k") in ("Block", "Closure", "Match", "If"):
                        break
    return local


def _is_buffered(ty, local):
    ty = ty or ""
    while ty.startswith("&"):
        ty = ty.lstrip("&").replace("mut ", "", 1).strip()
    return ty.startswith(BUFFERED_STD) or ty in local


def _drop_flushes(fx, ty):
    """the type's own Drop flushes and consumes the Result (expect / unwrap: the process fails loudly)"""
    db = fx.body("<%s as std::ops::Drop>::drop" % ty)
    if db is None:
        return False
    for n, ps in walk_body(db):
        if n.get("k") == "MethodCall" and callee_def(n) == "std::io::Write::flush":
            nested = [p.get("k") for role, p in ps if p.get("k") in ("If", "Loop", "Closure") or (p.get("k") == "Match" and p.get("src") == "Normal")]
            uses = final_uses(n, ps, db["value"])
            if not nested and uses and all(u.kind == "checked" for u in uses):      # .expect() / .unwrap(): fails loudly
                return True
    return False


def _wraps_flush(fx, call):
    """a local method whose whole body hands back `Write::flush(self)` (a named wrapper around flush)"""
    cal = call.get("callee") or {}
    did = cal.get("inst_did") if cal.get("inst_local") else (cal.get("did") if cal.get("local") else None)
    b = fx.hir_by_did.get(did) if did else None
    if b is None or not b["params"]:
        return False
    from ..facts import peel
    v = peel(b["value"])
    if v.get("k") == "Block" and not v["block"]["stmts"] and "expr" in v["block"]:
        v = peel(v["block"]["expr"])
    if v.get("k") not in ("Call", "MethodCall") or callee_def(v) != "std::io::Write::flush":
        return False
    r = peel(v["recv"] if v.get("k") == "MethodCall" else v["args"][0])
    while r.get("k") in ("AddrOf", "Unary"):
        r = peel(r["e"])
    return r.get("k") == "Path" and (r.get("res") or {}).get("k") == "Local" and r["res"].get("name") == b["params"][0].get("name")


def unflushed_sinks(fx, hb, local):
    """(local name, where, why) for every buffered sink owned by a local of this body that is written to but not
    flushed — with the flush result consumed — on the straight path to the function's successful end."""
    from ..facts import peel
    out = []
    owned = {}
    by_drop = 0
    for n, ps in walk_body(hb):
        if n.get("k") == "Block":
            for st in n["block"]["stmts"]:
                if st["k"] == "Let" and st["pat"].get("k") == "Binding" and _is_buffered(fx.tyname(st["pat"].get("ty")), local) \
                        and not (fx.tyname(st["pat"].get("ty")) or "").startswith("&"):
                    if _drop_flushes(fx, fx.tyname(st["pat"].get("ty"))):
                        by_drop += 1
                    else:
                        owned[st["pat"]["lid"]] = (st["pat"].get("name"), loc(st))
    if not owned:
        return out, by_drop
    order = {id(n): i for i, (n, ps) in enumerate(walk_body(hb))}
    for lid, (name, where) in owned.items():
        uses = []     # (order, kind)
        flushes = []
        for n, ps in walk_body(hb):
            if n.get("k") == "Path" and n["res"].get("k") == "Local" and n["res"]["lid"] == lid:
                # the consuming call
                call = None
                for role, p in reversed(ps):
                    if p.get("k") in ("Call", "MethodCall"):
                        call = p
                        break
                    if p.get("k") in ("Block", "Closure"):
                        break
                if call is None:
                    continue
                cd = callee_def(call) or ""
                flusher = cd in FLUSHERS or _wraps_flush(fx, call)
                if flusher and call.get("k") == "MethodCall" and peel(call["recv"]) is n or (flusher and n in [peel(a) for a in call.get("args", [])]):
                    cps = [pp for x, pp in walk_body(hb) if x is call][0]
                    nested = [p.get("k") for role, p in cps if p.get("k") in ("If", "Loop", "Closure") or (p.get("k") == "Match" and p.get("src") == "Normal")]
                    res_uses = final_uses(call, cps, hb["value"])
                    dropped = [u for u in res_uses if u.kind in BAD]
                    flushes.append((order[id(call)], not nested and not dropped, "inside %s" % nested[0] if nested else ("its Result is dropped" if dropped else "")))
                else:
                    # a write needs the sink mutably borrowed; a by-value use moves it on (the new owner is responsible)
                    par = ps[-1][1] if ps else {}
                    borrowed = (par.get("k") == "AddrOf" and par.get("mut") is True) or any(
                        str(a.get("k", "")).startswith("Borrow:mut") for a in n.get("adj", []))
                    if borrowed:
                        uses.append(order[id(call)])
        if not uses:
            continue          # handed on / returned unwritten: whoever writes to it is responsible
        good = [f for f in flushes if f[1] and f[0] > max(uses)]
        if not good:
            why = "never flushed" if not flushes else "; ".join(f[2] or "flushed before the last write" for f in flushes)
            out.append((name, where, why))
    return out, len(owned) + by_drop


def _flush(ck, fx, cg, reach):
    """R8.flush: a buffering writer reports the errors of its buffered tail only through flush(); when it is dropped
    the tail is written with the error discarded, so success is reported although bytes were lost."""
    local = buffered_types(fx)
    n_owned = 0
    for did in sorted(reach):
        hb = fx.hir_by_did.get(did)
        if hb is None or hb["from_expansion"]:
            continue
        bad, n = unflushed_sinks(fx, hb, local)
        n_owned += n
        for name, where, why in bad:
            ck.ob("R8.flush", "%s|%s" % (hb["path"], name), False, where,
                  "the buffered sink `%s` is written to and then dropped without an explicit, checked flush (%s): an error while its buffered tail is written is swallowed and the command reports success" % (name, why))
        if n and not bad:
            ck.ob("R8.flush", "%s|owned buffered sinks" % hb["path"], True, loc(hb), "%d buffered sink(s) flushed with the result checked after the last write" % n)
    for t, sites in sorted(local.items()):
        fb = fx.body("<%s as std::io::Write>::flush" % t)
        if ck.anchor("R8.flush", "<%s as Write>::flush" % t, fb):
            ok, why = _is_plain_forward(fb, "std::io::Write::flush")
            ck.ob("R8.flush", "%s|flush forwards" % t, ok, loc(fb), why)
    ck.floor("R8.flush", "locally owned buffered sinks on the output path", n_owned, 1)
    ck.extra["buffered_sink_types"] = sorted(local)


def _short(n):
    if n.get("k") == "MethodCall":
        return "." + n["name"]
    if n.get("k") == "Call":
        cn = callee_name(n) or (n.get("ctor") or {}).get("path") or "call"
        return cn.rsplit("::", 1)[-1]
    return n.get("k")


def _ordinal(hb, node, cd):
    i = 0
    for n, _ in walk_body(hb):
        if n is node:
            return i
        if n.get("k") in ("MethodCall", "Call") and callee_def(n) == cd:
            i += 1
    return i


def _ordinal_kind(hb, node):
    i = 0
    s = _short(node)
    for n, _ in walk_body(hb):
        if n is node:
            return i
        if n.get("k") == node.get("k") and _short(n) == s:
            i += 1
    return i


def _is_plain_forward(hb, trait_method):
    """body is `<inner>.<same method>(<params unchanged>)` — possibly via a block tail, and possibly one such call per arm
    of a `match` over self (an enum of sinks): every arm must forward."""
    from ..facts import peel
    v = peel(hb["value"])
    if v.get("k") == "Block":
        b = v["block"]
        if b["stmts"] or "expr" not in b:
            return False, "body is not a single forwarding call"
        v = peel(b["expr"])
    params = [p.get("name") for p in hb["params"][1:]]
    self_name = hb["params"][0].get("name") if hb["params"] else None

    def forwards(call, bound):
        call = peel(call)
        if call.get("k") == "Block" and not call["block"]["stmts"] and "expr" in call["block"]:
            call = peel(call["block"]["expr"])
        if call.get("k") == "MethodCall":
            if callee_def(call) != trait_method:
                return False, "body does not forward to %s" % trait_method
            r, rest = call["recv"], call["args"]
        elif call.get("k") == "Call" and callee_def(call) == trait_method and call.get("args"):
            r, rest = call["args"][0], call["args"][1:]       # Write::flush(self) / Write::write(inner, buf)
        else:
            return False, "body does not forward to %s" % trait_method
        r = peel(r)
        while r.get("k") in ("AddrOf", "Unary"):
            r = peel(r["e"])
        is_field = r.get("k") == "Field"
        is_bound = r.get("k") == "Path" and (r.get("res") or {}).get("k") == "Local" and (r["res"]["lid"] in bound)
        if not (is_field or is_bound):
            return False, "receiver of the forwarded call is neither a field of self nor a binding of the matched sink"
        args = []
        for a in rest:
            a = peel(a)
            if a.get("k") == "Path" and a["res"].get("k") == "Local":
                args.append(a["res"]["name"])
            else:
                args.append(None)
        if args != params:
            return False, "arguments are not passed through unchanged"
        return True, ""

    if v.get("k") == "Match" and v.get("src") == "Normal":
        sc = peel(v["scrut"])
        while sc.get("k") in ("AddrOf", "Unary"):
            sc = peel(sc["e"])
        on_self = (sc.get("k") == "Field") or (sc.get("k") == "Path" and (sc.get("res") or {}).get("name") == self_name)
        if not on_self:
            return False, "body matches on something other than self"
        for arm in v["arms"]:
            if "guard" in arm:
                return False, "guarded arm in a forwarding match"
            bound = set()
            from .c08_account import walk_pat
            for q, _ in walk_pat(arm["pat"]):
                if q.get("k") == "Binding":
                    bound.add(q["lid"])
            ok, why = forwards(arm["body"], bound)
            if not ok:
                return False, why
        return True, "every arm of the match over self forwards to the inner sink (count/result returned unchanged)"
    ok, why = forwards(v, set())
    if not ok:
        return False, why
    return True, "plain forward to the inner sink (count/result returned unchanged)"
