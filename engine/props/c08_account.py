"""R8.account — byte accounting for partial writes.

A call of a partial-write API (`Write::write`, `Write::write_vectored`) offers a byte sequence S to the sink and
returns how many bytes n of it the sink took. The output is complete only if the bytes S[n..] are written next, in
order, before anything else. Two ways of showing that are recognised:

  A  the resume loop of std's own `write_all`: the call sits in a loop, its buffer is a local `buf`, the count is
     used for `buf = &buf[n..]` (and, at most, in comparisons), and the loop runs while `buf` is not empty;
  B  straight-line resume: the enclosing function is executed symbolically; on every path that returns success the
     complete writes that follow the partial one must spell exactly S[n..] — decided by linear arithmetic over the
     count, the lengths of the parts of S and the path condition (which part the count fell into).

Everything else is reported as "cannot show": the count is used, but not provably to resume at the right byte."""
from ..facts import walk_body, walk, callee_def, peel, loc
from ..template import Lin
from ..symex import is_lit
from ..symdbg import fmt_term

PARTIAL = ("std::io::Write::write", "std::io::Write::write_vectored")
COMPLETE = ("std::io::Write::write_all",)


# ------------------------------------------------------------------------------------------ B: symbolic accounting

def _strip(t):
    """see through wrappers that do not change the bytes"""
    while isinstance(t, tuple) and t:
        if t[0] == "app" and t[1] in ("cast_ref", "as_bytes", "deref", "borrow") and t[2]:
            t = t[2][0]
        elif t[0] == "app" and t[1].startswith("call:std::io::IoSlice") and t[1].endswith("::new") and len(t[2]) == 1:
            t = t[2][0]
        else:
            break
    return t


def lin(t):
    """term → Lin; anything non-linear becomes one opaque symbol"""
    if is_lit(t) and isinstance(t[1], int) and not isinstance(t[1], bool):
        return Lin(t[1])
    if isinstance(t, tuple) and t and t[0] == "app":
        f, a = t[1], t[2]
        if f == "cast" and len(a) == 2:
            return lin(a[1])
        if f in ("add", "sub") and len(a) == 2:
            x, y = lin(a[0]), lin(a[1])
            return x + y if f == "add" else x - y
        if f == "len" and len(a) == 1:
            b = _strip(a[0])
            if b[0] == "app" and b[1] in ("to_le_bytes", "to_be_bytes", "to_ne_bytes") and is_lit(b[2][0]):
                w = {"u8": 1, "i8": 1, "u16": 2, "i16": 2, "u32": 4, "i32": 4, "u64": 8, "i64": 8, "usize": 8}.get(b[2][0][1])
                if w:
                    return Lin(w)
            return Lin(0, {("len", b): 1})
    return Lin(0, {t: 1})


def _segment(t):
    """a written term → (base, start Lin) or None when it is not `base` / `&base[s..]`"""
    t = _strip(t)
    if t[0] == "app" and t[1] == "index" and len(t[2]) == 2:
        base, rng = t[2]
        if rng[0] == "ctor" and (rng[1] or "").endswith("RangeFrom") and dict(rng[3]).get("start") is not None:
            inner = _segment(base)
            if inner is None:
                return None
            return inner[0], inner[1] + lin(dict(rng[3])["start"])
        return None
    return t, Lin(0)


def _parts(t):
    t = _strip(t)
    if t[0] == "app" and t[1] == "array":
        return [_strip(x) for x in t[2]]
    return [t]


def _decide_le(facts, a, b):
    """is a <= b under the assumed comparisons? True / False / None"""
    d = a - b
    if d.is_const():
        return d.c <= 0
    for (op, x, y), val in facts:
        e = x - y            # fact: (x op y) == val
        rel = op
        if not val:
            rel = {"le": "gt", "lt": "ge", "ge": "lt", "gt": "le", "eq": "ne", "ne": "eq"}[op]
        # normalise to statements about e = x - y
        if e == d:           # statement about a - b
            if rel in ("le", "lt", "eq"):
                return True
            if rel == "gt":
                return False
        if e == -d:          # statement about b - a
            if rel in ("ge", "gt", "eq"):
                return True
            if rel == "lt":
                return False
    return None


def _nested(e):
    for key in ("paths", "exits"):
        for p in e.get(key) or []:
            for x in p.get("eff", []):
                yield x
                if x["k"] in ("foreach", "loop"):
                    yield from _nested(x)


def account_path(effs, approved=()):
    """None when the path's partial writes are provably resumed; otherwise the reason."""
    facts = []
    pending = None     # (count Lin, [parts], at)
    expect = None      # list of (base, start Lin) still to be written
    for e in effs:
        k = e["k"]
        if k == "assume":
            c = e["args"][0]
            val = e["args"][1][1] is True if is_lit(e["args"][1]) else None
            neg = False
            while c[0] == "app" and c[1] == "not":
                c = c[2][0]
                neg = not neg
            if c[0] == "app" and c[1] in ("le", "lt", "ge", "gt", "eq", "ne") and val is not None:
                facts.append(((c[1], lin(c[2][0]), lin(c[2][1])), val != neg))
            continue
        if k in ("foreach", "loop"):
            inner = [x for x in _nested(e) if x["k"] == "call" and x["args"][0][1].startswith("std::io::Write::")]
            if inner and (pending is not None or expect):
                return "a loop writes to the sink while bytes of an earlier partial write are still owed (loop at %s)" % e["at"]
            bad = [x for x in inner if x["args"][0][1] in PARTIAL and x["at"] not in approved]
            if bad:
                return "partial write inside a loop at %s (not the recognised resume loop)" % bad[0]["at"]
            continue
        if k != "call":
            if k in ("sub_write",) and (pending or expect):
                return "another writer runs while bytes of a partial write are still owed"
            continue
        callee = e["args"][0][1]
        if callee in PARTIAL:
            if pending or expect:
                return "a second partial write at %s before the first one is resumed" % e["at"]
            res = e.get("res")
            n = Lin(0, {("payload", res): 1})
            pending = (n, _parts(e["args"][2]), e["at"])
            continue
        if callee in COMPLETE or callee.startswith("std::io::Write::"):
            if pending is not None:
                # materialise the owed remainder under the path condition
                n, parts, at = pending
                pending = None
                expect = []
                k_off = n
                for i, p in enumerate(parts):
                    lp = lin(("app", "len", (p,)))
                    last = i == len(parts) - 1
                    if k_off is None:
                        expect.append((p, Lin(0)))
                        continue
                    inside = True if last else _decide_le(facts, k_off, lp)
                    if inside is None:
                        return "cannot decide from the path condition which of the %d buffers the count of the partial write at %s fell into" % (len(parts), at)
                    if inside:
                        expect.append((p, k_off))
                        k_off = None
                    else:
                        k_off = k_off - lp
            if expect:
                if callee not in COMPLETE:
                    return "%s at %s while bytes of a partial write are still owed" % (callee, e["at"])
                seg = _segment(e["args"][2])
                want = expect[0]
                if seg is None or seg[0] != want[0] or not (seg[1] == want[1]):
                    return "after the partial write the sink is owed `%s[%s..]`, but `%s` is written next (at %s)" % (
                        fmt_term(want[0])[:60], want[1], fmt_term(e["args"][2])[:120], e["at"])
                expect.pop(0)
            continue
    if pending is not None:
        return "the bytes the sink did not take in the partial write at %s are never written" % pending[2]
    if expect:
        return "after the partial write, `%s[%s..]` is still owed when the function reports success" % (fmt_term(expect[0][0])[:60], expect[0][1])
    return None


def account_function(fx, hb, approved=()):
    """(ok, why) for the straight-line accounting of every successful path of the function."""
    from ..layout_scheme import run as lrun
    args = [("var", p.get("name") or "p%d" % i) for i, p in enumerate(hb["params"])]
    try:
        ex, paths = lrun(fx, hb["path"], args, track_subs=False)
    except Exception as e:
        return False, "cannot execute %s symbolically: %s" % (hb["path"], str(e)[:120])
    if not paths:
        return False, "no paths"
    n_ok = 0
    for p in paths:
        o = p["out"]
        if o[0] != "val":
            continue            # panics / diverging paths deliver no success
        v = o[1]
        if isinstance(v, tuple) and v and v[0] == "err":
            continue
        n_ok += 1
        why = account_path(p["eff"], approved)
        if why:
            return False, why
    return True, "%d successful path(s): the complete writes after each partial write spell exactly the bytes still owed" % n_ok


# ------------------------------------------------------------------------------------------ A: the resume loop

def _local(n):
    n = peel(n)
    while n.get("k") in ("AddrOf", "Unary") and (n.get("k") == "AddrOf" or n.get("op") == "Deref"):
        n = peel(n["e"])
    if n.get("k") == "Path" and n["res"].get("k") == "Local":
        return n["res"]["lid"]
    return None


def resume_loop(fx, hb, call, ps):
    """(ok, why) — is `call` (a Write::write) the body of a write_all-style resume loop?"""
    loops = [p for role, p in ps if p.get("k") == "Loop"]
    if not loops:
        return False, "not in a loop"
    lp = loops[-1]
    if callee_def(call) != "std::io::Write::write":
        return False, "vectored write in a loop"
    buf = _local(call["args"][-1])
    if buf is None:
        return False, "the buffer handed to write is not a local"
    # the count binding: `Ok(n) =>` arm or `let n = w.write(buf)?`
    count = None
    for n, _ in walk(lp):
        if n.get("k") == "Match" and n.get("src") == "Normal":
            if any(x is call for x, _ in walk(n["scrut"])):
                for arm in n["arms"]:
                    for q, _ in walk_pat(arm["pat"]):
                        if q.get("k") == "Binding" and fx.tyname(q.get("ty")) == "usize":
                            count = q["lid"]
        if n.get("k") == "Block":
            for st in n["block"]["stmts"]:
                if st["k"] == "Let" and "init" in st and any(x is call for x, _ in walk(st["init"])) and st["pat"].get("k") == "Binding":
                    count = st["pat"]["lid"]
    if count is None:
        return False, "the returned count is not bound to a name"
    advanced = False
    for n, ps2 in walk(lp):
        if n.get("k") == "Path" and n["res"].get("k") == "Local" and n["res"]["lid"] == count:
            # allowed: start of `buf[count..]` assigned to buf; comparisons
            chain = [p for role, p in ps2]
            ok = False
            for p in reversed(chain):
                if p.get("k") == "Binary" and p["op"] in ("Eq", "Ne", "Lt", "Le", "Gt", "Ge"):
                    ok = True
                    break
                if p.get("k") == "Assign" and _local(p["lhs"]) == buf:
                    idx = [x for x, _ in walk(p["rhs"]) if x.get("k") == "Index" and _local(x["base"]) == buf]
                    rng = idx and peel(idx[0]["idx"])
                    start = rng and rng.get("k") == "Struct" and (rng.get("tadt") or "").endswith("RangeFrom") and [f for f in rng["fields"] if f["name"] == "start"]
                    if start and _local(start[0]["e"]) == count and peel(start[0]["e"]).get("k") == "Path":
                        ok = True
                        advanced = True
                    break
            if not ok:
                return False, "the count is used for something other than `buf = &buf[n..]`"
    if not advanced:
        return False, "the buffer is not advanced by the count"
    # the loop continues while the buffer is not empty
    cond_ok = False
    for n, _ in walk(lp):
        if n.get("k") == "MethodCall" and n["name"] == "is_empty" and _local(n["recv"]) == buf:
            cond_ok = True
    if not cond_ok:
        return False, "the loop is not conditioned on the remaining buffer being empty"
    return True, "write_all-style resume loop: buf = &buf[n..] until buf.is_empty()"


def walk_pat(p, ps=()):
    yield p, ps
    for key in ("pat", "sub"):
        if isinstance(p.get(key), dict):
            yield from walk_pat(p[key], ps + (p,))
    for x in p.get("pats", []) or []:
        yield from walk_pat(x, ps + (p,))
    for f in p.get("fields", []) or []:
        if isinstance(f, dict) and "pat" in f:
            yield from walk_pat(f["pat"], ps + (p,))
