"""C09 — built-in integer/boolean/null operations: total, 32-bit, build-independent.

R9.table   first-match evaluation of the three built-in dispatch tables over cells
           (every spelling that occurs + OTHER) × {Null, Integer, Boolean, Reference}; the action of each
           cell equals S4 (DESIGN A.4). Feeny spellings map to the same action as their operator twins.
R9.profile no action is build-profile dependent (plain + - * << >> / unary - on i32 inherit the profile's
           overflow checks; wrapping_* or other profile-independent forms are required).
R9.nocfg   no cfg!(debug_assertions)/debug_assert* in the VM's reachable set.
R9.arity   argument count ≠ 1 fails before the table (VM templates).
"""
from .. import anchors as A
from ..facts import walk_body, walk, loc, peel, callee_def, callee_name, user_macros_of
from ..census import arith_sites, local_of
from ..tables import Table, find_matches, OTHER
from . import shared

LEVEL = "other"
KINDS = ["Null", "Integer", "Boolean", "Reference"]

INT_ARITH = {"+": "add", "add": "add", "-": "sub", "sub": "sub", "*": "mul", "mul": "mul", "/": "div", "div": "div", "%": "rem", "mod": "rem"}
INT_CMP = {"<=": "le", "le": "le", ">=": "ge", "ge": "ge", "<": "lt", "lt": "lt", ">": "gt", "gt": "gt"}
EQ = {"==": "eq", "eq": "eq", "!=": "ne", "neq": "ne"}
BOOL_LOGIC = {"&": "and", "and": "and", "|": "or", "or": "or"}

# accepted implementations of an abstract action (profile independence is R9.profile's business)
ARITH_FORMS = {
    "add": {"bin:Add", "call:wrapping_add"}, "sub": {"bin:Sub", "call:wrapping_sub"}, "mul": {"bin:Mul", "call:wrapping_mul"},
    # `/` must fail on 0 and on MIN/-1 (plain operator does, unconditionally); `%` must fail on 0, (MIN,-1) unspecified
    "div": {"bin:Div"}, "rem": {"bin:Rem", "call:wrapping_rem"},
}


def expected(table, name, kind):
    """S4: abstract action for (receiver table, method name, argument kind)"""
    if table == "integer":
        if name in INT_ARITH:
            return ("int", INT_ARITH[name]) if kind == "Integer" else ("fail",)
        if name in INT_CMP:
            return ("cmp", INT_CMP[name]) if kind == "Integer" else ("fail",)
        if name in EQ:
            if kind == "Integer":
                return ("cmp", EQ[name])
            return ("const", EQ[name] == "ne")
        return ("fail",)
    if table == "boolean":
        if name in BOOL_LOGIC:
            return ("logic", BOOL_LOGIC[name]) if kind == "Boolean" else ("fail",)
        if name in EQ:
            if kind == "Boolean":
                return ("cmp", EQ[name])
            return ("const", EQ[name] == "ne")
        return ("fail",)
    if table == "null":
        if name in EQ:
            if kind == "Null":
                return ("const", EQ[name] == "eq")
            return ("const", EQ[name] == "ne")
        return ("fail",)


def operand_name(n, recv_lid, arg_lids):
    l = local_of(n)
    if l is None:
        return None
    if l[0] == recv_lid:
        return "receiver"
    if l[0] in arg_lids:
        return "argument"
    return l[1]


def summarise(fx, body, recv_lid, arg_lids):
    """abstract action of an arm body: ('int'|'cmp'|'logic', form, operands) / ('const', b) / ('fail',) / ('?', why)"""
    b = peel(body)
    if (fx.ty(b) or "") == "!" or (b.get("k") == "Block" and _diverges(fx, b)):
        return ("fail",)
    if b.get("k") == "Block" and "expr" in b["block"] and not b["block"]["stmts"]:
        b = peel(b["block"]["expr"])
    # Pointer::from(X) / Pointer::Integer(X) / Pointer::Boolean(X)
    if b.get("k") == "Call" and b.get("args") and len(b["args"]) == 1:
        cn = callee_name(b) or ""
        ctor = (b.get("ctor") or {}).get("variant")
        if cn.startswith("<bytecode::heap::Pointer as std::convert::From<") or ctor in ("Integer", "Boolean"):
            x = peel(b["args"][0])
            return _expr(fx, x, recv_lid, arg_lids)
    return ("?", "arm body is not Pointer::from(<expr>) nor a failure: %s" % b.get("k"))


def _diverges(fx, b):
    blk = b["block"]
    if "expr" in blk:
        return (fx.ty(peel(blk["expr"])) or "") == "!"
    if blk["stmts"] and blk["stmts"][-1]["k"] in ("Semi", "Expr"):
        return (fx.ty(blk["stmts"][-1]["e"]) or "") == "!"
    return False


def _expr(fx, x, recv_lid, arg_lids):
    k = x.get("k")
    if k == "Lit" and x["lit"].get("t") == "bool":
        return ("const", x["lit"]["v"])
    if k == "Binary":
        ops = [operand_name(x["lhs"], recv_lid, arg_lids), operand_name(x["rhs"], recv_lid, arg_lids)]
        op = x["op"]
        if op in ("Add", "Sub", "Mul", "Div", "Rem"):
            return ("int", "bin:" + op, ops)
        if op in ("Le", "Ge", "Lt", "Gt", "Eq", "Ne"):
            return ("cmp", op.lower(), ops)
        if op in ("And", "Or", "BitAnd", "BitOr"):
            return ("logic", {"And": "and", "Or": "or", "BitAnd": "and", "BitOr": "or"}[op], ops)
        return ("?", "operator " + op)
    if k in ("MethodCall", "Call") and x.get("callee"):
        name = x["callee"]["name"]
        args = ([x["recv"]] if k == "MethodCall" else []) + x["args"]
        ops = [operand_name(a, recv_lid, arg_lids) for a in args]
        prim = (x["callee"].get("impl_self") or x["callee"].get("inst_self") or "")
        if prim in ("i32",) or name.startswith(("wrapping_", "checked_", "saturating_", "overflowing_")) or name in ("rem_euclid", "div_euclid"):
            return ("int", "call:" + name, ops)
        return ("?", "call " + name)
    return ("?", k)


# ----------------------------------------------------------------------------------- symbolic cell evaluation

POINTER = "bytecode::heap::Pointer"


def arity_paths(fx, tname, name, n_args):
    """the dispatch entry executed for a primitive receiver and `n_args` integer arguments"""
    return cell_paths(fx, None, tname, name, "Boolean" if tname == "boolean" else "Integer", n_args=n_args)


def cell_paths(fx, path, tname, name, kind, n_args=1):
    """Execute the VM's method dispatch symbolically for one cell: a primitive receiver of the table's kind,
    a concrete method name, one argument of the given kind with a symbolic payload. Everything is inlined
    (the common entry point dispatch_method is used, so a spelling that is canonicalised before the tables is
    still found, and helpers / refactorings do not matter). The value pushed on the operand stack is the result."""
    from ..symex import Executor, State, lit as L
    from ..vm_scheme import VMClient
    from .c05_vm import events
    b = fx.body(A.get("dispatch_method"))
    ex = Executor(fx, VMClient(track_builtins=False))
    arg = ("ctor", POINTER, kind, () if kind == "Null" else (("0", ("var", "argument")),))
    rk = {"integer": "Integer", "boolean": "Boolean", "null": "Null"}[tname]
    recv = ("ctor", POINTER, rk, () if rk == "Null" else (("0", ("var", "receiver")),))
    # dispatch_method(program, state, receiver_pointer, method_name, argument_pointers) — by position
    argv = (arg,) if n_args == 1 else tuple(("ctor", POINTER, kind, (("0", ("var", "argument%d" % i)),)) for i in range(n_args))
    args = [("var", "program"), ("var", "state"), recv, L(name), ("app", "array", argv)]
    if len(b["params"]) != 5:
        raise ValueError("dispatch_method has %d parameters" % len(b["params"]))
    res = ex.run_body(b, args, State())
    out = []
    for s_, o in res:
        if o[0] == "val" and isinstance(o[1], tuple) and o[1][0] == "ok":
            pushes = [e for e in events(s_.eff) if e["e"] == "push"]
            if len(pushes) == 1:
                o = ("val", ("ok", pushes[0]["val"]))
            else:
                o = ("val", ("ok", ("unknown", "%d pushes" % len(pushes))))
        out.append({"eff": s_.eff, "out": o})
    return out


def _origin_call(effs, term):
    t = term
    while isinstance(t, tuple) and t and t[0] == "payload":
        t = t[1]
    for e in effs:
        if e["k"] == "call" and e.get("res") == t:
            return e["args"][0][1].rsplit("::", 1)[-1], e["args"][1:]
    return None, None


def classify_paths(paths):
    """→ (successes [(head, operands, assumptions)], failures [assumption texts])"""
    from ..symdbg import fmt_term
    succ, fail = [], []
    for p in paths:
        o = p["out"]
        assumes = [(fmt_term(e["args"][0]), e["args"][1] == ("lit", True)) for e in p["eff"] if e["k"] == "assume"]
        if o[0] == "val" and isinstance(o[1], tuple) and o[1][0] == "ok":
            v = o[1][1]
            if v[0] == "ctor" and v[1] == POINTER and v[2] in ("Integer", "Boolean") and v[3]:
                t = v[3][0][1]
                if t[0] == "lit":
                    succ.append(("const", t[1], assumes))
                elif t[0] == "app":
                    succ.append((t[1], t[2], assumes))
                elif t[0] == "payload":
                    nm, a = _origin_call(p["eff"], t)
                    succ.append((nm or "?", tuple(a or ()), assumes))
                else:
                    succ.append(("?" + str(t[0]), (), assumes))
            elif v[0] == "ctor" and v[1] == POINTER and v[2] == "Null":
                succ.append(("null", (), assumes))
            else:
                succ.append(("?value", (), assumes))
        else:
            fail.append(assumes)
    return succ, fail


RECV_ARG = (("var", "receiver"), ("var", "argument"))
ACCEPT = {
    ("int", "add"): {"add", "wrapping_add"}, ("int", "sub"): {"sub", "wrapping_sub"}, ("int", "mul"): {"mul", "wrapping_mul"},
    ("int", "div"): {"div", "checked_div"}, ("int", "rem"): {"rem", "wrapping_rem", "checked_rem"},
    ("cmp", "le"): {"le"}, ("cmp", "ge"): {"ge"}, ("cmp", "lt"): {"lt"}, ("cmp", "gt"): {"gt"}, ("cmp", "eq"): {"eq"}, ("cmp", "ne"): {"ne"},
    ("logic", "and"): {"and", "bitand"}, ("logic", "or"): {"or", "bitor"},
}


def judge(want, succ, fail):
    """compare a cell's symbolic outcome with S4 → (ok, description, why)"""
    desc = "; ".join("%s(%s)" % (h, ", ".join(_t(a) for a in ops)) if not isinstance(ops, bool) and h != "const" else "const %s" % ops for h, ops, _ in succ) or "fails"
    if want[0] == "fail":
        return (not succ), desc, "S4 demands failure, but a path completes with a value"
    if not succ:
        return False, desc, "S4 defines a result, but every path fails"
    if want[0] == "const":
        ok = all(h == "const" and ops is want[1] for h, ops, _ in succ) and not fail
        return ok, desc, "S4 says constant %s (and no failure)" % str(want[1]).lower()
    forms = ACCEPT[(want[0], want[1])]
    for h, ops, assumes in succ:
        if h not in forms:
            extra = ""
            if want[1] == "div" and h in ("wrapping_div", "overflowing_div"):
                extra = " — %s returns MIN for MIN / -1 instead of failing" % h
            if want[1] == "rem" and h in ("rem_euclid",):
                extra = " — rem_euclid is never negative; S4 takes the dividend's sign"
            return False, desc, "`%s` is not %s as specified (accepted forms: %s)%s" % (h, want[1], sorted(forms), extra)
        if tuple(ops[:2]) != RECV_ARG:
            return False, desc, "operands are (%s), expected (receiver, argument)" % ", ".join(_t(a) for a in ops)
    # explicit failure paths: only division/remainder may fail, and only on a zero divisor (or MIN/-1)
    if fail:
        if want[1] not in ("div", "rem"):
            return False, desc, "the operation is not total: it fails under %s" % (fail[0][-1:] or "some condition")
        for assumes in fail:
            conds = [t for t, v in assumes if "argument" in t]
            if not conds:
                return False, desc, "fails under a condition that is not about the divisor: %s" % (assumes[-1:],)
    return True, desc, ""


def _t(x):
    from ..symdbg import fmt_term
    return fmt_term(x) if isinstance(x, tuple) else str(x)


def _tables(ck, fx, cg, feeny=False, rule="R9.table"):
    specs = [("integer", A.get("dispatch_integer"), set(INT_ARITH) | set(INT_CMP) | set(EQ)),
             ("boolean", A.get("dispatch_boolean"), set(BOOL_LOGIC) | set(EQ)),
             ("null", A.get("dispatch_null"), set(EQ))]
    total_cells = 0
    entry_b = fx.body(A.get("dispatch_method"))
    for tname, path, need_names in specs:
        b = fx.body(path)
        ms = [m for m in find_matches(b) if peel(m["scrut"]).get("k") == "Tup"] if b else []
        T = Table(fx, ms[0]) if ms else None
        if b is None or not ms or not T.ok or T.arity != 2:
            # the table is not one `match (name, argument)` in a function of the known name (renamed, turned into an
            # enum, split): the cells are still decided by executing the dispatch entry; the spellings to probe are S4's
            # plus every string literal in the code the entry reaches
            if not ck.anchor(rule, "dispatch entry " + A.get("dispatch_method"), entry_b):
                continue
            m = None
            T = None
            extra = set()
            ds = cg.dids_of(A.get("dispatch_method"))
            for d in (cg.reachable(ds) if ds else ()):
                hb2 = fx.hir_by_did.get(d)
                if hb2 is None or hb2["from_expansion"]:
                    continue
                for n2, _ in walk_body(hb2):
                    if n2.get("k") == "Lit" and (n2.get("lit") or {}).get("t") == "str" and not user_macros_of(n2):
                        v2 = n2["lit"]["v"]
                        if isinstance(v2, str) and 0 < len(v2) <= 5 and " " not in v2:
                            extra.add(v2)
            lits0 = extra
        else:
            ck.fn(path)
            m = ms[0]
            T.enum_variants = [None, KINDS]
            lits0 = T.lits[0]
        recv_lid = b["params"][0]["lid"] if b and tname != "null" and b["params"] and b["params"][0].get("k") == "Binding" else None
        names = sorted(n_ for n_ in need_names if n_ in FML_SPELLINGS) + sorted(
            l for l in lits0 if isinstance(l, str) and l not in need_names and (T is not None or l not in ALL_S4_NAMES)) + [OTHER]
        if feeny:
            names = sorted(n_ for n_ in need_names if n_ not in FML_SPELLINGS)
        for name in names:
            for kind in KINDS:
                total_cells += 1
                key = "%s|%s × %s" % (tname, name, kind)
                want = expected(tname, name if name != OTHER else "<other>", kind)
                try:
                    paths = cell_paths(fx, path, tname, name if name != OTHER else "\u27e8other\u27e9", kind)
                    succ, fail = classify_paths(paths)
                    ok, desc, why = judge(want, succ, fail)
                    ck.ob(rule, key, ok, loc(m) if m else "", "%s; S4: %s%s" % (desc, _show(want), "" if ok else " — " + why))
                    if len(ck.samples) < 14 and name in ("+", "/", "eq", "&", OTHER, "=="):
                        ck.sample({"rule": rule, "cell": key, "outcome": desc, "expected": _show(want)})
                    continue
                except Exception as e:  # fall back to pattern-level evaluation
                    ck.note("symbolic evaluation of cell %s failed (%s: %s); falling back to first-match table evaluation" % (key, type(e).__name__, str(e)[:80]))
                    if T is None:
                        ck.ob(rule, key, False, "", "the cell cannot be evaluated through the dispatch entry (%s: %s) — unprovable" % (type(e).__name__, str(e)[:120]))
                        continue
                cell = (name, ("variant", kind))
                ai = T.first_match(cell)
                if ai is None or ai < 0:
                    ck.ob(rule, key, False, loc(m), "cannot decide the first matching arm (unprovable)" if ai is None else "no arm matches")
                    continue
                arm = m["arms"][ai]
                arg_lids = set()
                _bindings(arm["pat"], arg_lids)
                got = summarise(fx, arm["body"], recv_lid, arg_lids)
                ok, why = _agree(got, want)
                ck.ob(rule, key, ok, loc(arm["body"]), "arm %d: %s; S4: %s%s" % (ai, _show(got), _show(want), "" if ok else " — " + why),
                      nontrivial=True)
        # sibling agreement operator ↔ Feeny spelling: same arm action for every kind (implied by S4, reported explicitly)
    ck.floor(rule, "table cells evaluated", total_cells, 68 if feeny else 80)


FML_SPELLINGS = {"+", "-", "*", "/", "%", "<=", ">=", "<", ">", "==", "!=", "&", "|"}
ALL_S4_NAMES = set(INT_ARITH) | set(INT_CMP) | set(EQ) | set(BOOL_LOGIC)


def run(ck, fx, cg, tier, feeny=False, rule="R9.table"):
    if feeny:
        return _tables(ck, fx, cg, feeny=True, rule=rule)
    ck.explanation = (
        "The built-in operations are finite decision tables: `match (method name, argument kind)` in the three "
        "dispatch functions. Pattern-matching semantics (first match, or-patterns, guards) are evaluated over the "
        "finite partition {every spelling that occurs, OTHER} × {Null, Integer, Boolean, Reference}; the action of "
        "every cell — a closed form over the receiver and argument whose meaning is fixed by the operator/method "
        "identity (wrapping add, truncating division that fails on 0 and MIN/-1, remainder with the dividend's "
        "sign, mathematical comparisons, strict boolean logic, constant true/false, failure) — is compared with "
        "S4, including the Feeny spellings and operand order. Because the actions are closed forms over i32 this "
        "decides the tables for ALL operand values. 'Same in debug and release' is decided at the operator level: "
        "plain + - * and unary - on i32 inherit overflow checks and are rejected (wrapping_* required); / and % "
        "check zero/overflow unconditionally. LLVM trusted.")
    ck.trusted_base = ["rustc resolution/type check", "fml-facts dumper", "Rust operator semantics on i32 (/, % panic on zero and MIN/-1 in every profile; plain + - * follow overflow-checks)",
                       "S4 table (README operator tables + property statement)"]
    from .. import canary
    canary.require(ck, {'Rx.cfg', 'Rx.profile'})
    _tables(ck, fx, cg, feeny=False, rule="R9.table")
    # ---------------------------------------------------------------- profile independence
    n_sites = 0
    roots = cg.dids_of(A.get("dispatch_method")) + cg.dids_of(A.get("evaluate_with"))
    reach = cg.reachable(roots)
    for d in sorted(reach):
        hb = fx.hir_by_did.get(d)
        if not hb or hb["from_expansion"]:
            continue
        tainted = shared.cli_tainted_locals(fx, cg, hb)
        for n, ps, op, prim in arith_sites(hb):
            cls, why = shared.classify_arith(fx, hb, n, prim, tainted)
            if prim == "i32" or cls == "value":
                n_sites += 1
                ck.ob("R9.profile", "%s|%s %s#%d" % (hb["path"], op, prim, shared.ordinal(hb, n)), False, loc(n),
                      "plain `%s` on %s: panics in debug builds (overflow-checks on) and wraps in release builds" % (op, why))
        for n, ps in walk_body(hb):
            if n.get("k") == "Lit" and "cfg" in user_macros_of(n):
                ck.ob("R9.nocfg", "%s|cfg!" % hb["path"], False, loc(n), "cfg!(…) in VM code")
            if any(mm.startswith("debug_assert") for mm in user_macros_of(n)) and n.get("k") in ("If", "Call"):
                ck.ob("R9.nocfg", "%s|debug_assert" % hb["path"], False, loc(n), "debug_assert*! in VM code")
    ck.ob("R9.profile", "no profile-dependent arithmetic on FML integers in the VM", n_sites == 0, "", "%d plain overflow-sensitive i32 operation(s) in %d reachable functions" % (n_sites, len(reach)))
    # ---------------------------------------------------------------- the operation is executed at all
    # "fails the program" is an effect: an operator application must be compiled whether or not its value is used
    from .c10 import _no_elision
    _no_elision(ck, fx, rule="R9.executed", only={"CallMethod"}, floor=1)
    # an infix operator reaches the VM as the method call the tables answer: the parser's constructor is plain
    from . import shared as _sh
    for cname, okc, whyc in _sh.ast_constructors(fx, only={"operation", "call_operator", "call_method"}):
        ck.ob("R9.executed", "parser|AST::%s" % cname, okc, "src/parser/mod.rs", whyc)
    # … and it is executed as *that* operation: an arm of the compiler compiles its own children, never a part of one —
    # `if e != null` compiled as "branch on e" (the comparison by-passed because Branch tests for null-ness anyway) lets
    # truthiness answer where the table says `false != null`. These are C12's R12.place obligations.
    _sh.presuppose(ck, fx, cg, "C12", lambda o: o["rule"] == "R12.place", "R9.executed",
                   "an operator application is compiled where it stands, never by-passed (C12 R12.place)", floor=20)
    # "any other combination fails the program": the Err a built-in raises has to reach the process' exit status —
    # C10's propagation obligations on the path from the dispatch tables to `main` (no `.ok()`, `unwrap_or_else(print)`,
    # swallowed Result; no success exit after a failure), evaluated as one presupposition
    _sh.presuppose(ck, fx, cg, "C10", lambda o: o["rule"] in ("R10.propagate", "R10.noexit0"), "R9.fails",
                   "a failing built-in fails the program (its error reaches the exit status)", floor=10)
    # the operands range over all of i32: every integer literal of the source denotes its value (the NUMBER terminal and
    # the Number alternative: sign included in the token, parsed as one i32) — C07's obligations on them
    _sh.presuppose(ck, fx, cg, "C07", lambda o: (o["rule"] == "R7.tree" and o["key"].startswith("Number ::=")) or (o["rule"] == "R7.lexer" and o["key"] == "NUMBER")
                   or (o["rule"] == "R7.tree" and o["key"] == "every documented form exists"), "R9.range",
                   "integer literals denote their value over the whole 32-bit range", floor=2)
    # wrapping forms are present where S4 says wrapping (positive evidence for + - *)
    # ---------------------------------------------------------------- arity
    from . import c14_templates
    c14_templates._arity(ck, fx)


def _bindings(p, acc):
    k = p["k"]
    if k == "Binding":
        acc.add(p["lid"])
        if "sub" in p:
            _bindings(p["sub"], acc)
    for key in ("pats",):
        for x in p.get(key, []) or []:
            _bindings(x, acc)
    if "pat" in p and isinstance(p["pat"], dict):
        _bindings(p["pat"], acc)
    for f in p.get("fields", []) or []:
        _bindings(f["pat"], acc)


def _show(a):
    if a[0] in ("int", "cmp", "logic") and len(a) > 2:
        return "%s %s(%s)" % (a[0], a[1], ", ".join(str(o) for o in a[2]))
    return " ".join(str(x) for x in a)


def _agree(got, want):
    if got[0] == "?":
        return False, "action not understood (%s) — unprovable" % got[1]
    if want[0] == "fail":
        return got[0] == "fail", "S4 demands failure"
    if want[0] == "const":
        return got == want, "constant differs"
    if got[0] != want[0]:
        return False, "different kind of action"
    if want[0] == "int":
        forms = ARITH_FORMS[want[1]]
        if got[1] not in forms:
            return False, "`%s` is not %s as specified (accepted: %s)" % (got[1], want[1], sorted(forms))
    elif got[1] != want[1]:
        return False, "operation differs"
    if list(got[2]) != ["receiver", "argument"]:
        return False, "operands are %s, expected (receiver, argument)" % (got[2],)
    return True, ""
