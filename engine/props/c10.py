"""C10 — failing programs stop cleanly at the fault; no native crash.

R10.propagate  no Result is dropped / swallowed in code reachable from main.
R10.noexit0    no process::exit/abort/catch_unwind/set_hook, no stderr writes on Ok paths, no panic=abort.
R10.nounsafe   zero user-written unsafe in the crate (incl. the generated parser).
R10.recursion  every call-graph cycle reachable from main is listed with a bound; cycles that traverse
               heap references read from mutable storage must carry an on-path guard failing with Err.
R10.atomic     in eval_print no failure exit is reachable after an observable write (other than the
               failure of a write itself).
R10.faults     (E3, see c10_faults) each fault class of the statement is detected and leads to Err.
"""
from .. import anchors as A
from ..facts import walk_body, walk, callee_def, callee_name, loc, peel, user_macros_of
from ..census import preorder_index, may_follow
from . import shared

LEVEL = "other"

FORBIDDEN_CALLS = {
    "std::process::exit": "exits with a status chosen by the code (can report success after a failure)",
    "std::process::abort": "aborts natively (SIGABRT)",
    "std::panic::catch_unwind": "can swallow a failure",
    "std::panic::set_hook": "can silence the diagnostic",
    "std::panic::take_hook": "can silence the diagnostic",
    "std::panic::resume_unwind": "re-raises without diagnostic",
    "std::intrinsics::abort": "aborts natively",
    "std::mem::forget": "skips destructors (buffered output may be lost)",
}
STDERR_CALLS = {"std::io::stderr"}
STDERR_MACROS = {"eprintln", "eprint", "dbg"}

# accepted recursive components: name -> (member predicate, bound argument)
SCC_TABLE = [
    ("compile", lambda p: p.startswith("<parser::AST as bytecode::compiler::Compiled>::compile_into") or p == "bytecode::compiler::compile_function_definition",
     "bounded by the nesting depth of the AST being compiled (quantifier: source nesting ≤ 200)"),
    ("dispatch", lambda p: p in ("bytecode::interpreter::dispatch_method", "bytecode::interpreter::dispatch_object_method"),
     "bounded by the receiver's parent-chain length; chains are acyclic because ObjectInstance.parent is written only at construction (checked: who-may-write)"),
    ("render", lambda p: p.endswith("::evaluate_as_string") or "::evaluate_as_string::{closure" in p or "evaluate_as_string_" in p or "::render" in p,
     "traverses heap references stored in mutable array elements / object fields: requires an on-path guard (checked)"),
]


def run(ck, fx, cg, tier):
    ck.explanation = (
        "Error discipline and crash-freedom decided structurally on the resolved program reachable from main: "
        "(propagate) every Result-typed expression is `?`-propagated, returned, expect/unwrap-ed, matched with failing "
        "Err arms, or handed on — the enumerated discard idioms (`expr;`, `let _`, .ok(), .unwrap_or*, .is_ok/.is_err, "
        "`if let Ok`, Err-arms completing normally, unused bindings) count as violations; (noexit0) no exit/abort/"
        "catch_unwind/hook/stderr-on-success; (nounsafe) no user-written unsafe incl. the generated parser; "
        "(recursion) every call-graph SCC reachable from main is in a table with its bound, the parent field is "
        "construction-only, and cycles through mutable heap storage carry an on-path guard; (atomic) in eval_print no "
        "failure exit may follow an observable write. Fault-detection rows (R10.faults) are decided by the VM-op "
        "templates. Not decided: native stack bytes consumed, malformed-source classes, stderr text.")
    ck.trusted_base = ["rustc resolution/type check", "fml-facts dumper", "MIR call graph", "std panics unwind (panic=unwind)",
                       "Result::expect/unwrap panic with a message on stderr and exit status 101"]
    main_dids = cg.dids_of(A.get("main"))
    from .. import canary
    canary.require(ck, {'R10.noexit0', 'Rx.propagate', 'R10.nounsafe'})
    ck.anchor("R10", "main", main_dids or None)
    reach = cg.reachable(main_dids)
    # ------------------------------------------------------------ propagate + censuses
    n_res = 0
    n_fns = 0
    for did in sorted(reach):
        hb = fx.hir_by_did.get(did)
        if hb is None or hb["from_expansion"]:
            continue
        n_fns += 1
        ck.fn(hb["path"])
        n_res += shared.result_discipline(ck, fx, hb, "R10.propagate")
        for n, ps in walk_body(hb):
            k = n.get("k")
            if k in ("Call", "MethodCall") and n.get("callee"):
                cd = callee_def(n)
                if cd in FORBIDDEN_CALLS:
                    ck.ob("R10.noexit0", "%s|%s" % (hb["path"], cd), False, loc(n), "%s: %s" % (cd, FORBIDDEN_CALLS[cd]))
                if cd in STDERR_CALLS:
                    ck.ob("R10.noexit0", "%s|stderr" % hb["path"], False, loc(n), "writes to stderr outside a failure path")
            ms = set(user_macros_of(n))
            if k in ("Call", "MethodCall", "FormatArgs") and ms & STDERR_MACROS:
                ck.ob("R10.noexit0", "%s|%s!" % (hb["path"], sorted(ms & STDERR_MACROS)[0]), False, loc(n),
                      "stderr output on a path that may succeed (successful runs must leave stderr empty)")
            if k == "Block" and n["block"].get("unsafe") and "UserProvided" in n["block"].get("unsafe_src", ""):
                ck.ob("R10.nounsafe", "%s|unsafe block" % hb["path"], False, loc(n), "user-written unsafe block")
    ck.floor("R10.propagate", "Result-typed expressions examined", n_res, 50)
    ck.floor("R10.propagate", "functions reachable from main (with HIR)", n_fns, 50)
    ok, where, why = shared.cargo_profile_neutral()
    ck.ob("R10.noexit0", "Cargo.toml|panic strategy", ok and fx.meta["panic"] == "Unwind", where, why + "; analysed build: panic=%s" % fx.meta["panic"])
    # the CLI actions consume the interpreter's Result by a diverging call
    for role in ("cli.run", "cli.interpret", "cli.compile", "cli.parse", "cli.disassemble"):
        hb = fx.body(A.get(role))
        ck.anchor("R10.propagate", role, hb)
    # ------------------------------------------------------------ unsafe census (whole crate)
    ck.ob("R10.nounsafe", "crate|unsafe blocks outside src (generated parser)", fx.unsafe_non_src == 0, "",
          "%d user-written unsafe block(s)/fn(s) in bodies outside src/ (LALRPOP output)" % fx.unsafe_non_src)
    n_unsafe_impl = sum(1 for i in fx.impls if i.get("unsafe") and i.get("in_src") and not i.get("from_expansion"))
    ck.ob("R10.nounsafe", "crate|unsafe impls", n_unsafe_impl == 0, "", "%d hand-written unsafe impl(s)" % n_unsafe_impl)
    # ------------------------------------------------------------ recursion
    _recursion(ck, fx, cg, reach)
    # ------------------------------------------------------------ atomic print
    _atomic_print(ck, fx, cg)
    # ------------------------------------------------------------ program output is written through
    _output_through(ck, fx, cg)
    # ------------------------------------------------------------ faults are not compiled away
    _no_elision(ck, fx)
    # ------------------------------------------------------------ fault detection (VM templates)
    from . import c05_vm
    c05_vm.fault_rules(ck, fx, cg, "R10.faults")
    c05_vm.fault_rows(ck, fx, cg, "R10.faults")
    # "unknown method": the parent-chain walk must END in a failure — decided precisely by C14's dispatch rules
    shared.presuppose(ck, fx, cg, "C14", lambda o: o["rule"] == "R14.dispatch" and ("missing method" in o["key"] or "failure" in o["key"]), "R10.faults",
                      "detect|unknown method: the parent chain ends in a failure", floor=1)
    # "successful runs exit with status zero", "no abort": the memory flags take no part in execution — a flag value that
    # sizes an allocation (`reserve(max_size / ..)`) makes the allocator abort the process (SIGABRT, stdout lost) before
    # the first instruction runs. That the --heap-size number reaches nothing but the stored limit is C16's R16.inert.
    shared.presuppose(ck, fx, cg, "C16", lambda o: o["rule"] == "R16.inert", "R10.noexit0",
                      "the memory flags are inert: no flag value sizes an allocation or steers execution (C16 R16.inert)", floor=5)


PURE_OPS = {"Literal", "Drop", "GetLocal"}   # cannot fault at run time: leaving them out changes nothing observable


def _no_elision(ck, fx, rule="R10.elide", only=None, floor=18):
    """A fault is detected by the instruction that performs the undefined operation (get global on an unknown name,
    call function / call method slot, get / set field, array, print …). "Execution stops there" therefore needs that
    instruction to exist even when the construct's value is not used: `keep_result` may decide whether the value is
    dropped, never whether the operation is compiled. For every AST kind the sequence of faulting instructions and
    recursive compiles of the keep=false templates must be the ones of the keep=true templates."""
    from .c02 import templates, frame_label, all_items
    from ..template import stream, is_ok_result
    T = templates(fx)
    if not ck.anchor(rule, "compile_into templates", T):
        return

    def sig(items):
        out = []
        for it in items:
            if it.kind == "emit":
                name = it.op[2] if it.op[0] == "ctor" else "?"
                if name not in PURE_OPS:
                    out.append(name)
            elif it.kind == "rec":
                out.append("compile(%s)" % _short_term(it.child))
            elif it.kind == "foreach":
                out.append(("each", tuple(sorted({tuple(sig(v["items"])) for v in it.variants}, key=repr))))
        return tuple(out)

    n = 0
    variants = sorted({v for v, k in T if only is None or v in only})
    for v in variants:
        sigs = {}
        bad = None
        for keep in (True, False):
            ent = T.get((v, keep))
            if ent is None or ent[2] or not [p for p in ent[1] if is_ok_result(p)]:
                bad = "no template for keep=%s (unprovable)" % keep
                break
            sigs[keep] = {sig(stream(p["eff"])) for p in ent[1] if is_ok_result(p)}
        n += 1
        if bad:
            ck.ob(rule, v, False, "", bad)
            continue
        missing = sigs[True] - sigs[False]
        extra = sigs[False] - sigs[True]
        ok = not missing and not extra
        ck.ob(rule, v, ok, "",
              "keep=false compiles the same faulting instructions and children as keep=true (%d shape(s))" % len(sigs[True]) if ok else
              "with the value discarded the arm compiles %s where the value-keeping form compiles %s: an undefined operation in a discarded position is not executed, so the program runs past the fault" % (
                  [list(x) for x in sorted(extra, key=repr)] or "nothing else", [list(x) for x in sorted(missing, key=repr)]))
    ck.floor(rule, "AST kinds compared", n, floor)


def _short_term(t):
    from ..symdbg import fmt_term
    return fmt_term(t)[:40]


def _recursion(ck, fx, cg, reach):
    sccs = cg.sccs(reach)
    seen = set()
    for comp in sccs:
        names = sorted(cg.path[d] for d in comp)
        in_src = [d for d in comp if cg.bodies[d]["in_src"]]
        if not in_src:
            # generated parser internals: table-driven LR automaton; recursion here would be in LALRPOP's runtime
            key = "generated:" + names[0]
            ck.ob("R10.recursion", key, False, "", "recursive component in generated code: %s" % names[:4])
            continue
        label = None
        for name, pred, bound in SCC_TABLE:
            if all(pred(p) for p in names):
                label = (name, bound)
                break
        key = "scc:" + (label[0] if label else names[0])
        if not label:
            derived = all(cg.bodies[d].get("from_expansion") for d in comp)
            if derived:
                ck.ob("R10.recursion", "scc:derive:" + names[0], True, "", "derive-generated structural recursion over the AST (bounded by AST depth): %s" % names[:3], nontrivial=False)
                continue
            ok_s, why_s = _structural_over_ast(fx, cg, comp)
            if ok_s:
                ck.ob("R10.recursion", "scc:structural:" + names[0], True, loc(cg.bodies[comp[0]]),
                      "structural recursion over the (owned, acyclic) AST — %s: bounded by the nesting depth of the source like compile_into: %s" % (why_s, names[:3]))
                continue
            # recursion over heap values that the table does not know by name (renamed / restructured): the same two
            # arguments are tried structurally — it follows only the construction-only `parent` link, or it carries an
            # on-path guard
            if _takes_heap(fx, cg, comp):
                ok_p, why_p = _parent_chain_only(fx, cg, comp)
                if ok_p:
                    okc, whyc = _parent_construction_only(fx)
                    ck.ob("R10.recursion", "scc:parent-chain:" + names[0], okc, loc(cg.bodies[comp[0]]), "%s — recursion follows the parent link only (%s); %s" % (names[:3], why_p, whyc))
                    seen.add("dispatch")
                    continue
                ok_g, why_g, where_g = _render_guard(fx, cg, comp)
                ck.ob("R10.recursion", "scc:heap-traversal:" + names[0], ok_g, where_g, "%s — %s" % (names[:4], why_g))
                seen.add("render")
                continue
            ck.ob("R10.recursion", key, False, loc(cg.bodies[comp[0]]),
                  "unlisted recursive component (no bound argument on file; %s): %s" % (why_s, names))
            continue
        seen.add(label[0])
        if label[0] == "compile":
            ck.ob("R10.recursion", key, True, "", "%s — %s" % (names, label[1]))
        elif label[0] == "dispatch":
            ok, why = _parent_construction_only(fx)
            ck.ob("R10.recursion", key, ok, "", "%s — %s; %s" % (names, label[1], why))
        elif label[0] == "render":
            ok, why, where = _render_guard(fx, cg, comp)
            ck.ob("R10.recursion", key, ok, where, "%s — %s" % (names[:4], why))
        ck.sample({"rule": "R10.recursion", "scc": label[0], "members": names, "bound": label[1]})
    ck.floor("R10.recursion", "listed recursive components found", len(seen), 2)
    # native recursion hidden in a *value*: an error wrapped once per element of a run-time collection (`.context(..)` in a
    # loop / fold over the frames, the operand stack, …) is a chain as long as that collection, and anyhow drops a chain
    # recursively — a failure at FML call depth 10^5 then overflows the native stack while the error is being dropped
    n_ctx = 0
    for did in sorted(reach):
        hb_c = fx.hir_by_did.get(did)
        if hb_c is None or hb_c["from_expansion"]:
            continue
        for n_, ps_ in walk_body(hb_c):
            if n_.get("k") == "MethodCall" and n_["name"] in ("context", "with_context") and "anyhow" in str((n_.get("callee") or {}).get("def") or "") + str((n_.get("callee") or {}).get("inst") or ""):
                n_ctx += 1
                # is the value being wrapped itself already an error (`error.context(..)`), and does this happen per element?
                rt = (fx.ty(n_["recv"]) or "")
                on_error = rt.endswith("anyhow::Error") or rt == "anyhow::Error"
                chain = [q if isinstance(q, dict) else q[1] for q in ps_ if isinstance(q, dict) or (isinstance(q, tuple) and len(q) == 2 and isinstance(q[1], dict))]
                in_loop = any(q.get("k") == "Loop" or (q.get("k") == "Match" and q.get("src") == "ForLoopDesugar") for q in chain)
                in_fold = any(q.get("k") == "Closure" for q in chain) and any(q.get("k") == "MethodCall" and q.get("name") in ("fold", "try_fold", "rfold", "reduce", "scan") for q in chain)
                if on_error and (in_loop or in_fold):
                    ck.ob("R10.recursion", "%s|error chain grows per element" % hb_c["path"], False, loc(n_),
                          "an anyhow::Error is wrapped with .%s() once per element of a run-time collection: the chain is as long as the collection and is dropped recursively (native stack overflow at FML call depth 10^5)" % n_["name"])
    ck.ob("R10.recursion", "no error chain proportional to a run-time collection", True, "", "%d .context()/.with_context() call(s) examined in the reachable code" % n_ctx, nontrivial=False)
    # the fetch-execute loop itself must not recurse natively (FML calls use the frame Vec)
    eo = cg.dids_of(A.get("eval_opcode"))
    ck.anchor("R10.recursion", "eval_opcode", eo or None)
    in_cycle = any(eo and eo[0] in comp for comp in sccs)
    ck.ob("R10.recursion", "eval_opcode not recursive", not in_cycle, "", "FML calls push frames on a Vec; eval_opcode is in %s SCC" % ("an" if in_cycle else "no"))


def _takes_heap(fx, cg, comp):
    for d in comp:
        hb = fx.hir_by_did.get(d)
        if hb is None:
            continue
        tys = [fx.tyname(p.get("ty")) or "" for p in hb["params"]] + [hb.get("impl_self") or ""]
        if any(any(h in ty for h in HEAP_TYPES) for ty in tys):
            return True
    return False


def _parent_chain_only(fx, cg, comp):
    """every call that stays inside the component hands on, as its heap reference, something read from a `parent`
    field (a Field access or a pattern binding of that field) — never an element or an ordinary field"""
    members = {cg.path[d] for d in comp}
    n_calls = 0
    for d in comp:
        hb = fx.hir_by_did.get(d)
        if hb is None:
            continue
        parent_lids = set()
        for n, ps in walk_body(hb):
            for key in ("pat",):
                pass
        # pattern bindings of the field `parent`
        def pats(node):
            for x, _ in walk(node):
                for arm in x.get("arms", []) or []:
                    yield arm["pat"]
                if x.get("k") == "Let" and isinstance(x.get("pat"), dict):
                    yield x["pat"]
                if x.get("k") == "Block":
                    for st in x["block"]["stmts"]:
                        if st.get("k") == "Let":
                            yield st["pat"]
        for p0 in pats(hb["value"]):
            for q, _ in _walk_pat(p0):
                for f in q.get("fields", []) or []:
                    if isinstance(f, dict) and f.get("name") == "parent" and isinstance(f.get("pat"), dict):
                        for b, _ in _walk_pat(f["pat"]):
                            if b.get("k") == "Binding":
                                parent_lids.add(b["lid"])
        # `let parent = object.parent;` (also through clone / deref)
        for x, _ in walk(hb["value"]):
            if x.get("k") == "Block":
                for st in x["block"]["stmts"]:
                    if st.get("k") == "Let" and st["pat"].get("k") == "Binding" and "init" in st:
                        i0 = peel(st["init"])
                        while i0.get("k") in ("MethodCall", "Unary", "AddrOf") and (i0.get("k") != "MethodCall" or i0["name"] in ("clone", "as_ref", "deref", "to_owned")):
                            i0 = peel(i0["recv"] if i0.get("k") == "MethodCall" else i0["e"])
                        if i0.get("k") == "Field" and i0.get("name") == "parent":
                            parent_lids.add(st["pat"]["lid"])
        param_lids = set()
        for p in hb["params"]:
            for q, _ in _walk_pat(p):
                if q.get("k") == "Binding":
                    param_lids.add(q["lid"])
        for n, ps in walk_body(hb):
            if n.get("k") not in ("Call", "MethodCall"):
                continue
            callee = callee_name(n) if callee_name(n) in members else (n.get("callee") or {}).get("inst")
            if callee not in members:
                continue
            n_calls += 1
            args = ([n["recv"]] if n.get("k") == "MethodCall" else []) + list(n.get("args", []))
            ptr_args = [a for a in args if any(h in (fx.ty(a) or "") + (fx.aty(a) or "") for h in ("Pointer", "HeapIndex")) and "Heap>" not in (fx.ty(a) or "") and not (fx.ty(a) or "").endswith("Heap")]
            from_parent = False
            for a in ptr_args:
                mentions_parent = any(x.get("k") == "Field" and x.get("name") == "parent" for x, _ in walk(a))
                roots = _root_locals(a)
                if mentions_parent or (roots and roots <= parent_lids):
                    from_parent = True
                elif roots and roots <= param_lids and len(ptr_args) > 1:
                    continue      # e.g. the argument vector passed along unchanged
                else:
                    return False, "a recursive call in %s hands on a reference that is not read from `parent`" % hb["path"]
            if not from_parent:
                return False, "a recursive call in %s does not move along the parent link" % hb["path"]
    return n_calls > 0, "%d recursive call(s)" % n_calls


TREE_TYPES = ("parser::AST",)
HEAP_TYPES = ("bytecode::heap::", "HeapIndex", "Pointer")


def _structural_over_ast(fx, cg, comp):
    """Every function of the component takes the syntax tree (and nothing from the heap), and every cycle of calls
    inside the component passes, at least once, a *component* of that tree — a pattern / closure / loop binding
    rather than the caller's own parameter. The AST is an owned tree of Boxes and Vecs, so every cycle descends."""
    members = {cg.path[d] for d in comp}
    n_calls = 0
    same = {}          # caller -> callees reached with the caller's own tree parameter (no descent on that edge)
    for d in comp:
        hb = fx.hir_by_did.get(d)
        if hb is None:
            if "::{closure" in cg.path[d] and cg.path[d].split("::{closure")[0] in members:
                continue     # closures are analysed inside their parent's body
            return False, "%s has no HIR" % cg.path[d]
        ptys = [fx.tyname(p.get("ty")) or "" for p in hb["params"]]
        gen = set(hb.get("generics") or [])
        if not any(any(t in ty for t in TREE_TYPES) or ty.lstrip("&").replace("mut ", "").strip() in gen or ty.startswith("impl ") for ty in ptys):
            return False, "%s does not take the syntax tree" % hb["path"]
        if any(any(h in ty for h in HEAP_TYPES) for ty in ptys):
            return False, "%s also takes heap values" % hb["path"]
        param_lids = set()
        for p in hb["params"]:
            for q, _ in _walk_pat(p):
                if q.get("k") == "Binding":
                    param_lids.add(q["lid"])
        for n, ps in walk_body(hb):
            if n.get("k") not in ("Call", "MethodCall"):
                continue
            callee = callee_name(n) if callee_name(n) in members else (n.get("callee") or {}).get("inst")
            if callee not in members:
                continue
            n_calls += 1
            args = ([n["recv"]] if n.get("k") == "MethodCall" else []) + list(n.get("args", []))
            tree_args = [a for a in args if any(t in (fx.ty(a) or "") or t in (fx.aty(a) or "") for t in TREE_TYPES)]
            if not tree_args:
                return False, "a recursive call in %s passes no syntax tree" % hb["path"]
            for a in tree_args:
                roots = _root_locals(a)     # no local at all: a freshly built (finite) tree
                if roots & param_lids:
                    same.setdefault(hb["path"], set()).add(callee)
    # a cycle made only of non-descending edges would recurse on the same node for ever
    state = {}

    def cyclic(f):
        if state.get(f) == 1:
            return True
        if state.get(f) == 2:
            return False
        state[f] = 1
        for g in same.get(f, ()):
            if cyclic(g):
                return True
        state[f] = 2
        return False
    for f in list(same):
        if cyclic(f):
            return False, "a cycle of calls through %s passes the same tree node on unchanged" % f
    return n_calls > 0, "%d recursive call(s); every cycle descends to a sub-tree binding" % n_calls


def _walk_pat(p, ps=()):
    yield p, ps
    for key in ("pat", "sub"):
        if isinstance(p.get(key), dict):
            yield from _walk_pat(p[key], ps + (p,))
    for x in p.get("pats", []) or []:
        if isinstance(x, dict):
            yield from _walk_pat(x, ps + (p,))
    for f in p.get("fields", []) or []:
        if isinstance(f, dict) and isinstance(f.get("pat"), dict):
            yield from _walk_pat(f["pat"], ps + (p,))


def _root_locals(n):
    """locals a tree-typed argument is built from (a plain place, or iterators / slices / references over places)"""
    from ..facts import walk
    r = _root_local(n)
    if r is not None:
        return {r}
    out = set()
    for x, _ in walk(n):
        if x.get("k") == "Path" and (x.get("res") or {}).get("k") == "Local":
            out.add(x["res"]["lid"])
    return out


def _root_local(n):
    n = peel(n)
    while n.get("k") in ("AddrOf", "Unary", "Field", "Index", "MethodCall", "Cast"):
        if n.get("k") == "MethodCall":
            if n["name"] not in ("as_ref", "deref", "as_deref", "borrow", "clone", "as_mut"):
                return None
            n = peel(n["recv"])
        elif n.get("k") == "Field" or n.get("k") == "Index":
            n = peel(n["base"])
        else:
            n = peel(n["e"])
    if n.get("k") == "Path" and n["res"].get("k") == "Local":
        return n["res"]["lid"]
    return None


def _parent_construction_only(fx):
    from ..census import field_uses
    bad = []
    n = 0
    for b, node, ps, ctx in field_uses(fx, "bytecode::heap::ObjectInstance", "parent"):
        if b["from_expansion"]:
            continue
        n += 1
        if ctx["kind"] in ("assign", "assign_op", "addr_of_mut") or (ctx["kind"] == "recv" and ctx["mut"]):
            bad.append("%s (%s)" % (b["path"], loc(node)))
    if n == 0:
        return False, "anchor ObjectInstance.parent not found"
    return (not bad), ("ObjectInstance.parent is never assigned after construction (%d uses examined)" % n if not bad
                       else "ObjectInstance.parent is mutated in %s — parent chains may become cyclic" % bad)


def _render_guard(fx, cg, comp):
    """On-path guard recogniser: some member M that every cycle passes through contains a membership
    test on a collection of HeapIndex whose positive branch fails, preceding the recursive call."""
    comp = list(comp)
    cs = set(comp)
    for m in comp:
        rest = cs - {m}
        # removing m must break all cycles
        sub = cg.sccs(rest)
        sub = [c for c in sub if set(c) <= rest]
        if sub:
            continue
        hb = fx.hir_by_did.get(m)
        if hb is None:
            continue
        # the guard may sit in a helper the member calls (`trail.enter(index)?`): look one call level down as well
        bodies = [hb]
        for n, ps in walk_body(hb):
            if n.get("k") in ("Call", "MethodCall") and n.get("callee"):
                cd = n["callee"].get("inst_did") if n["callee"].get("inst_local") else (n["callee"].get("did") if n["callee"].get("local") else None)
                cb = fx.hir_by_did.get(cd) if cd else None
                if cb is not None and cb not in bodies and cd not in cs:
                    bodies.append(cb)
        for hb2 in bodies:
          for n, ps in walk_body(hb2):
            if n.get("k") == "If":
                cond = n["cond"]
                has_test = False
                for x, _ in walk(cond):
                    if x.get("k") == "MethodCall" and x["name"] in ("contains", "contains_key", "any", "insert") and "HeapIndex" in (fx.ty(x["recv"]) or "") + (fx.aty(x["recv"]) or ""):
                        has_test = True
                    if x.get("k") == "Binary" and x["op"] in ("Gt", "Ge", "Lt", "Le") and ("depth" in str(x).lower()):
                        has_test = True
                if has_test and (shared._is_failing_value(fx, n["then"]) or ("else" in n and shared._is_failing_value(fx, n["else"]))):
                    # the guard state must be threaded through the whole cycle: no member of the component may
                    # start from a fresh (empty) collection, otherwise a cycle through that member is never seen
                    for d in comp:
                        mb = fx.hir_by_did.get(d)
                        if mb is None:
                            continue
                        for x, _ in walk_body(mb):
                            if x.get("k") in ("Call", "MethodCall") and x.get("callee") and x["callee"].get("name") in ("new", "with_capacity", "default") and "HeapIndex" in (fx.ty(x) or ""):
                                return False, ("%s is part of the rendering cycle and starts a FRESH guard collection (%s): a reference cycle that passes "
                                               "through it is not detected and overflows the native stack" % (mb["path"], fx.ty(x))), loc(x)
                    return True, "on-path guard found in %s (membership/depth test whose failing branch returns Err); guard state is created outside the cycle" % hb["path"], loc(n)
    where = loc(cg.bodies[comp[0]])
    return False, ("value rendering recurses through heap references read from mutable storage without an on-path/visited "
                   "guard or depth bound: a cyclic value (an array stored into itself) overflows the native stack (SIGABRT)"), where


def _atomic_print(ck, fx, cg):
    hb = fx.body(A.get("eval_print"))
    if not ck.anchor("R10.atomic", "eval_print", hb):
        return
    ck.fn(hb["path"])
    out_param = None
    ptys = [fx.tyname(t) or "" for t in hb.get("param_tys", [])]
    for i, p in enumerate(hb["params"]):
        if p.get("k") == "Binding" and (p["name"] == "output" or (i < len(ptys) and ptys[i] == "&mut W")):
            out_param = p["lid"]
    if out_param is None:
        # third parameter is the output sink by position
        out_param = hb["params"][2]["lid"] if len(hb["params"]) > 2 and hb["params"][2].get("k") == "Binding" else None
    if not ck.anchor("R10.atomic", "eval_print output parameter", out_param):
        return
    pos, loops, branch = preorder_index(hb)
    writes = []   # calls whose receiver is the output sink
    fails = []    # failure origins: (node, description, exempt_write_node)
    from ..census import local_of
    for n, ps in walk_body(hb):
        k = n.get("k")
        if k == "MethodCall":
            l = local_of(n["recv"])
            if l and l[0] == out_param:
                writes.append(n)
        if k == "Match" and n.get("src") == "TryDesugar":
            # operand of `?`
            op = n["scrut"]["args"][0] if n["scrut"].get("k") == "Call" and n["scrut"]["args"] else None
            opn = peel(op) if op else None
            is_write = False
            if opn is not None:
                for x, _ in walk(opn):
                    if x.get("k") == "MethodCall":
                        l = local_of(x["recv"])
                        if l and l[0] == out_param:
                            is_write = True
            # `?` applied directly to a sink write is the failure of the write itself
            direct = opn is not None and opn.get("k") == "MethodCall" and local_of(opn["recv"]) and local_of(opn["recv"])[0] == out_param
            fails.append((n, "`?` on %s" % (_desc(opn)), direct, opn))
        if k == "Ret" and "e" in n:
            v = peel(n["e"])
            if v.get("k") == "Call" and (v.get("ctor") or {}).get("variant") == "Err":
                fails.append((n, "explicit failure (%s)" % (",".join(user_macros_of(n)[-1:]) or "return Err"), False, None))
    ck.floor("R10.atomic", "output writes in eval_print", len(writes), 1)
    ck.floor("R10.atomic", "failure exits in eval_print", len(fails), 1)
    for i, (f, desc, direct, opn) in enumerate(fails):
        if direct:
            ck.ob("R10.atomic", "eval_print|fail#%d %s" % (i, desc), True, loc(f), "failure of the output write itself", nontrivial=False)
            continue
        # a rendering failure nested in the write argument happens before that write: exclude the write containing it
        prior = [w for w in writes if may_follow(w, f, pos, loops, branch) and not _contains(w, f)]
        ck.ob("R10.atomic", "eval_print|fail#%d %s" % (i, desc), not prior, loc(f),
              "failure exit %s reachable after output was already written at %s — stdout then holds part of a print that did not complete" % (
                  desc, ", ".join(sorted({loc(w) for w in prior}))[:120]) if prior else "no observable write can precede this failure exit")
    ck.sample({"rule": "R10.atomic", "writes": [loc(w) for w in writes], "failure_exits": [(loc(f), d) for f, d, _, _ in fails]})


def _contains(outer, inner):
    for x, _ in walk(outer):
        if x is inner:
            return True
    return False


def _desc(n):
    if n is None:
        return "?"
    if n.get("k") == "MethodCall":
        return "." + n["name"] + "()"
    if n.get("k") == "Call":
        return (callee_name(n) or "call").rsplit("::", 1)[-1] + "()"
    return n.get("k", "?")


def _output_through(ck, fx, cg):
    """R10.through: the VM's stdout sink hands every piece of program output to stdout before it returns Ok —
    text held back in a buffer is lost when a later statement fails (the fault path never flushes), so
    'stdout holds exactly the output produced before the fault' would not hold."""
    from ..symex import Executor, Client, State
    from ..symdbg import fmt_term
    path = A.get("output.write_str")
    b = fx.body(path)
    if not ck.anchor("R10.through", path, b):
        return
    ck.fn(path)
    try:
        ex = Executor(fx, Client())
        res = ex.run_body(b, [("var", "self"), ("var", "s")], State())
    except Exception as e:  # noqa
        ck.ob("R10.through", "Output::write_str", False, loc(b), "cannot analyse the output sink (unprovable): %s" % e)
        return
    # successful outcomes: an explicit Ok(..), or the write's own Result handed back (Ok exactly when the write succeeded)
    oks = [(s_, o) for s_, o in res if o[0] == "val" and isinstance(o[1], tuple) and (o[1][0] == "ok" or (
        o[1][0] == "fall" and any(e.get("res") == o[1] and e["k"] == "call" and e["args"][0][1].endswith("write_all") for e in s_.eff)))]
    bad = []
    for s_, o in oks:
        writes = [e for e in s_.eff if e["k"] == "call" and (e["args"][0][1] == "std::io::Write::write_all" or e["args"][0][1].endswith("std::io::Write>::write_all"))
                  and len(e["args"]) > 2 and "stdout" in fmt_term(e["args"][1]).lower()]
        full = [w for w in writes if ("var", "s") in _subterms(w["args"][2])]
        if not full:
            bad.append(s_)
    ck.ob("R10.through", "Output::write_str writes its whole argument to stdout on every Ok path", bool(oks) and not bad, loc(b),
          "%d successful path(s); paths that return Ok without a complete write of the text to stdout: %d%s" % (
              len(oks), len(bad), "" if not bad else " — buffered program output is lost when execution later stops at a fault"))
    # the sink carries no pending state
    a = fx.adts.get("bytecode::state::Output")
    if ck.anchor("R10.through", "type Output", a):
        fields = [f["name"] for v in a["variants"] for f in v["fields"]]
        ck.ob("R10.through", "Output holds no pending text", not fields, loc(a), "fields of the stdout sink: %s" % (fields or "none"))


def _subterms(t):
    out = {t}
    if isinstance(t, tuple):
        for x in t:
            if isinstance(x, tuple):
                out |= _subterms(x)
    return out
