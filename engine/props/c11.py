"""C11 — compilation and execution are deterministic (absence-of-sources census).

R11.hash    no order-exposing operation on HashMap/HashSet in code reachable from the compiler,
            the serializer, the loader, the VM and the disassembler.
R11.env     sources of run-to-run variation (clock, environment, process id, RandomState, pointer
            values, threads) occur only where their value provably flows to the heap-log file.
R11.profile no build-profile-dependent integer arithmetic on FML values (i32 payloads) or on CLI
            numerics; arithmetic on lengths/indices/counters is exempt by provenance (listed).
R11.cfg     no cfg!(debug_assertions)/debug_assert* in that code.
"""
import re
from .. import anchors as A
from ..facts import walk_body, callee_def, callee_name, loc, user_macros_of, peel, macros_of
from ..census import arith_sites, local_of
from ..valueflow import consumer, local_uses
from . import shared

LEVEL = "other"

ORDER_EXPOSING = {"iter", "iter_mut", "keys", "values", "values_mut", "into_keys", "into_values", "drain", "retain",
                  "extract_if", "into_iter", "for_each"}
HASH_ADTS = ("std::collections::HashMap", "std::collections::HashSet",
             "std::collections::hash_map::HashMap", "std::collections::hash_set::HashSet")

ENV_SOURCES = [
    ("std::time::SystemTime::now", "wall clock"),
    ("std::time::Instant::now", "monotonic clock"),
    ("std::time::SystemTime::elapsed", "wall clock"), ("std::time::Instant::elapsed", "monotonic clock"),
    ("std::env::var", "environment"), ("std::env::var_os", "environment"), ("std::env::vars", "environment"),
    ("std::env::vars_os", "environment"), ("std::env::args", "argv"), ("std::env::args_os", "argv"),
    ("std::env::current_dir", "environment"), ("std::env::temp_dir", "environment"),
    ("std::process::id", "process id"), ("std::thread::spawn", "thread"), ("std::thread::scope", "thread"),
    ("std::thread::current", "thread"), ("std::hash::RandomState::new", "hash seed"),
    ("std::collections::hash_map::RandomState::new", "hash seed"),
    ("std::hash::BuildHasher::hash_one", "hash seed"), ("std::hash::BuildHasher::build_hasher", "hash seed"),
    ("std::ptr::addr_of", "address"), ("std::fs::read_dir", "directory order"),
    ("std::fs::metadata", "file metadata (times, sizes)"), ("std::fs::symlink_metadata", "file metadata"), ("std::fs::File::metadata", "file metadata"),
    ("std::fs::Metadata::modified", "file modification time"), ("std::fs::Metadata::accessed", "file access time"), ("std::fs::Metadata::created", "file creation time"),
    ("std::path::Path::metadata", "file metadata"), ("std::env::current_exe", "environment"), ("std::env::home_dir", "environment"),
]


def roots(ck, cg):
    rs = []
    for role in ("compile", "program.serialize", "program.from_bytes", "evaluate_with", "evaluate_mem", "state.from",
                 "program.display", "cli.run", "cli.compile", "cli.interpret", "cli.disassemble"):
        ds = cg.dids_of(A.get(role))
        ck.anchor("R11", role + " = " + A.get(role), ds or None)
        rs += ds
    return rs


def is_hash_ty(t):
    return bool(t) and any(t.startswith(h + "<") or ("&" in t[:6] and h + "<" in t[:60]) for h in HASH_ADTS)


def run(ck, fx, cg, tier):
    ck.explanation = (
        "Determinism is decided as an absence-of-sources property on the resolved program: in every function "
        "reachable (MIR call graph) from compile, Program::serialize/from_bytes, State::from, evaluate_with, the "
        "Program Display and the CLI actions that produce bytes or output, (1) no operation exposes HashMap/HashSet "
        "iteration order, (2) every clock/env/pid/hash-seed/address/thread source is confined to a function where "
        "its value is only ever formatted into the heap-log file, (3) no integer arithmetic on FML values or CLI "
        "numerics is written with a profile-dependent operator, (4) no cfg!(debug_assertions)/debug_assert. "
        "R11.hash/R11.env/R11.cfg are exact censuses; R11.profile exempts index/length arithmetic by provenance "
        "(each exempt site is listed in coverage.exempt_arithmetic), which is judgement — hence level 'other'.")
    ck.trusted_base = ["rustc resolution/type check", "fml-facts dumper", "MIR call graph",
                       "std/indexmap iteration order is deterministic except for HashMap/HashSet",
                       "LLVM/std compute the same results in both profiles for profile-independent operations"]
    ck.assumptions = ["third-party crates (serde_*, lalrpop-util, regex, clap) are deterministic for equal inputs"]
    reach = cg.reachable(roots(ck, cg))
    from .. import canary
    canary.require(ck, {'R11.hash', 'Rx.cfg', 'Rx.profile', 'R11.env'})
    n_hash_uses = 0
    n_env = 0
    exempt = []
    n_arith = 0
    n_fns = 0
    for did in sorted(reach):
        hb = fx.hir_by_did.get(did)
        if hb is None:
            continue
        derived = hb["from_expansion"]
        n_fns += 1
        ck.fn(hb["path"])
        for n, ps in walk_body(hb):
            k = n.get("k")
            # ---- R11.hash
            if k == "MethodCall":
                rt = fx.aty(n["recv"]) or ""
                rt0 = fx.ty(n["recv"]) or ""
                if is_hash_ty(rt0) or is_hash_ty(rt):
                    n_hash_uses += 1
                    exposing = n["name"] in ORDER_EXPOSING
                    key = "%s|%s.%s#%d" % (hb["path"], _recv_name(n["recv"]), n["name"], shared.ordinal(hb, n))
                    ck.ob("R11.hash", key, not exposing, loc(n),
                          ("`.%s()` on %s exposes hash iteration order" % (n["name"], rt0)) if exposing else
                          ("keyed/order-insensitive use `.%s()` of %s" % (n["name"], rt0.split("<")[0])))
                    if len(ck.samples) < 12:
                        ck.sample({"rule": "R11.hash", "fn": hb["path"], "at": loc(n), "use": n["name"], "type": rt0[:80]})
            if k == "Call":
                cd = callee_def(n) or ""
                if cd.endswith("IntoIterator::into_iter") and n["args"]:
                    at = fx.ty(n["args"][0]) or ""
                    if is_hash_ty(at):
                        n_hash_uses += 1
                        ck.ob("R11.hash", "%s|for-loop over %s#%d" % (hb["path"], _recv_name(n["args"][0]), shared.ordinal(hb, n)),
                              False, loc(n), "`for … in` over %s exposes hash iteration order" % at)
            if k == "FormatArgs":
                for p in n["pieces"]:
                    if p.get("tr") == "Debug" and not derived:
                        a = n["args"][p["arg"]] if p["arg"] < len(n["args"]) else None
                        at = (fx.ty(a) or "") if a else ""
                        if "HashMap" in at or "HashSet" in at:
                            ck.ob("R11.hash", "%s|{:?} of %s" % (hb["path"], at[:60]), False, loc(n),
                                  "Debug-formatting a hash collection exposes its iteration order")
                    if p.get("tr") == "Pointer":
                        ck.ob("R11.env", "%s|{:p}" % hb["path"], False, loc(n), "pointer value formatted ({:p})")
            # ---- R11.env
            if k in ("Call", "MethodCall") and n.get("callee"):
                cd = callee_def(n)
                for src, what in ENV_SOURCES:
                    if cd == src or (cd or "").startswith(src + "::"):
                        n_env += 1
                        ok, why = _confined_to_log(fx, hb, n, ps)
                        ck.ob("R11.env", "%s|%s#%d" % (hb["path"], src, shared.ordinal(hb, n)), ok, loc(n),
                              "%s source %s: %s" % (what, src, why))
                        ck.sample({"rule": "R11.env", "fn": hb["path"], "at": loc(n), "source": src, "verdict": why})
            if k == "Cast":
                fr, to = n.get("from", ""), n.get("to", "")
                if (fr.startswith("*") or fr.startswith("&") or fr.startswith("fn")) and to in ("usize", "u64", "isize", "i64", "u32", "i32"):
                    ck.ob("R11.env", "%s|ptr-to-int cast" % hb["path"], False, loc(n), "address exposed: `%s as %s`" % (fr, to))
            # ---- R11.cfg
            if k == "Lit" and ("cfg" in user_macros_of(n)) and not derived:
                ck.ob("R11.cfg", "%s|cfg!" % hb["path"], False, loc(n), "cfg!(…) evaluated in VM/compiler code (profile/config dependent)")
            if k in ("If", "Call", "MethodCall") and any(m.startswith("debug_assert") for m in user_macros_of(n)) and not derived:
                ck.ob("R11.cfg", "%s|debug_assert" % hb["path"], False, loc(n), "debug_assert*! is active only with debug assertions")
        # ---- R11.profile
        if derived:
            continue
        tainted = shared.cli_tainted_locals(fx, cg, hb)
        for n, ps, op, prim in arith_sites(hb):
            n_arith += 1
            cls, why = shared.classify_arith(fx, hb, n, prim, tainted)
            key = "%s|%s %s#%d" % (hb["path"], op, prim, shared.ordinal(hb, n))
            if cls == "value":
                ck.ob("R11.profile", key, False, loc(n),
                      "plain `%s` on %s: panics with overflow-checks on (debug) and wraps with them off (release)" % (op, why))
            else:
                ck.ob("R11.profile", key, True, loc(n), "exempt (%s): %s" % (cls, why), nontrivial=False)
                exempt.append({"fn": hb["path"], "at": loc(n), "op": op, "type": prim, "class": cls, "why": why})
    # `{:p}` anywhere in the crate: a Display / Debug impl is reached through the formatting machinery, not through a call
    # the graph shows, so the address census for format strings covers every body, reachable or not
    for hb in fx.hir:
        if hb.get("did") in reach or hb["from_expansion"]:
            continue
        for n, ps in walk_body(hb):
            if n.get("k") == "FormatArgs":
                for p in n["pieces"]:
                    if p.get("tr") == "Pointer":
                        ck.ob("R11.env", "%s|{:p}" % hb["path"], False, loc(n), "pointer value formatted ({:p}) — a native address reaches text the program can print")
    # command-line options that silently fall back to environment variables (clap `env = ".."`): no call to std::env
    # appears in the source, the read happens inside the derive
    n_clap = 0
    for h in fx.helper_attrs:
        if "clap" not in h["text"]:
            continue
        n_clap += 1
        if re.search(r"\benv\b\s*(=|\()", h["text"]) or re.search(r"\benv\s*\)", h["text"]) or re.search(r",\s*env\s*[,)\]]", h["text"]):
            ck.ob("R11.env", "%s|%s|clap env" % (h["item"], h["on"]), False, "src/main.rs",
                  "the option falls back to an environment variable (%s): the same command line gives different results in different environments" % " ".join(h["text"].split())[:160])
    ck.ob("R11.env", "command-line options do not read the environment", True, "", "%d clap attribute(s) examined" % n_clap, nontrivial=False)
    # The command-line definition is validated by clap only in builds with debug assertions (`#[cfg(debug_assertions)]`
    # around App::_debug_asserts in the vendored clap 3.0.0-beta.2, run when a (sub)command is selected): an inconsistent
    # definition makes every `cargo build` binary panic on that sub-command while the release binary of the same source
    # runs. Decided per derive struct: argument ids (`name = ".."`, else the field name), long and short option names
    # are unique, and every id named by a relation attribute exists in the same struct.
    REL = ("conflicts_with", "conflicts_with_all", "requires", "requires_all", "requires_if", "requires_ifs", "required_unless",
           "required_unless_present", "required_unless_present_all", "required_unless_present_any", "required_unless_eq_all",
           "required_if_eq", "required_if_eq_any", "overrides_with", "overrides_with_all", "default_value_if", "default_value_ifs",
           "required_unless_one", "required_unless_all", "required_if", "required_ifs")
    by_item = {}
    for h in fx.helper_attrs:
        if "clap" in h["text"] and h["on"].startswith("field "):
            by_item.setdefault(h["item"], {}).setdefault(h["on"][6:], []).append(" ".join(h["text"].split()))
    n_args = 0
    for item, fields in sorted(by_item.items()):
        ids, longs, shorts, groups = {}, {}, {}, set()
        rels = []
        sub = False
        for fld, texts in fields.items():
            t = " ".join(texts)
            if re.search(r"\b(subcommand|flatten|skip)\b", t):
                sub = sub or "flatten" in t
                continue
            n_args += 1
            m = re.search(r"\bname\s*=\s*\"([^\"]*)\"", t)
            ids.setdefault(m.group(1) if m else fld, []).append(fld)
            m = re.search(r"\blong\s*=\s*\"([^\"]*)\"", t)
            if m or re.search(r"\blong\b\s*[,)]", t):
                longs.setdefault(m.group(1) if m else fld.replace("_", "-"), []).append(fld)
            m = re.search(r"\bshort\s*=\s*['\"](.)['\"]", t)
            if m or re.search(r"\bshort\b\s*[,)]", t):
                shorts.setdefault(m.group(1) if m else fld[0], []).append(fld)
            for g in re.findall(r"\bgroups?\s*=\s*\"([^\"]*)\"", t):
                groups.add(g)
            for key, val in re.findall(r"\b(%s)\s*(?:=\s*|\()\s*(&?\[[^\]]*\]|\"[^\"]*\"(?:\s*,\s*\"[^\"]*\")?)" % "|".join(REL), t):
                names = re.findall(r"\"([^\"]*)\"", val)
                if key in ("requires_if", "required_if_eq", "default_value_if", "required_if") and len(names) >= 2:
                    # (value, id) / (id, value): requires_if(val, id); required_if_eq(id, val); default_value_if(id, val, default)
                    names = [names[1]] if key == "requires_if" else [names[0]]
                for nm in names:
                    rels.append((fld, key, nm))
        if sub:
            continue        # flattened structs share one namespace: not decided here (none in the pinned tree)
        for what, table in (("argument id", ids), ("long option", longs), ("short option", shorts)):
            for nm, fl in sorted(table.items()):
                if len(fl) > 1:
                    ck.ob("R11.cli", "%s|%s `%s` is unique" % (item, what, nm), False, "src/main.rs",
                          "%s `%s` is used by the fields %s of %s: clap rejects this only when built with debug assertions — the dev-profile binary panics where the release binary runs" % (what, nm, fl, item))
        for fld, key, nm in rels:
            ok = nm in ids or nm in groups
            ck.ob("R11.cli", "%s|%s|%s = \"%s\"" % (item, fld, key, nm), ok, "src/main.rs",
                  "names an argument of %s" % item if ok else
                  "`%s = \"%s\"` on field `%s` names no argument or group of %s (ids: %s) — clap checks this only when built with debug assertions: the dev-profile binary panics on this sub-command, the release binary ignores the relation and runs" % (key, nm, fld, item, sorted(ids)))
        ck.ob("R11.cli", "%s|definition is self-consistent" % item, True, "src/main.rs", "%d argument(s): ids %s" % (len(ids), sorted(ids)), nontrivial=False)
    ck.floor("R11.cli", "command-line arguments examined", n_args, 14)
    okp, whyp = shared.cargo_profiles_agree()
    ck.ob("R11.profile", "Cargo.toml|profiles agree on the panic strategy", okp, "Cargo.toml",
          whyp + ("" if okp else " — a failing program loses its unflushed output and exits with SIGABRT in one build but not in the other"))
    ck.extra["exempt_arithmetic"] = exempt
    ck.extra["hash_collection_uses"] = n_hash_uses
    ck.extra["env_sources"] = n_env
    ck.extra["arith_sites"] = n_arith
    ck.extra["reachable_functions"] = n_fns
    ck.floor("R11.hash", "uses of hash collections examined", n_hash_uses, 1)
    ck.floor("R11.env", "clock sources found (heap log)", n_env, 0)
    ck.floor("R11", "reachable functions with HIR", n_fns, 50)


def _recv_name(n):
    n = peel(n)
    if n.get("k") == "Field":
        return n["name"]
    l = local_of(n)
    return l[1] if l else n.get("k", "?")


def _confined_to_log(fx, hb, n, ps, _depth=0):
    """The source value (through its method chain and one binding) is used only as a format
    argument of a write_fmt whose receiver is a std::fs::File."""
    cur, cps = n, ps
    for _ in range(8):
        u = consumer(cur, cps)
        if u.kind in ("receiver", "checked", "pass_through", "discard_method"):
            cur, cps = u.cont
            continue
        break
    if u.kind == "fn_return" and _depth < 2 and hb.get("vis") != "Public" and hb.get("dk") in ("Fn", "AssocFn"):
        # a private helper that returns the clock value (`fn nanos_since_epoch() -> u128`): the value is what its callers
        # do with the call's result
        sites = []
        for cb in fx.hir:
            if cb["from_expansion"]:
                continue
            for cn, cps2 in walk_body(cb):
                if cn.get("k") in ("Call", "MethodCall") and (cn.get("callee") or {}).get("did") == hb["did"]:
                    sites.append((cb, cn, cps2))
        if not sites:
            return True, "returned by a helper nothing calls"
        for cb, cn, cps2 in sites:
            okc, whyc = _confined_to_log(fx, cb, cn, cps2, _depth + 1)
            if not okc:
                return False, "returned by %s; in %s: %s" % (hb["path"], cb["path"], whyc)
        return True, "returned by the private helper %s, whose %d caller(s) only format it into the heap log" % (hb["path"], len(sites))
    if u.kind != "bound":
        return False, "value is consumed by %s, not confined to the heap-log writer" % u.kind
    uses = local_uses(hb["value"], u.cont)
    if not uses:
        return True, "value unused"
    for un, ups in uses:
        ok = False
        for role, p in reversed(ups):
            if p.get("k") == "FormatArgs":
                continue
            if p.get("k") == "MethodCall" and p["name"] == "write_fmt":
                rt = (fx.ty(p["recv"]) or "")
                ok = "std::fs::File" in rt
                break
            if p.get("k") in ("AddrOf", "DropTemps", "Use"):
                continue
            break
        # the FormatArgs node replaces the lowered block: the binding appears as one of its args
        if not ok:
            # find enclosing FormatArgs and its consumer
            for i in range(len(ups) - 1, -1, -1):
                if ups[i][1].get("k") == "FormatArgs":
                    if i > 0 and ups[i - 1][1].get("k") == "MethodCall" and ups[i - 1][1]["name"] == "write_fmt":
                        rt = fx.ty(ups[i - 1][1]["recv"]) or ""
                        ok = "std::fs::File" in rt
                    break
        if not ok:
            return False, "value `%s` flows somewhere other than a write to the log File (at %s)" % (u.detail, loc(un))
    return True, "value `%s` only formatted into a std::fs::File (heap log)" % u.detail
