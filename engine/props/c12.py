"""C12 — lexical scoping: blocks, shadowing, function isolation, globals.

R12.block      only the Block arm opens/closes a scope, paired on every success path, on the environment the
               frame kind selects.
R12.let / use  the decision tables of Variable / AccessVariable / AssignVariable equal S10 (finite evaluation
               over frame ∈ {Local,Top} × visible × outermost).
R12.component  Environment's methods equal their role models after inlining to HashMap/Vec primitives.
R12.lookup     visibility lookups walk the scope stack innermost-first; scope ids are fresh; slots never reused.
R12.fn         function / method bodies are compiled in a fresh environment holding [this?] ++ parameters.
R12.fresh      (VM client) each call builds a new frame with locals initialised to null.
"""
import itertools
import re

from .. import anchors as A
from ..facts import loc
from ..template import stream, is_ok_result
from ..symex import Executor, Client, State, lit, TRUE, FALSE, UNIT
from ..symdbg import fmt_term
from .c02 import templates, all_items, frame_label

LEVEL = "other"
C = "bytecode::compiler::"
LOCAL_ENV = ("app", "proj", (("var", "current_frame"), lit("Local"), lit("0")))
GLOBAL_ENV = ("var", "global_environment")


def run(ck, fx, cg, tier):
    ck.explanation = (
        "Scoping is decided on the compiler's templates and on the Environment component. (block) only the Block "
        "arm performs enter/leave, paired around its children on the environment selected by the frame kind; "
        "(let/use) the decision structure of the Variable / AccessVariable / AssignVariable arms — path conditions "
        "over frame kind, visibility and outermost-ness extracted by symbolic execution — is evaluated over all 16 "
        "worlds and compared with the S10 table; (component) each Environment method, executed symbolically down to "
        "HashMap/Vec primitives, equals its role model: bind-fresh keys on (innermost scope id, name) and fails on a "
        "duplicate, lookup-or-bind and visible? walk the scope stack innermost-first, indices are len() of an "
        "insert-only map, enter pushes a fresh id from a strictly increasing counter, leave pops, outermost? ⇔ stack "
        "length 1; (fn) function and method bodies get a fresh environment with [this?]++parameters registered in "
        "order inside a Local frame. Structural; each rule is a necessary condition of the behaviour.")
    ck.trusted_base = ["rustc resolution/type check", "fml-facts dumper", "symbolic executor + std models", "S10 scoping table (README)",
                       "HashMap/Vec behave as documented"]
    T = templates(fx)
    if not ck.anchor("R12", "compile_into templates", T):
        return
    ck.fn(A.get("compile_into"))
    _block(ck, T, fx)
    _decisions(ck, T)
    _component(ck, fx)
    _fn(ck, T)
    _own_subtrees(ck, T)
    try:
        from . import c05_vm
        c05_vm.fresh_frame_rules(ck, fx, cg, rule="R12.fresh")
    except ImportError:
        ck.note("R12.fresh: VM-side rule not built yet")


# --------------------------------------------------------------------------- R12.block

def _block(ck, T, fx):
    n = 0
    for (variant, keep), (ex, paths, err) in sorted(T.items()):
        for p in paths:
            if not is_ok_result(p):
                continue
            items = list(all_items(stream(p["eff"])))
            scope_ops = [it for it in items if it.kind in ("env_enter", "env_leave")]
            key = "%s|keep=%s|%s" % (variant, "T" if keep else "F", frame_label(p["eff"]))
            if variant != "Block":
                n += 1
                ck.ob("R12.block", key + "|no scope op", not scope_ops, scope_ops[0].at if scope_ops else "",
                      "%s arm performs %d scope operation(s)%s" % (variant, len(scope_ops), "" if not scope_ops else
                                                                  " — only begin/end blocks open scopes (conditionals, loops, calls and arrays do not)"),
                      nontrivial=bool(scope_ops) or variant in ("Conditional", "Loop", "Array", "CallFunction", "Function", "Object"))
                continue
            n += 1
            top = stream(p["eff"])
            kinds = [it.kind for it in top if it.kind in ("env_enter", "env_leave", "foreach", "rec")]
            want_env = LOCAL_ENV if "frame=Local" in key else GLOBAL_ENV
            envs = {it.eff["args"][0] for it in scope_ops}
            ok = kinds == ["env_enter", "foreach", "env_leave"] and envs == {want_env} and len(scope_ops) == 2
            ck.ob("R12.block", key, ok, scope_ops[0].at if scope_ops else "",
                  "sequence %s on %s; expected enter → children → leave on %s" % (kinds, sorted(fmt_term(e) for e in envs), fmt_term(want_env)))
    # `begin .. end` reaches the compiler as a Block node (and the program as Top): the parser's constructors are plain
    from . import shared as _sh
    for cname, okc, whyc in _sh.ast_constructors(fx, only={"block", "top", "function", "object"}):
        ck.ob("R12.block", "parser|AST::%s" % cname, okc, "src/parser/mod.rs", whyc)
    ck.floor("R12.block", "arm paths examined", n, 40)


# --------------------------------------------------------------------------- R12.let / R12.use

def _world_eval(term, world, effs):
    """Evaluate a path-condition term in a world {frame, vis_local, vis_global, outermost}."""
    if term == TRUE:
        return True
    if term == FALSE:
        return False
    k = term[0]
    if k == "app":
        f, a = term[1], term[2]
        if f == "and":
            x, y = _world_eval(a[0], world, effs), _world_eval(a[1], world, effs)
            if x is False or y is False:
                return False
            if x is None or y is None:
                return None
            return True
        if f == "or":
            x, y = _world_eval(a[0], world, effs), _world_eval(a[1], world, effs)
            if x is True or y is True:
                return True
            if x is None or y is None:
                return None
            return False
        if f == "not":
            x = _world_eval(a[0], world, effs)
            return None if x is None else not x
        if f == "is_variant" and a[0] == ("var", "current_frame"):
            return world["frame"] == a[1][1]
    if k == "sym":
        # result of an environment query: find its effect
        for e in effs:
            if e.get("res") == term:
                env = e["args"][0]
                if e["k"] == "env_visible":
                    if env == LOCAL_ENV:
                        return world["vis_local"] if world["frame"] == "Local" else None
                    if env == GLOBAL_ENV:
                        return world["vis_global"]
                if e["k"] == "env_outermost" and env == GLOBAL_ENV:
                    return world["outermost"]
        return None
    return None


def _path_for_world(paths, world):
    hits = []
    for p in paths:
        ok = True
        for e in p["eff"]:
            if e["k"] == "assume":
                c, val = e["args"]
                if "is_variant(current_frame" not in fmt_term(c) and "env_" not in fmt_term(c):
                    continue
                r = _world_eval(c, world, p["eff"])
                if r is None:
                    ok = None
                    break
                if r != (val == TRUE):
                    ok = False
                    break
        if ok:
            hits.append(p)
        elif ok is None:
            return None
    return hits


def _action(p):
    """(kind, env) of the variable action a path performs"""
    items = list(all_items(stream(p["eff"])))
    binds = [it for it in items if it.kind == "env_bind_fresh"]
    looks = [it for it in items if it.kind == "env_lookup_or_bind"]
    ops = [it.op[2] for it in items if it.kind == "emit" and it.op[0] == "ctor" and it.op[2] in ("SetLocal", "GetLocal", "SetGlobal", "GetGlobal")]
    globs = [it for it in items if it.kind == "global"]
    idx = None
    for it in items:
        if it.kind == "emit" and it.op[0] == "ctor" and it.op[2] in ("SetLocal", "GetLocal"):
            idx = dict(it.op[3]).get("index")
    if binds:
        src = binds[0].eff["res"]
        flows = idx is not None and src in _subterms(idx)
        return ("bind-fresh", binds[0].eff["args"][0], tuple(ops), flows)
    if looks:
        flows = idx is not None and looks[0].eff["res"] in _subterms(idx)
        return ("lookup", looks[0].eff["args"][0], tuple(ops), flows)
    if globs:
        return ("declare-global", None, tuple(ops), True)
    return ("global-by-name", None, tuple(ops), True)


def _subterms(t):
    out = {t}
    if isinstance(t, tuple):
        for x in t:
            if isinstance(x, tuple):
                out |= _subterms(x)
    return out


def _expected(variant, w):
    local_op = {"Variable": "SetLocal", "AssignVariable": "SetLocal", "AccessVariable": "GetLocal"}[variant]
    glob_op = {"Variable": "SetGlobal", "AssignVariable": "SetGlobal", "AccessVariable": "GetGlobal"}[variant]
    if variant == "Variable":
        if w["frame"] == "Local":
            return ("bind-fresh", LOCAL_ENV, local_op)
        if not w["outermost"]:
            return ("bind-fresh", GLOBAL_ENV, local_op)
        return ("declare-global", None, glob_op)
    if w["frame"] == "Local":
        return ("lookup", LOCAL_ENV, local_op) if w["vis_local"] else ("global-by-name", None, glob_op)
    if not w["outermost"] and w["vis_global"]:
        return ("lookup", GLOBAL_ENV, local_op)
    return ("global-by-name", None, glob_op)


def _decisions(ck, T):
    n = 0
    for variant in ("Variable", "AccessVariable", "AssignVariable"):
        rule = "R12.let" if variant == "Variable" else "R12.use"
        for keep in (True, False):
            ex, paths, err = T.get((variant, keep), (None, [], "missing"))
            ok_paths = [p for p in paths if is_ok_result(p)]
            for frame, vl, vg, om in itertools.product(("Local", "Top"), (True, False), (True, False), (True, False)):
                w = {"frame": frame, "vis_local": vl, "vis_global": vg, "outermost": om}
                wkey = "%s|keep=%s|frame=%s,visible(frame env)=%s,visible(top env)=%s,outermost=%s" % (
                    variant, "T" if keep else "F", frame, vl, vg, om)
                hits = _path_for_world(ok_paths, w)
                n += 1
                if hits is None or len(hits) != 1:
                    ck.ob(rule, wkey, False, "", "cannot select a unique path for this world (%s) — unprovable" % (
                        "undecidable condition" if hits is None else "%d paths" % len(hits)))
                    continue
                kind, env, ops, flows = _action(hits[0])
                ekind, eenv, eop = _expected(variant, w)
                ok = kind == ekind and env == eenv and eop in ops and len([o for o in ops if o.endswith("Local") or o.endswith("Global")]) == 1 and flows
                at = next((e["at"] for e in hits[0]["eff"] if e["k"] == "emit"), "")
                ck.ob(rule, wkey, ok, at,
                      "compiler: %s%s → %s%s; S10: %s%s → %s" % (
                          kind, " on " + fmt_term(env) if env else "", list(ops), "" if flows else " (slot does not come from that operation)",
                          ekind, " on " + fmt_term(eenv) if eenv else "", eop))
            if keep and ok_paths:
                ck.sample({"rule": rule, "arm": variant, "paths": [frame_label(p["eff"]) + " → " + str(_action(p)[0]) for p in ok_paths]})
    ck.floor("R12.use", "decision-table cells evaluated", n, 96)


# --------------------------------------------------------------------------- R12.component / lookup

class PrimClient(Client):
    """no tracked effects: everything is inlined down to std primitives (recorded as `call` effects)"""
    name = "prims"
    inline_depth = 6


def _run(fx, path, args):
    b = fx.body(path)
    if b is None:
        return None, None
    ex = Executor(fx, PrimClient())
    res = ex.run_body(b, args, State())
    return ex, [{"eff": s.eff, "out": o} for s, o in res]


def _calls(effs, suffix):
    return [e for e in effs if e["k"] == "call" and e["args"][0][1].endswith(suffix)]


def _origin(effs, term):
    """(callee name, receiver) of the std call that produced `term` (through payload wrappers)"""
    while isinstance(term, tuple) and term and term[0] in ("payload",):
        term = term[1]
    for e in effs:
        if e["k"] == "call" and e.get("res") == term:
            return (e["args"][0][1].rsplit("::", 1)[-1], e["args"][1] if len(e["args"]) > 1 else None)
        if e["k"] == "foreach":
            for bp in e.get("paths", []) + e.get("exits", []):
                r = _origin(bp["eff"], term)
                if r:
                    return r
    return None


SELF = ("var", "self")
F = lambda n: ("app", "field", (SELF, lit(n)))


def _component(ck, fx):
    env_adt = fx.adts.get(C + "Environment")
    if not ck.anchor("R12.component", "type Environment", env_adt):
        return
    # ---- current scope = last element of the scope stack
    def cur_scope_ok(key_term, effs):
        return _origin(effs, key_term) == ("last", F("scopes"))

    # ---- register_new_local: bind-fresh
    ex, paths = _run(fx, C + "Environment::register_new_local", [SELF, ("var", "id")])
    if ck.anchor("R12.component", "Environment::register_new_local", paths):
        ck.fn(C + "Environment::register_new_local")
        oks = [p for p in paths if p["out"][0] == "val" and p["out"][1][0] == "ok"]
        errs = [p for p in paths if p["out"][0] == "val" and p["out"][1][0] == "err"]
        good = False
        why = "no success path"
        for p in oks:
            gets = _calls(p["eff"], "::get") + _calls(p["eff"], "::contains_key")
            ins = _calls(p["eff"], "::insert")
            lens = [e for e in p["eff"] if False]
            if len(ins) != 1 or not gets:
                why = "success path performs %d insert(s), %d lookup(s)" % (len(ins), len(gets))
                continue
            key_t = ins[0]["args"][2]
            idx_t = ins[0]["args"][3]
            key_ok = key_t[0] == "tuple" and cur_scope_ok(key_t[1][0], p["eff"]) and key_t[1][1] == ("var", "id")
            same_key = gets[0]["args"][2] == key_t
            on_locals = ins[0]["args"][1] == F("locals") and gets[0]["args"][1] == F("locals")
            idx_ok = "len(field(self, 'locals'))" in fmt_term(idx_t)
            ret_ok = fmt_term(p["out"][1][1]) == fmt_term(idx_t)
            good = key_ok and same_key and on_locals and idx_ok and ret_ok
            why = "key=(innermost scope id, name): %s; duplicate test on the same key: %s; index = locals.len() before insert: %s; returns that index: %s" % (
                key_ok, same_key, idx_ok, ret_ok)
        dup_fails = any(any((e["k"] == "assume_ok" and "get" in fmt_term(e["args"][0])) or (
            e["k"] == "assume" and e["args"][1] == TRUE and ("is_some" in fmt_term(e["args"][0]) or "contains_key" in fmt_term(e["args"][0])))
            for e in p["eff"]) for p in errs)
        ck.ob("R12.component", "bind-fresh (register_new_local)", good and dup_fails, "",
              why + "; an existing binding in the current scope is an error: %s" % dup_fails)
    # ---- register_local: lookup-or-bind, innermost-first
    ex, paths = _run(fx, C + "Environment::register_local", [SELF, ("var", "id")])
    if ck.anchor("R12.component", "Environment::register_local", paths):
        ck.fn(C + "Environment::register_local")
        _lookup_shape(ck, "lookup-or-bind (register_local)", paths, found_returns="index", miss="bind")
    # ---- has_local
    ex, paths = _run(fx, C + "Environment::has_local", [SELF, ("var", "id")])
    if ck.anchor("R12.component", "Environment::has_local", paths):
        ck.fn(C + "Environment::has_local")
        _lookup_shape(ck, "visible? (has_local)", paths, found_returns="true", miss="false")
    # ---- in_outermost_scope ⇔ len(scopes) == initial length (1)
    ex, paths = _run(fx, C + "Environment::in_outermost_scope", [SELF])
    ex2, new_paths = _run(fx, C + "Environment::new", [])
    if ck.anchor("R12.component", "Environment::in_outermost_scope", paths) and ck.anchor("R12.component", "Environment::new", new_paths):
        vals = {fmt_term(p["out"][1]) for p in paths if p["out"][0] == "val"}
        init = None
        for p in new_paths:
            if p["out"][0] == "val" and p["out"][1][0] == "ctor":
                sc = dict(p["out"][1][3]).get("scopes")
                from ..stdmodels import tlen
                l = tlen(sc)
                init = l[1] if l[0] == "lit" else None
        ok = vals == {"eq(len(field(self, 'scopes')), %s)" % init} and init is not None
        ck.ob("R12.component", "outermost? (in_outermost_scope)", ok, "",
              "in_outermost_scope = %s; a new environment starts with %s scope(s)" % (sorted(vals), init))
    # ---- enter / leave / count
    ex, paths = _run(fx, C + "Environment::enter_scope", [SELF])
    if ck.anchor("R12.component", "Environment::enter_scope", paths):
        p = [q for q in paths if q["out"][0] == "val"]
        ok = False
        why = ""
        if len(p) == 1:
            sets = [e for e in p[0]["eff"] if e["k"] == "set_field" and e["args"][1] == lit("scope_sequence")]
            pushes = _calls(p[0]["eff"], "::push")
            inc = sets and fmt_term(sets[0]["args"][2]) == "add(field(self, 'scope_sequence'), 1)"
            pushed = pushes and pushes[0]["args"][1] == F("scopes") and sets and pushes[0]["args"][2] == sets[0]["args"][2]
            ok = bool(inc and pushed and len(pushes) == 1)
            why = "scope counter strictly incremented: %s; the new id is pushed on the scope stack: %s" % (bool(inc), bool(pushed))
        ck.ob("R12.component", "enter_scope (fresh id pushed)", ok, "", why or "%d paths" % len(p))
    ex, paths = _run(fx, C + "Environment::leave_scope", [SELF])
    if ck.anchor("R12.component", "Environment::leave_scope", paths):
        p = [q for q in paths if q["out"][0] == "val"]
        pops = _calls(p[0]["eff"], "::pop") if p else []
        ok = len(p) == 1 and len(pops) == 1 and pops[0]["args"][1] == F("scopes")
        ck.ob("R12.component", "leave_scope (pop)", ok, "", "pops the scope stack exactly once: %s" % ok)
    ex, paths = _run(fx, C + "Environment::count_locals", [SELF])
    if ck.anchor("R12.component", "Environment::count_locals", paths):
        vals = {fmt_term(p["out"][1]) for p in paths if p["out"][0] == "val"}
        ck.ob("R12.component", "count_locals = locals.len()", vals == {"len(field(self, 'locals'))"}, "", "count_locals = %s" % sorted(vals))
    # ---- insert-only map, counter monotone (who-may-write census)
    from ..census import field_uses
    bad = []
    n = 0
    for b, node, ps, ctx in field_uses(fx, C + "Environment", "locals"):
        if b["from_expansion"]:
            continue
        n += 1
        if ctx["kind"] == "recv" and ctx["mut"] and ctx["method"] == "entry":
            # the entry API: insert-only when the function only inserts through a *vacant* entry and reads an occupied one
            from ..facts import walk_body as _wb
            over = []
            for x, _ in _wb(b):
                if x.get("k") == "MethodCall":
                    cd = str((x.get("callee") or {}).get("inst") or (x.get("callee") or {}).get("def") or "")
                    if "Entry" in cd and not (("VacantEntry" in cd and x["name"] in ("insert", "key", "into_key")) or ("OccupiedEntry" in cd and x["name"] in ("get", "key"))):
                        over.append(x["name"])
            if over:
                bad.append("%s .entry() with %s" % (b["path"], "/".join(sorted(set(over)))))
        elif ctx["kind"] == "recv" and ctx["mut"] and ctx["method"] not in ("insert",):
            bad.append("%s .%s()" % (b["path"], ctx["method"]))
        if ctx["kind"] in ("assign", "addr_of_mut"):
            bad.append("%s %s" % (b["path"], ctx["kind"]))
    ck.ob("R12.lookup", "Environment.locals is insert-only", not bad and n >= 6, "", "uses: %d; other mutations: %s" % (n, bad or "none"))
    bad = []
    for b, node, ps, ctx in field_uses(fx, C + "Environment", "scope_sequence"):
        if b["from_expansion"]:
            continue
        if ctx["kind"] == "assign" or (ctx["kind"] == "assign_op" and ctx.get("op") != "AddAssign"):
            bad.append("%s %s" % (b["path"], ctx["kind"]))
    ck.ob("R12.lookup", "scope ids come from a strictly increasing counter", not bad, "", "non-incrementing writes: %s" % (bad or "none"))


def _flat(effs):
    for e in effs:
        yield e
        if e["k"] in ("foreach", "loop"):
            for bp in e.get("paths", []) + e.get("exits", []) + e.get("elem_fail", []):
                yield from _flat(bp["eff"])


def _lookup_shape(ck, name, paths, found_returns, miss):
    """foreach over scopes in REVERSE: probe locals with (scope, id); first hit returns."""
    problems = []
    loops = []
    for p in paths:
        for e in p["eff"]:
            if e["k"] == "foreach" and e not in loops:
                loops.append(e)
    uniq = {}
    for e in loops:
        uniq[e.get("loop")] = e
    loops = list(uniq.values())
    if len(loops) != 1:
        problems.append("%d loops" % len(loops))
    else:
        lp = loops[0]
        it = lp["args"][0]
        if it[0] != "iter" or it[1] != F("scopes"):
            problems.append("does not iterate the scope stack (%s)" % fmt_term(it))
        elif it[2] != "rev":
            problems.append("walks the scope stack OUTERMOST-first: an inner shadowing definition is not the nearest one found")
        probes = []
        for bp in lp.get("paths", []) + lp.get("exits", []):
            probes += _calls(bp["eff"], "::get") + _calls(bp["eff"], "::contains_key")
        if not probes:
            problems.append("no map probe in the loop")
        else:
            k = probes[0]["args"][2]
            if not (k[0] == "tuple" and k[1][0] == lp["elem"] and k[1][1] == ("var", "id") and probes[0]["args"][1] == F("locals")):
                problems.append("probe key is not (scope id, name) on locals: %s" % fmt_term(k))
        hit_exits = [bp for bp in lp.get("exits", []) if bp["out"][0] == "ret"]
        short_circuit = lp.get("driver") in ("any", "find", "find_map", "position", "all")   # std searches stop at the first hit
        if not hit_exits and not short_circuit:
            problems.append("a hit does not end the search")
    # every completed path must have performed the walk (no shortcut such as a memo table), and the
    # component may consult only its scope stack and its slot map
    for p in paths:
        if p["out"][0] != "val":
            continue
        walked = any(e["k"] == "foreach" and e["args"][0][0] == "iter" and e["args"][0][1] == F("scopes") for e in p["eff"])
        if not walked:
            problems.append("a path answers without walking the scope stack (result %s) — stale or memoised resolution ignores later shadowing definitions" % fmt_term(p["out"][1])[:60])
            break
    foreign = set()
    for p in paths:
        for e in _flat(p["eff"]):
            if e["k"] == "call" and len(e["args"]) > 1:
                r = fmt_term(e["args"][1])
                if "field(self, '" in r and "field(self, 'locals')" not in r and "field(self, 'scopes')" not in r:
                    foreign.add(r[:60])
    if foreign:
        problems.append("consults other state than the scope stack and the slot map: %s" % sorted(foreign))
    if miss == "bind":
        done = [p for p in paths if p["out"][0] == "val" and not any(e.get("taken_exit") for e in p["eff"])]
        ok_bind = False
        for p in done:
            ins = _calls(p["eff"], "::insert")
            if len(ins) == 1 and ins[0]["args"][1] == F("locals"):
                key_t, idx_t = ins[0]["args"][2], ins[0]["args"][3]
                ok_bind = key_t[0] == "tuple" and _origin(p["eff"], key_t[1][0]) == ("last", F("scopes")) and key_t[1][1] == ("var", "id") and "len(field(self, 'locals'))" in fmt_term(idx_t)
        if not ok_bind:
            problems.append("a miss does not bind (innermost scope id, name) ↦ locals.len()")
    ck.ob("R12.lookup", name, not problems, "", "innermost-first walk over the scope stack, first hit wins, %s" % (
        "miss binds in the innermost scope" if miss == "bind" else "miss → false") if not problems else "; ".join(problems))


# --------------------------------------------------------------------------- R12.fn

def _fn(ck, T):
    for variant, expect_this in (("Function", False), ("Object", True)):
        for keep in (True, False):
            ex, paths, err = T.get((variant, keep), (None, [], "missing"))
            for p in paths:
                if not is_ok_result(p):
                    continue
                items = list(all_items(stream(p["eff"])))
                recs = [it for it in items if it.kind == "rec" and it.buf != ("var", "active_buffer")]
                key = "%s|keep=%s|%s" % (variant, "T" if keep else "F", frame_label(p["eff"]))
                if not recs:
                    ck.ob("R12.fn", key, False, "", "no body compile found")
                    continue
                r = recs[0]
                fr = r.frame
                problems = []
                if not (fr[0] == "ctor" and fr[2] == "Local"):
                    problems.append("body is not compiled in a Local frame (%s)" % fmt_term(fr))
                    env = None
                else:
                    env = fr[3][0][1]
                    if env[0] != "obj" or env[1] != "Env":
                        problems.append("body environment is %s, not a fresh Environment::new() — names of the defining context leak into the body" % fmt_term(env))
                if env is not None:
                    regs = [it for it in items if it.kind in ("env_lookup_or_bind", "env_bind_fresh") and it.eff["args"][0] == env]
                    # order: this?, then a forward loop over parameters
                    names = [fmt_term(it.eff["args"][1]) for it in regs]
                    want_first = ["'this'"] if expect_this else []
                    if names[:len(want_first)] != want_first:
                        problems.append("receiver `this` is not registered first (registrations: %s)" % names)
                    loops = [it for it in items if it.kind == "foreach" and "parameters" in fmt_term(it.base) and any(
                        x.kind in ("env_lookup_or_bind", "env_bind_fresh") and x.eff["args"][0] == env for v in it.variants for x in v["items"])]
                    if len(loops) != 1:
                        problems.append("%d parameter registration loops" % len(loops))
                    else:
                        b = loops[0].base
                        if b[0] != "iter" or b[2] != "fwd" or "parameters" not in fmt_term(b[1]):
                            problems.append("parameters are not registered forwards (%s)" % fmt_term(b))
                        # this must precede the loop
                        if expect_this and regs and items.index(regs[0]) > items.index(loops[0]):
                            problems.append("`this` is registered after the parameters")
                        # before the body
                        if items.index(loops[0]) > items.index(r):
                            problems.append("parameters registered after the body is compiled")
                ck.ob("R12.fn", key, not problems, r.at,
                      "fresh environment, [%sparameters…] registered in order, Local frame" % ("this, " if expect_this else "") if not problems else "; ".join(problems))


def _own_subtrees(ck, T):
    """R12.place — every tree an arm compiles in the current environment is part of the node being compiled (one of its
    children, an element of one of its child lists, or a tree the arm builds from them). A tree fetched from anywhere
    else — a table of function bodies, a cache — would have its variables resolved in the scope of the place of use
    instead of the place where it was written (inlining a body at the call site captures the caller's locals)."""
    from ..symex import _all_effs
    n = 0
    for (variant, keep), (ex, paths, err) in sorted(T.items()):
        if not paths:
            continue
        foreign = []
        for p in paths:
            elems = {}
            for e in _all_effs(p["eff"]):
                if e["k"] == "foreach" and e.get("elem") is not None:
                    elems[e["elem"]] = e["args"][0]
            for e in _all_effs(p["eff"]):
                if e["k"] != "rec":
                    continue
                n += 1
                child = e["args"][0]
                if not _from_node(child, elems, 0):
                    foreign.append((fmt_term(child)[:80], e.get("at", "")))
        key = "%s|keep=%s" % (variant, "T" if keep else "F")
        ck.ob("R12.place", key, not foreign, foreign[0][1] if foreign else "",
              "every compiled tree is part of the node" if not foreign else
              "compiles %s, which is not a part of the %s node: its variables are resolved in the scope of this place, not of the place it was written" % (foreign[0][0], variant))
    ck.floor("R12.place", "recursive compilations examined", n, 20)


def _from_node(t, elems, depth):
    if depth > 6 or not isinstance(t, tuple) or not t:
        return False
    if t[0] == "var":
        return str(t[1]) == "self" or str(t[1]).startswith("self.")
    if t in elems:
        it = elems[t]
        return isinstance(it, tuple) and it[:1] == ("iter",) and _from_node(it[1], elems, depth + 1)
    if t[0] == "sym" and len(t) == 3 and t[2] == "elem":
        # the element of a loop whose effect was merged / normalised away: look the loop up by the symbol's number
        for k, it in elems.items():
            if k[1] == t[1]:
                return isinstance(it, tuple) and it[:1] == ("iter",) and _from_node(it[1], elems, depth + 1)
    if t[0] == "ctor":
        return True         # a tree the arm builds itself (the array rewrite); its parts are checked by R13.arrayrewrite
    if t[0] == "lit":
        return False
    if t[0] == "app" and t[1] in ("field", "proj", "tuple_field", "index", "deref", "payload_of_box", "unbox", "map_of", "sorted", "init_of", "rest_of", "first_of", "last_of", "reversed", "cast", "as_ref", "as_slice"):
        return _from_node(t[2][0], elems, depth + 1)
    if t[0] == "app" and t[1] in ("array", "concat"):
        return all(_from_node(x, elems, depth + 1) for x in t[2])
    return False
