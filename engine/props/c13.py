"""C13 — left-to-right evaluation; subexpressions run exactly as often as specified.

R13.order        in every arm's template the recursive compiles occur, on every control-flow path of the
                 template, in S2's order and multiplicity (forward iteration over list children).
R13.paths        Conditional: the two branches lie on disjoint paths selected by Branch's polarity;
                 Loop: path language  condition (body condition)*  with exit on the falsy edge.
R13.arrayrewrite the compound-array rewrite is the documented program (size once and first; counter from 0,
                 step +1, loop while < size; initializer once per iteration before the set).
R13.vm           (VM client, see c05) pop_sequence delivers push order; frames are [receiver]++args++locals;
                 print substitutes in push order; object slots are assigned in class order.
"""
from .. import anchors as A
from ..template import stream, is_ok_result, rec_paths, analyse_buffer, label_of
from ..symex import lit, TRUE, FALSE
from ..symdbg import fmt_term
from ..tables import simple_enum_table
from .c02 import templates, all_loops, frame_label, all_items

LEVEL = "other"

V = lambda f: ("var", "self." + f)
EACH = "each"

# S2: expected evaluation order of the children (run-time trace), per AST kind
S2 = {
    "Integer": [], "Boolean": [], "Null": [], "AccessVariable": [],
    "Variable": ["value"], "AssignVariable": ["value"],
    "AccessField": ["object"], "AssignField": ["object", "value"],
    "AccessArray": ["array", "index"], "AssignArray": ["array", "index", "value"],
    "CallFunction": [(EACH, "arguments")], "CallMethod": ["object", (EACH, "arguments")],
    "Print": [(EACH, "arguments")],
    "Block": [(EACH, "0")],
    "Function": [],
}


def run(ck, fx, cg, tier):
    ck.explanation = (
        "Evaluation order is a property of the compiler's templates plus the VM's pop/push orientation. For every AST "
        "kind, keep value and frame alternative, the arm's template (symbolic execution of compile_into) is turned "
        "into its own control-flow graph; along every path the sequence of recursive compiles must equal S2's child "
        "order exactly once each, list children must be iterated forwards, the conditional's branches must hang off "
        "the truthy/falsy edges of Branch, the loop's path language must be cond (body cond)*, and the compound-array "
        "arm must build exactly the documented rewrite. On the VM side (R13.vm, shared with C05) the orientation of "
        "pop_sequence / frames / print / object slots is decided from the handler templates. Sound for the ordering "
        "statement relative to S1 (straight-line VM execution trusted).")
    ck.trusted_base = ["rustc resolution/type check", "fml-facts dumper", "symbolic executor + std models", "S1/S2 reference tables"]
    T = templates(fx)
    if not ck.anchor("R13", "compile_into templates", T):
        return
    ck.fn(A.get("compile_into"))
    n = 0
    for (variant, keep), (ex, paths, err) in sorted(T.items()):
        key0 = "%s|keep=%s" % (variant, "T" if keep else "F")
        if err or not [p for p in paths if is_ok_result(p)]:
            ck.ob("R13.order", key0, False, "", "no template (unprovable): %s" % err)
            continue
        seen = {}
        for p in paths:
            if not is_ok_result(p):
                continue
            alt = frame_label(p["eff"])
            seen[alt] = seen.get(alt, 0) + 1
            key = "%s|%s%s" % (key0, alt, "" if seen[alt] == 1 else "#%d" % seen[alt])
            items = stream(p["eff"])
            loops = all_loops(p["eff"])
            n += 1
            if variant == "Conditional":
                _conditional(ck, key, items, loops)
            elif variant == "Loop":
                _loop(ck, key, items, loops)
            elif variant == "Array":
                if "value:simple" in alt:
                    _straight(ck, key, items, loops, ["size", "value"], ("var", "active_buffer"))
                    _simple_set(ck, key, p)
                else:
                    _array_rewrite(ck, fx, key, items, keep)
            elif variant == "Object":
                _object(ck, key, items, loops)
            elif variant == "Top":
                bufs = [it.buf for it in all_items(items) if it.kind == "rec"]
                _straight(ck, key, items, loops, [(EACH, "0")], bufs[0] if bufs else ("var", "active_buffer"))
            elif variant == "Function":
                bufs = [it.buf for it in all_items(items) if it.kind == "rec"]
                _straight(ck, key, items, loops, ["body"], bufs[0] if bufs else ("var", "active_buffer"))
            else:
                _straight(ck, key, items, loops, S2[variant], ("var", "active_buffer"))
    ck.floor("R13.order", "templates examined", n, 40)
    try:
        from . import c05_vm
        c05_vm.orientation_rules(ck, fx, cg, rule="R13.vm")
    except ImportError:
        ck.note("R13.vm: VM-side orientation rules not built yet")
    _jump_targets(ck, fx, cg)
    # "the documented number of times" rests on the VM running the emitted instructions one after another: every
    # handler moves the instruction pointer exactly as its S1 row says (next instruction, the label, the callee's start,
    # the saved return address). An extra or missing bump anywhere silently skips or repeats instructions — prints,
    # assignments and allocations then happen a different number of times. These are C05's handler rows.
    from . import shared as _sh13
    # (a row can also fail for reasons that do not move control — a missing fault check, a wrong operand — those are
    # C05's / C10's alone and are not counted against this property)
    CONTROL = ("state effects", "return address", "ip is", "does not jump", "does not fall through", "instruction pointer", "truthiness")
    _sh13.presuppose(ck, fx, cg, "C05", lambda o: o["rule"] == "R5.op" and o["key"].split("|")[0].startswith("eval_") and
                     (o["ok"] or any(w in o["detail"] for w in CONTROL)), "R13.vm",
                     "every instruction handler advances / transfers control as its row says (C05 handler rows)", floor=20)


def _jump_targets(ck, fx, cg):
    """The conditional's and the loop's control flow (only the taken branch; condition before each iteration and
    once more at exit) is realised by jumps to labels: it holds only if every jump reaches the label of its own
    construct, i.e. label names are unique program-wide. That is C02's label discipline (R2.labels); its obligations
    are evaluated here as a presupposition of the ordering statement."""
    from ..core import Check, load_known
    from . import c02
    known = load_known()
    sub = Check("C02", ck.tier, ck.seed)
    try:
        c02.run(sub, fx, cg, "quick")
    except Exception as e:  # noqa
        ck.ob("R13.jumps", "label discipline", False, "", "C02's label rules could not be evaluated: %s: %s" % (type(e).__name__, e))
        return
    labs = [o for o in sub.obligs if o["rule"].startswith("R2.labels")]
    bad = [o for o in labs if not o["ok"] and ("C02", "%s|%s" % (o["rule"], o["key"])) not in known]
    ck.ob("R13.jumps", "every jump reaches the label of its own construct", not bad, bad[0]["where"] if bad else "",
          "%d label obligation(s) (fresh group per construct, emitted once, strictly increasing counter, one generator) hold" % len(labs) if not bad else
          "%d label obligation(s) violated, first: %s — %s: a Branch/Jump can land in another construct, so a branch not taken or a loop body of another method runs" % (
              len(bad), bad[0]["key"], bad[0]["detail"][:200]))
    ck.floor("R13.jumps", "label obligations evaluated", len(labs), 3)


SIDE_EFFECT_FREE = {"Integer", "Boolean", "Null", "AccessVariable"}


def _simple_set(ck, key, p):
    """The initializer kinds compiled once (array opcode) must be side-effect free by construction:
    evaluating them once or n times is indistinguishable. The condition that selects the single-evaluation path is
    read structurally: a disjunction in which EVERY disjunct pins the initializer to a side-effect-free kind (further
    conjuncts only narrow it); a disjunct about anything else — the size, a flag — lets arbitrary initializers through."""
    def ors(t):
        if t[0] == "app" and t[1] == "or":
            return [x for a in t[2] for x in ors(a)]
        return [t]

    def ands(t):
        if t[0] == "app" and t[1] == "and":
            return [x for a in t[2] for x in ands(a)]
        return [t]
    kinds = set()
    loose = []
    at = ""
    for e in p["eff"]:
        if e["k"] == "assume" and e["args"][1] == TRUE and "is_variant(self.value" in fmt_term(e["args"][0]):
            at = e["at"]
            for d in ors(e["args"][0]):
                ks = [c[2][1][1] for c in ands(d) if c[0] == "app" and c[1] == "is_variant" and c[2][0] == ("var", "self.value")]
                if ks:
                    kinds |= set(ks)
                else:
                    loose.append(fmt_term(d)[:80])
    bad = sorted(kinds - SIDE_EFFECT_FREE)
    ok = bool(kinds) and not bad and not loose
    ck.ob("R13.arrayrewrite", key + "|kinds evaluated once", ok, at,
          "initializer kinds compiled to a single evaluation: %s%s%s" % (sorted(kinds), "" if not bad else
          " — %s can have side effects, which must happen once per element" % bad, "" if not loose else
          " — the single-evaluation path is also taken when %s, whatever the initializer is: it is then evaluated before the array exists and only once" % loose))


def _events(items, loops, buf):
    R = analyse_buffer(items, buf, loops)
    return R, rec_paths(R.seq, R.labels)


def _describe(ev):
    out = []
    for e in ev:
        if e[0] == "rec":
            out.append(fmt_term(e[1]))
        elif e[0] == "foreach":
            out.append("each(%s)" % fmt_term(e[1].base))
        elif e[0] == "branch":
            out.append("branch:%s" % ("taken" if e[1] else "fall"))
    return out


def _match_expected(evs, expected):
    """events (rec / foreach) vs expected child list; returns (ok, why)"""
    got = [e for e in evs if e[0] in ("rec", "foreach")]
    got = _merge_split(got)
    if len(got) != len(expected):
        return False, "children evaluated: %s, expected order %s" % (_describe(got), expected)
    for g, want in zip(got, expected):
        if isinstance(want, tuple) and want[0] == EACH:
            if g[0] != "foreach":
                return False, "expected a forward loop over %s, found %s" % (want[1], _describe([g]))
            ok, why = _forward_each(g[1], V(want[1]))
            if not ok:
                return False, why
        else:
            if g[0] != "rec" or g[1] != V(want):
                return False, "expected child `%s` here, found %s (order %s, expected %s)" % (want, _describe([g]), _describe(got), expected)
    return True, "children evaluated in order %s, once each" % (expected,)


class _Whole:
    """`for x in init { c(x) }; c(last)` over `xs.split_last()` (or first / rest) — the same traversal as `for x in xs`"""

    def __init__(self, it, whole):
        self.variants, self.eff = it.variants, it.eff
        self.base = ("iter", whole, it.base[2], it.base[3])


def _merge_split(got):
    out = []
    i = 0
    while i < len(got):
        g = got[i]
        nxt = got[i + 1] if i + 1 < len(got) else None
        if g[0] == "foreach" and nxt is not None and nxt[0] == "rec" and g[1].base[0] == "iter":
            b = g[1].base[1]
            if b[0] == "app" and b[1] == "init_of" and nxt[1] == ("app", "last_of", b[2]):
                out.append(("foreach", _Whole(g[1], b[2][0])))
                i += 2
                continue
        if g[0] == "rec" and nxt is not None and nxt[0] == "foreach" and nxt[1].base[0] == "iter":
            b = nxt[1].base[1]
            if b[0] == "app" and b[1] == "rest_of" and g[1] == ("app", "first_of", b[2]):
                out.append(("foreach", _Whole(nxt[1], b[2][0])))
                i += 2
                continue
        out.append(g)
        i += 1
    return out


def _forward_each(it, base_term):
    """foreach item iterates `base_term` forwards, and its body compiles the element exactly once"""
    base = it.base
    if base[0] != "iter":
        return False, "not an iterator"
    if base[1] != base_term:
        return False, "loop iterates %s, expected %s" % (fmt_term(base[1]), fmt_term(base_term))
    if base[2] != "fwd":
        return False, "list child %s is iterated in REVERSE" % fmt_term(base_term)
    for f in base[3]:
        if f != "enumerate" and not (isinstance(f, tuple) and f[0] in ("map",)):
            return False, "list child is filtered/truncated by .%s()" % (f if isinstance(f, str) else f[0])
    ok_variants = [v for v in it.variants if v["out"][0] in ("val", "cont")]
    if len(ok_variants) != 1:
        return False, "%d normal paths through the loop body" % len(ok_variants)
    recs = [x for x in ok_variants[0]["items"] if x.kind == "rec"]
    if len(recs) != 1:
        return False, "element compiled %d times per iteration" % len(recs)
    elem = it.eff["elem"]
    if recs[0].child != elem:
        return False, "loop body compiles %s, not the element" % fmt_term(recs[0].child)
    return True, ""


def _straight(ck, key, items, loops, expected, buf):
    R, paths = _events(items, loops, buf)
    ok_all, why_all = True, ""
    for ev in paths:
        ok, why = _match_expected(ev, expected)
        if not ok:
            ok_all, why_all = False, why
            break
        why_all = why
    if not paths:
        ok_all, why_all = (not expected), "no instructions"
    ck.ob("R13.order", key, ok_all, _at(items), why_all)
    if len(ck.samples) < 12:
        ck.sample({"rule": "R13.order", "arm": key, "paths": [_describe(ev) for ev in paths][:4], "expected": [str(e) for e in expected]})


def _at(items):
    for it in items:
        if it.kind in ("rec", "emit", "foreach") and it.at:
            return it.at
    return ""


def _conditional(ck, key, items, loops):
    R, paths = _events(items, loops, ("var", "active_buffer"))
    got = set()
    for ev in paths:
        recs = [e[1] for e in ev if e[0] == "rec"]
        br = [e[1] for e in ev if e[0] == "branch"]
        got.add((tuple(fmt_term(r) for r in recs), tuple(br)))
    want = {(("self.condition", "self.consequent"), (True,)), (("self.condition", "self.alternative"), (False,))}
    ck.ob("R13.paths", key, got == want, _at(items),
          "paths (children; branch taken?) = %s; expected condition→consequent on the truthy edge and condition→alternative on the falsy edge" % sorted(got))
    ck.sample({"rule": "R13.paths", "arm": key, "paths": sorted([list(a) + [list(b)] for a, b in got], key=str)})


def _loop(ck, key, items, loops):
    R, paths = _events(items, loops, ("var", "active_buffer"))
    problems = []
    seqs = set()
    for ev in paths:
        s = []
        for e in ev:
            if e[0] == "rec":
                s.append("c" if e[1] == V("condition") else ("b" if e[1] == V("body") else "?"))
            elif e[0] == "branch":
                s.append("T" if e[1] else "F")
            elif e[0] == "cut":
                s.append("…")
        seqs.add("".join(s))
    import re
    for s in seqs:
        # c (T b c)* F   — possibly cut after two unrollings
        if s.endswith("…"):
            if not re.fullmatch(r"c(Tbc)*(T(bc?)?)?", s[:-1]):   # a cut path must be a prefix of the language
                problems.append(s)
        elif not re.fullmatch(r"c(Tbc)*F", s):
            problems.append(s)
    if not any(s.endswith("F") for s in seqs):
        problems.append("no exit path")
    if not any("Tbc" in s for s in seqs):
        problems.append("body never re-evaluates the condition")
    ck.ob("R13.paths", key, not problems, _at(items),
          "path language %s; expected  c (T b c)* F  (condition first, body only on the truthy edge, condition again after each body, exit on the falsy edge)%s" % (
              sorted(seqs), "" if not problems else " — offending: %s" % problems))
    ck.sample({"rule": "R13.paths", "arm": key, "language": sorted(seqs)})


def _object(ck, key, items, loops):
    active = ("var", "active_buffer")
    top = [it for it in items if (it.kind == "rec" and it.buf == active) or it.kind == "foreach"]
    problems = []
    if not top or top[0].kind != "rec" or top[0].child != V("extends"):
        problems.append("parent expression is not compiled first")
    fe = [it for it in top if it.kind == "foreach"]
    if len(fe) != 1:
        problems.append("%d loops over members" % len(fe))
    else:
        it = fe[0]
        base = it.base
        if base[0] != "iter" or base[1] != V("members") or base[2] != "fwd":
            problems.append("members are not iterated forwards in declaration order (%s)" % fmt_term(base))
        if any((f if isinstance(f, str) else f[0]) in ("filter", "filter_map", "take", "skip", "rev") for f in base[3]):
            problems.append("members are filtered/reordered")
        n_field = 0
        for v in it.variants:
            if v["out"][0] not in ("val", "cont"):
                continue
            recs_active = [x for x in v["items"] if x.kind == "rec" and x.buf == active]
            recs_other = [x for x in v["items"] if x.kind == "rec" and x.buf != active]
            if recs_active:
                n_field += 1
                if len(recs_active) != 1 or "'Variable', 'value'" not in fmt_term(recs_active[0].child):
                    problems.append("field member initialiser compiled %d times / not the member's value" % len(recs_active))
            elif recs_other:
                if len(recs_other) != 1 or "'Function', 'body'" not in fmt_term(recs_other[0].child):
                    problems.append("method member body not compiled exactly once into its own buffer")
        if n_field != 1:
            problems.append("%d field-member alternatives" % n_field)
        after = top[top.index(it) + 1:]
        if any(x.kind == "rec" for x in after):
            problems.append("something is compiled after the members")
    ck.ob("R13.order", key, not problems, _at(items),
          "parent first, then members in declaration order (field initialisers once each; methods compiled aside)" if not problems else "; ".join(problems))


def _array_rewrite(ck, fx, key, items, keep):
    """The compound arm must compile exactly S2's rewrite."""
    recs = [it for it in items if it.kind == "rec"]
    problems = []
    ops = simple_enum_table(fx, fx.body("parser::Operator::as_str"), "parser::Operator") or {}

    def ident(t):
        # Identifier{0: X}
        if t[0] == "ctor" and t[2] is None or (t[0] == "ctor" and t[1] and t[1].endswith("Identifier")):
            x = t[3][0][1]
            if x[0] == "ctor" and x[1] and x[1].endswith("Operator"):
                return ("op", ops.get(x[2]))
            if x[0] == "lit" and x[1] in set(ops.values()):
                return ("op", x[1])          # the operator's spelling, already looked up (`op.as_str().to_owned()`)
            return x
        return t

    def node(t, variant):
        return t[0] == "ctor" and t[2] == variant

    def f(t, name):
        return dict(t[3]).get(name)

    def elems(t):
        if t[0] == "app" and t[1] == "array":
            return list(t[2])
        return None

    if len(recs) != 5:
        ck.ob("R13.arrayrewrite", key, False, _at(items), "rewrite compiles %d pieces, expected 5 (size, array, counter, loop, result)" % len(recs))
        return
    r_size, r_arr, r_i, r_loop, r_res = [r.child for r in recs]
    keeps = [r.keep for r in recs]
    want_keeps = [FALSE, FALSE, FALSE, FALSE, lit(keep)]
    if keeps != want_keeps:
        problems.append("keep flags %s, expected %s" % ([fmt_term(k) for k in keeps], [fmt_term(k) for k in want_keeps]))
    try:
        S = ident(f(r_size, "name"))
        Aname = ident(f(r_arr, "name"))
        I = ident(f(r_i, "name"))
        if not (node(r_size, "Variable") and f(r_size, "value") == V("size")):
            problems.append("step 1 is not `let ::size = <size>`")
        av = f(r_arr, "value")
        if not (node(r_arr, "Variable") and node(av, "Array") and node(f(av, "size"), "AccessVariable") and ident(f(f(av, "size"), "name")) == S and node(f(av, "value"), "Null")):
            problems.append("step 2 is not `let ::array = array(::size, null)`")
        if not (node(r_i, "Variable") and node(f(r_i, "value"), "Integer") and f(r_i, "value")[3][0][1] == lit(0)):
            problems.append("step 3 is not `let ::i = 0` (the index counter must start at 0)")
        cond, body = f(r_loop, "condition"), f(r_loop, "body")
        if not (node(r_loop, "Loop") and node(cond, "CallMethod") and ident(f(cond, "name")) == ("op", "<") and node(f(cond, "object"), "AccessVariable")
                and ident(f(f(cond, "object"), "name")) == I and elems(f(cond, "arguments")) and len(elems(f(cond, "arguments"))) == 1
                and node(elems(f(cond, "arguments"))[0], "AccessVariable") and ident(f(elems(f(cond, "arguments"))[0], "name")) == S):
            problems.append("loop condition is not `::i < ::size`")
        stmts = elems(body[3][0][1]) if node(body, "Block") else None
        if not stmts or len(stmts) != 2:
            problems.append("loop body is not a two-statement block")
        else:
            st_set, st_inc = stmts
            if not (node(st_set, "AssignArray") and node(f(st_set, "array"), "AccessVariable") and ident(f(f(st_set, "array"), "name")) == Aname
                    and node(f(st_set, "index"), "AccessVariable") and ident(f(f(st_set, "index"), "name")) == I and f(st_set, "value") == V("value")):
                problems.append("first body statement is not `::array[::i] <- <initializer>` (initializer exactly once per iteration, before the store)")
            inc = f(st_inc, "value") if node(st_inc, "AssignVariable") else None
            if not (inc and ident(f(st_inc, "name")) == I and node(inc, "CallMethod") and ident(f(inc, "name")) == ("op", "+")
                    and node(f(inc, "object"), "AccessVariable") and ident(f(f(inc, "object"), "name")) == I
                    and elems(f(inc, "arguments")) and len(elems(f(inc, "arguments"))) == 1 and node(elems(f(inc, "arguments"))[0], "Integer")
                    and elems(f(inc, "arguments"))[0][3][0][1] == lit(1)):
                problems.append("second body statement is not `::i <- ::i + 1`")
        if not (node(r_res, "AccessVariable") and ident(f(r_res, "name")) == Aname):
            problems.append("result is not `::array`")
        names = [S, Aname, I]
        if len({repr(x) for x in names}) != 3:
            problems.append("temporaries are not pairwise distinct")
        for nm in names:
            ok_nm = nm[0] == "fmt" and nm[1][0][0] == "lit" and nm[1][0][1].startswith("::") and len(nm[2]) == 1 and nm[2][0][0] == "sym" and "env_unique" in nm[2][0][2]
            if not ok_nm:
                problems.append("temporary name %s is not `::<tag>_<fresh number>` (must be unlexable and unique per array expression)" % fmt_term(nm))
                break
    except Exception as e:  # shape mismatch
        problems.append("rewrite has an unexpected shape (%s: %s)" % (type(e).__name__, e))
    ck.ob("R13.arrayrewrite", key, not problems, _at(items),
          "let ::size = SIZE; let ::array = array(::size, null); let ::i = 0; while ::i < ::size do begin ::array[::i] <- INIT; ::i <- ::i + 1 end; ::array"
          if not problems else "; ".join(problems))
    ck.sample({"rule": "R13.arrayrewrite", "arm": key, "pieces": [fmt_term(r.child)[:160] for r in recs]})
