"""C14 — object model: parent-chain dispatch, operators as methods, reference semantics.

R14.reference  Pointer is Copy and its Reference variant carries only a heap index; heap objects are
               never cloned in the VM's reachable set; array elements / object fields are written only by
               set_element / set_field; the heap vector is append-only.
R14.dispatch   (E3 templates, see below) own methods first, then the parent with the same name/arguments,
               failure at the end of the chain; primitives/arrays supply built-ins.
R14.arity      user-method calls compare the argument count before the frame is built.
R14.sugar      a[i] / a[i] <- v / operators reach the VM as CallMethod get/set/<spelling>.
"""
from .. import anchors as A
from ..facts import walk_body, walk, callee_def, callee_name, loc, peel
from ..census import field_uses
from . import shared

LEVEL = "other"

POINTER = "bytecode::heap::Pointer"
HEAP_TYPES = ("bytecode::heap::HeapObject", "bytecode::heap::ArrayInstance", "bytecode::heap::ObjectInstance")
ELEMENT_STORES = ("std::vec::Vec<bytecode::heap::Pointer>", "indexmap::IndexMap<std::string::String, bytecode::heap::Pointer>",
                  "indexmap::map::IndexMap<std::string::String, bytecode::heap::Pointer>")


def run(ck, fx, cg, tier):
    ck.explanation = (
        "Reference semantics decided as type and ownership facts: Pointer derives Copy and its Reference variant "
        "holds only a HeapIndex (a bare usize), so copying a pointer never copies an object; no Clone::clone of "
        "HeapObject/ArrayInstance/ObjectInstance or of their element storage occurs in code reachable from the VM; "
        "array elements and object fields are mutated only inside ArrayInstance::set_element / "
        "ObjectInstance::set_field on the object stored in the heap (reached through Heap::dereference_mut); the heap "
        "vector is append-only. Dispatch order, arity checks and get/set/operator sugar are decided from the "
        "handler templates (R14.dispatch/arity/sugar). Not decided: what `this` denotes in inherited methods "
        "(not stated by the property); run-time values.")
    ck.trusted_base = ["rustc resolution/type check", "fml-facts dumper", "MIR call graph"]
    # ------------------------------------------------------------ type facts
    p = fx.adts.get(POINTER)
    if ck.anchor("R14.reference", "type Pointer", p):
        copy = any(i.get("self_adt") == POINTER and i.get("trait") == "std::marker::Copy" for i in fx.impls)
        ck.ob("R14.reference", "Pointer: Copy", copy, loc(p), "Pointer %s Copy" % ("is" if copy else "is NOT"))
        ref = [v for v in p["variants"] if v["name"] == "Reference"]
        ok = bool(ref) and [f["ty"] for f in ref[0]["fields"]] == ["bytecode::heap::HeapIndex"]
        ck.ob("R14.reference", "Pointer::Reference payload", ok, loc(p),
              "Reference carries %s" % ([f["ty"] for f in ref[0]["fields"]] if ref else "nothing"))
        prim = {v["name"]: [f["ty"] for f in v["fields"]] for v in p["variants"]}
        ck.ob("R14.reference", "primitives are immediate", prim.get("Integer") == ["i32"] and prim.get("Boolean") == ["bool"] and prim.get("Null") == [],
              loc(p), "variants: %s" % prim)
        hi = fx.adts.get("bytecode::heap::HeapIndex")
        ok = bool(hi) and [f["ty"] for f in hi["variants"][0]["fields"]] == ["usize"]
        ck.ob("R14.reference", "HeapIndex is a bare index", ok, loc(hi) if hi else "", "HeapIndex fields: %s" % ([f["ty"] for f in hi["variants"][0]["fields"]] if hi else None))
    # ------------------------------------------------------------ no cloning of heap objects in the VM
    roots = []
    for role in ("evaluate_with", "evaluate_mem", "state.from"):
        ds = cg.dids_of(A.get(role))
        ck.anchor("R14.reference", role, ds or None)
        roots += ds
    reach = cg.reachable(roots)
    n_clone = 0
    for did in sorted(reach):
        hb = fx.hir_by_did.get(did)
        if hb is None or hb["from_expansion"]:
            continue
        ck.fn(hb["path"])
        for n, ps in walk_body(hb):
            if n.get("k") in ("MethodCall", "Call") and callee_def(n) in ("std::clone::Clone::clone", "std::borrow::ToOwned::to_owned", "std::clone::Clone::clone_from"):
                st = (n["callee"].get("self_ty") or (n["callee"].get("gargs") or ["?"])[0])
                n_clone += 1
                bad = any(st == t or st == "&" + t for t in HEAP_TYPES) or st in ELEMENT_STORES or any(
                    t in st for t in HEAP_TYPES) and st.startswith("std::vec::Vec<")
                ck.ob("R14.reference", "%s|clone of %s#%d" % (hb["path"], st, shared.ordinal(hb, n)), not bad, loc(n),
                      ("clones a heap object / its element storage (%s): aliases would stop sharing mutations" % st) if bad
                      else "clone of %s (not heap-object state)" % st, nontrivial=bad)
    ck.floor("R14.reference", "clone sites examined in the VM", n_clone, 0)
    # ------------------------------------------------------------ who-may-write element storage
    n_store = 0
    for adt, field, writer in (("bytecode::heap::ArrayInstance", "0", "bytecode::heap::ArrayInstance::set_element"),
                               ("bytecode::heap::ObjectInstance", "fields", "bytecode::heap::ObjectInstance::set_field")):
        for b, n, ps, ctx in field_uses(fx, adt, field):
            if b["from_expansion"]:
                continue
            n_store += 1
            mutating = ctx["kind"] in ("assign", "assign_op", "addr_of_mut") or (ctx["kind"] == "recv" and ctx["mut"]) or (
                ctx["kind"] == "arg" and ctx["mut"])
            if not mutating:
                continue
            ok = b["path"] == writer
            ck.ob("R14.reference", "%s|writes %s.%s" % (b["path"], adt.rsplit("::", 1)[1], field), ok, loc(n),
                  "element storage mutated in %s (%s)%s" % (b["path"], ctx.get("method") or ctx["kind"],
                                                           "" if ok else " — only %s may store into it" % writer))
    ck.floor("R14.reference", "uses of element storage examined", n_store, 1)
    # set_element / set_field are reached only through dereference_mut on the stored object
    for writer in ("bytecode::heap::ArrayInstance::set_element", "bytecode::heap::ObjectInstance::set_field"):
        ds = cg.dids_of(writer)
        if not ck.anchor("R14.reference", writer, ds or None):
            continue
        callers = sorted({cg.path[d] for d in cg.callers_of(ds[0])})
        for c in callers:
            hb = fx.body(c)
            if not hb:
                continue
            uses_mut = any(callee_name(n) == "bytecode::heap::Heap::dereference_mut" for n, _ in walk_body(hb)) or any(
                (fx.tyname(t) or "").startswith("&mut bytecode::heap::") for t in hb.get("param_tys", []))
            copies = any(callee_def(n) == "std::clone::Clone::clone" and any(t in ((n["callee"].get("self_ty") or "")) for t in HEAP_TYPES)
                         for n, _ in walk_body(hb))
            ck.ob("R14.reference", "%s|stores in place" % c, uses_mut and not copies, loc(hb),
                  "caller of %s obtains the object by &mut from the heap: %s; clones it: %s" % (writer.rsplit("::", 1)[1], uses_mut, copies))
    # heap append-only (shared with C16.onepush): no shrinking/reordering use of Heap.memory
    from .c16 import SHRINK, HEAP
    for b, n, ps, ctx in field_uses(fx, HEAP, "memory"):
        if ctx["kind"] == "recv" and ctx["method"] in SHRINK:
            ck.ob("R14.reference", "%s|heap vector %s" % (b["path"], ctx["method"]), False, loc(n), "heap indices are not stable: .%s()" % ctx["method"])
    # … and a heap slot, once filled, keeps its object: nothing overwrites an element of the heap vector (`memory[i] = …`,
    # `iter_mut()` over the slots, `swap`, `insert`): a reference to slot i would silently denote another object. The one
    # mutable access is `dereference_mut` (`get_mut`), through which set_field / set_element update the object in place
    n_mem = 0
    for b, n, ps, ctx in field_uses(fx, HEAP, "memory"):
        if b["from_expansion"]:
            continue
        n_mem += 1
        overwrite = (ctx["kind"] == "assign") or (ctx["kind"] == "recv" and ctx.get("mut") and ctx.get("method") not in ("push", "get_mut", "reserve", "shrink_to_fit")) or ctx["kind"] == "addr_of_mut"
        if overwrite and not (ctx["kind"] == "recv" and ctx.get("method") in SHRINK):
            what = "index assignment" if ctx["kind"] == "assign" and "index" in (ctx.get("via") or []) else (ctx.get("method") or ctx["kind"])
            ck.ob("R14.reference", "%s|heap slot overwritten (%s)" % (b["path"], what), False, loc(n),
                  "the heap vector is mutated by %s in %s: an object that existing references point to can be replaced by another one" % (what, b["path"]))
    ck.floor("R14.reference", "uses of the heap vector examined", n_mem, 3)
    # HeapObject construction sites: only the two evaluators (via new_object/from_pointers)
    ctors = set()
    for did in sorted(reach):
        hb = fx.hir_by_did.get(did)
        if hb is None or hb["from_expansion"]:
            continue
        for n, _ in walk_body(hb):
            if n.get("k") == "Call" and callee_name(n) in ("bytecode::heap::HeapObject::new_object", "bytecode::heap::HeapObject::from_pointers",
                                                           "bytecode::heap::HeapObject::from"):
                ctors.add(hb["path"])
    ck.ob("R14.reference", "heap objects are created only by the object/array evaluators",
          ctors <= {"bytecode::interpreter::eval_object", "bytecode::interpreter::eval_array"}, "",
          "HeapObject constructor callers in the VM: %s" % sorted(ctors))
    ck.sample({"rule": "R14.reference", "clone_sites": n_clone, "element_storage_uses": n_store, "ctor_callers": sorted(ctors)})
    # ------------------------------------------------------------ dispatch / arity / sugar (templates)
    try:
        from . import c14_templates
        c14_templates.run(ck, fx, cg, tier)
    except ImportError:
        ck.note("R14.dispatch/R14.arity/R14.sugar: template rules not built yet")
    # identity: every evaluation of an object / array expression yields a NEW heap object (two literals, or one literal
    # evaluated twice, never alias) — C05's rows for the Object and Array instructions (…, alloc, push the fresh
    # reference, ip_bump on every successful path), evaluated as one presupposition
    from . import shared as _shi
    _shi.presuppose(ck, fx, cg, "C05", lambda o: o["rule"] == "R5.op" and o["key"].split("|")[0] in ("eval_object", "eval_array"), "R14.reference",
                    "every object / array creation allocates a fresh heap object and yields the reference to it", floor=2)
    # `a[i]` / `a[i] <- v` / operators are ordinary calls every time they are evaluated: the compiler must not treat an
    # index or operator expression as a "plain read" that may be evaluated once for a whole array (C13's rule on the
    # single-evaluation initializer kinds)
    from . import shared as _sh
    _sh.presuppose(ck, fx, cg, "C13", lambda o: o["rule"] == "R13.arrayrewrite" and "kinds evaluated once" in o["key"], "R14.sugar",
                   "index / operator expressions are calls wherever they occur (never single-evaluation initializers)", floor=2)
