"""R14.dispatch / R14.arity / R14.sugar — from the handler and compile templates."""
from .. import anchors as A
from ..symex import lit, TRUE, FALSE
from ..symdbg import fmt_term
from ..template import stream, is_ok_result
from . import c05_vm as V
from .c02 import templates, all_items

I = "bytecode::interpreter::"


def run(ck, fx, cg, tier):
    _object_dispatch(ck, fx)
    _receiver_dispatch(ck, fx)
    _sugar(ck, fx)
    _arity(ck, fx)


def _object_dispatch(ck, fx):
    ex, paths, err = V.handler_paths(fx, "dispatch_object_method")
    if not ck.anchor("R14.dispatch", "dispatch_object_method", paths):
        if err:
            ck.ob("R14.dispatch", "dispatch_object_method", False, "", "template extraction failed: %s" % err)
        return
    ck.fn(I + "dispatch_object_method")
    found, delegated, failed = [], [], []
    for p in paths:
        evs = V.events(p["eff"])
        out = p["out"]
        dp = [e for e in evs if e["e"] == "dispatch"]
        fp = [e for e in evs if e["e"] == "frame_push"]
        if dp:
            delegated.append((p, evs, dp[0]))
        elif fp and out[0] == "val" and out[1][0] in ("ok", "fall"):
            found.append((p, evs, fp[0]))
        elif out[0] == "val" and out[1][0] == "err":
            failed.append((p, evs))
    # (a) own methods first
    ok_a = False
    why_a = "no path calls a method found in the receiver"
    for p, evs, fp in found:
        look = [e for e in evs if e["e"] == "call" and e["op"] == "get" and "'methods'" in fmt_term(e["recv"])]
        if look:
            by_name = V.mentions(look[0]["args"][0], ("var", "method_name"))
            recv_first = dict(fp["val"][3]).get("locals") if fp["val"][0] == "ctor" else None
            is_recv = recv_first is not None and recv_first[0] == "app" and recv_first[1] == "concat" and recv_first[2][0] == ("app", "array", (("var", "receiver_pointer"),))
            ok_a = by_name and is_recv
            why_a = "own method looked up by the call's name: %s; frame slot 0 is the ORIGINAL receiver: %s" % (by_name, is_recv)
    ck.ob("R14.dispatch", "object|own method first", ok_a, "", why_a)
    # every lookup in the receiver's method table uses exactly the call's name (no alias / fallback spelling:
    # a member that merely has a related name must not shadow the method an ancestor defines)
    keys = set()
    for p in paths:
        for e in V._all_effects(p["eff"]):
            if e["k"] == "call" and V.suffix(e) in ("get", "get_mut", "contains_key", "get_index_of", "get_full") and len(e["args"]) > 2 and "'methods'" in fmt_term(e["args"][1]):
                keys.add(e["args"][2])
    only_name = keys == {("var", "method_name")}
    ck.ob("R14.dispatch", "object|methods are looked up by the call's own name only", only_name, "",
          "lookup keys used on the method table: %s" % sorted(fmt_term(k)[:60] for k in keys))
    # (c) delegation: same name, same arguments, to the parent
    ok_c = False
    why_c = "no path delegates to the parent"
    for p, evs, dp in delegated:
        a = dp["args"]
        parent_ok = "'parent'" in fmt_term(a[2])
        ok_c = parent_ok and a[3] == ("var", "method_name") and a[4] == ("var", "argument_pointers")
        # only when the method is NOT found here
        look = [e for e in evs if e["e"] == "call" and e["op"] == "get" and "'methods'" in fmt_term(e["recv"])]
        miss = any(e["k"] in ("assume_fail",) and look and e["args"][0] == look[0]["res"] for e in p["eff"]) or any(
            e["k"] == "assume" and look and V.mentions(e["args"][0], look[0]["res"]) for e in p["eff"]) or any(
            e["k"] == "arm" for e in p["eff"])
        why_c = "delegates to the parent pointer: %s, same name: %s, same arguments: %s" % (parent_ok, a[3] == ("var", "method_name"), a[4] == ("var", "argument_pointers"))
    ck.ob("R14.dispatch", "object|missing method → parent (same name, same arguments)", ok_c, "", why_c)
    # … and ONLY a missing method: on no path is the call handed to the parent although the receiver's own table has an
    # entry under the call's name. A member hides whatever its ancestors define under that name — whatever its
    # parameter count or kind (the argument-count check then fails the call; it never selects between candidates).
    passed_over = []
    for p, evs, dp in delegated:
        for e in V._all_effects(p["eff"]):
            if e["k"] == "call" and V.suffix(e) in ("get", "get_mut", "contains_key", "get_index_of", "get_full") and len(e["args"]) > 2 and "'methods'" in fmt_term(e["args"][1]):
                res = e.get("res")
                if res is None:
                    continue
                for a in p["eff"]:
                    hit = (a["k"] == "assume_ok" and a["args"][0] == res) or (
                        a["k"] == "assume" and a["args"][0] in (res, ("app", "is_some", (res,))) and a["args"][1] == TRUE) or (
                        a["k"] == "assume" and a["args"][0] == ("app", "is_none", (res,)) and a["args"][1] == FALSE)
                    if hit:
                        others = [fmt_term(x["args"][0])[:140] for x in p["eff"] if x["k"] == "assume" and V.mentions(x["args"][0], res) and x is not a]
                        passed_over.append("; ".join(others) or "(no further condition)")
                        break
    ck.ob("R14.dispatch", "object|a member of that name is never passed over", not passed_over, "",
          "the parent is asked only when the receiver's method table has no entry under the call's name (%d delegating path(s))" % len(delegated) if not passed_over else
          "the call is handed to the parent although the receiver HAS a member of that name, when: %s — the member no longer hides the inherited method" % " | ".join(sorted(set(passed_over))[:3]))
    # (b) end of chain fails
    ok_b = any(any(e["k"] == "assume" and "is_variant(" in fmt_term(e["args"][0]) and "'Null'" in fmt_term(e["args"][0]) and e["args"][1] == TRUE for e in p["eff"]) for p, evs in failed)
    ck.ob("R14.dispatch", "object|missing method and null parent → failure", ok_b, "", "a failing path for `parent is null` exists: %s" % ok_b)
    ck.sample({"rule": "R14.dispatch", "found_paths": len(found), "delegating_paths": len(delegated), "failing_paths": len(failed)})


def _receiver_dispatch(ck, fx):
    ex, paths, err = V.handler_paths(fx, "dispatch_method")
    if not ck.anchor("R14.dispatch", "dispatch_method", paths):
        if err:
            ck.ob("R14.dispatch", "dispatch_method", False, "", "template extraction failed: %s" % err)
        return
    ck.fn(I + "dispatch_method")
    want = {"Null": "dispatch_null_method", "Integer": "dispatch_integer_method", "Boolean": "dispatch_boolean_method"}
    seen = {}
    for p in V.ok_paths(paths):
        evs = V.events(p["eff"])
        kind = None
        for c, val in V.assumes(p["eff"]):
            if val and c[0] == "app" and c[1] == "is_variant" and c[2][0] == ("var", "receiver_pointer"):
                kind = c[2][1][1]
        bi = [e for e in evs if e["e"] == "builtin"]
        sk = V.state_kinds(evs)
        if kind in want:
            ok = len(bi) == 1 and bi[0]["args"][0] == lit(want[kind]) and sk == ["push", "ip_bump"] and [e for e in evs if e["e"] == "push"][0]["val"] == bi[0]["val"]
            if ok and kind != "Null":
                ok = V.mentions(bi[0]["args"][1], ("var", "receiver_pointer"))
            ok = ok and bi[0]["args"][-2] == ("var", "method_name") and bi[0]["args"][-1] == ("var", "argument_pointers")
            seen[kind] = seen.get(kind, True) and ok
        elif kind == "Reference":
            dr = [e for e in evs if e["e"] == "deref"]
            if bi and bi[0]["args"][0] == lit("dispatch_array_method"):
                ok = bool(dr) and V.mentions(bi[0]["args"][1], dr[0]["val"]) and sk == ["push", "ip_bump"]
                seen["Array"] = seen.get("Array", True) and ok
            else:
                seen["Object"] = True
    for k in ("Null", "Integer", "Boolean", "Array", "Object"):
        ck.ob("R14.dispatch", "receiver kind %s" % k, seen.get(k, False), "",
              ("%s receivers use their built-in table and push its result" % k if k != "Object" else "object receivers go through own-methods/parent dispatch") if seen.get(k) else
              "no conforming path for %s receivers" % k)


def _sugar(ck, fx):
    T = templates(fx)
    if not T:
        return
    for variant, name, arity in (("AccessArray", "get", 2), ("AssignArray", "set", 3)):
        for keep in (True, False):
            ex, paths, err = T.get((variant, keep), (None, [], "missing"))
            for p in paths:
                if not is_ok_result(p):
                    continue
                ops = [it.op for it in all_items(stream(p["eff"])) if it.kind == "emit" and it.op[0] == "ctor" and it.op[2] == "CallMethod"]
                ok = len(ops) == 1
                why = "%d CallMethod instruction(s)" % len(ops)
                if ok:
                    f = dict(ops[0][3])
                    nm = f["name"]
                    s = nm[2][0][3][0][1] if nm[0] == "app" and nm[1] == "cp" and nm[2][0][0] == "ctor" else None
                    ar = f["arguments"]
                    n = ar[3][0][1] if ar[0] == "ctor" else None
                    ok = s == lit(name) and n == lit(arity)
                    why = "a[i]%s compiles to CallMethod %s with arity %s; expected \"%s\"/%d — objects can then override it" % (
                        " <- v" if variant == "AssignArray" else "", fmt_term(s), fmt_term(n), name, arity)
                ck.ob("R14.sugar", "%s|keep=%s" % (variant, "T" if keep else "F"), ok, "", why)
    # a method call (and therefore every operator) is always compiled to the call: no path of the CallMethod arm may
    # leave the instruction out, whatever the name or the arguments are (no algebraic "simplification": `x + 0` on an
    # object that overrides `+`, or on null, must still dispatch)
    for keep in (True, False):
        ex, paths, err = T.get(("CallMethod", keep), (None, [], "missing"))
        oks = [p for p in paths if is_ok_result(p)]
        bad = None
        for p in oks:
            ops = [it.op for it in all_items(stream(p["eff"])) if it.kind == "emit" and it.op[0] == "ctor" and it.op[2] == "CallMethod"]
            if len(ops) != 1:
                bad = "%d CallMethod instruction(s) on one of %d path(s)" % (len(ops), len(oks))
                break
            f = dict(ops[0][3])
            if not V.mentions(f["name"], ("var", "self.name")):
                bad = "the called name is not the node's own name"
                break
        ck.ob("R14.sugar", "CallMethod|keep=%s|always a call" % ("T" if keep else "F"), bool(oks) and bad is None, "",
              "every path emits exactly one CallMethod of the node's name (%d path(s))" % len(oks) if bad is None and oks else (bad or "no template"))
    # operators: AST::operation(op, l, r) = CallMethod{object: l, name: spelling(op), arguments: [r]}
    from ..compile_scheme import run_function
    try:
        ex, paths = run_function(fx, "parser::AST::operation", [("var", "operator"), ("var", "left"), ("var", "right")])
        ok = False
        n_paths = 0
        why = "unexpected shape"
        for p in paths:
            t = p["out"][1] if p["out"][0] == "val" else None
            if t and t[0] == "ctor" and t[2] == "CallMethod":
                f = dict(t[3])
                args = f["arguments"]
                if args[0] == "obj":
                    from ..symex import vec_contents
                    vc = vec_contents(args, p["eff"])
                    if vc is not None:
                        args = ("app", "array", vc)
                name_ok = V.mentions(f["name"], ("var", "operator"))
                if not name_ok:
                    # the executor resolved the spelling per operator: it must be that operator's own spelling
                    from ..tables import simple_enum_table
                    tab = simple_enum_table(fx, fx.body("parser::Operator::as_str"), "parser::Operator") if fx.body("parser::Operator::as_str") else None
                    var = [e["args"][0][2][1][1] for e in p["eff"] if e["k"] == "assume" and e["args"][1] == ("lit", True) and e["args"][0][0] == "app"
                           and e["args"][0][1] == "is_variant" and e["args"][0][2][0] == ("var", "operator")]
                    nm = f["name"]
                    while nm[0] == "ctor" and len(nm[3]) == 1:
                        nm = nm[3][0][1]
                    name_ok = bool(tab) and bool(var) and nm == ("lit", tab.get(var[-1]))
                ok_p = f["object"] == ("var", "left") and args == ("app", "array", (("var", "right"),)) and name_ok
                n_paths += 1
                ok = ok_p if n_paths == 1 else (ok and ok_p)
                why = "a op b ≡ CallMethod{object: a, name: <spelling of op>, arguments: [b]}: %s" % ok
        ck.ob("R14.sugar", "operators are method calls", ok, "", why)
        ck.fn("parser::AST::operation")
    except Exception as e:
        ck.ob("R14.sugar", "operators are method calls", False, "", "cannot analyse AST::operation: %s" % e)
    # Identifier::from(Operator) = to_string = Display = as_str
    from ..facts import walk_body, peel, callee_name
    b = fx.body("<parser::Operator as std::fmt::Display>::fmt")
    ok = False
    if ck.anchor("R14.sugar", "Display for Operator", b):
        def is_as_str(x):
            x = peel(x)
            while x.get("k") in ("AddrOf", "Unary"):
                x = peel(x["e"])
            return x.get("k") in ("MethodCall", "Call") and callee_name(x) == "parser::Operator::as_str"
        writes = []
        for n, ps in walk_body(b):
            if n.get("k") == "FormatArgs":
                from ..census import fmt_pieces
                writes.append(fmt_pieces(n) == "{0}" and bool(n["args"]) and is_as_str(n["args"][0]))
            elif n.get("k") == "MethodCall" and (callee_name(n) or "").startswith("std::fmt::Formatter") and n["name"] in ("write_str", "pad"):
                writes.append(bool(n["args"]) and is_as_str(n["args"][0]))
        ok = len(writes) == 1 and writes[0]
        ck.ob("R14.sugar", "operator method name = its spelling (as_str)", ok, "", "Display for Operator writes exactly as_str() (one write!/write_str/pad of it): %s" % ok)
    b = fx.body("<parser::Identifier as std::convert::From<parser::Operator>>::from")
    if ck.anchor("R14.sugar", "Identifier::from(Operator)", b):
        param = None
        for q in b["params"]:
            if q.get("k") == "Binding":
                param = q["lid"]
        def on_param(x):
            x = peel(x)
            while x.get("k") in ("AddrOf", "Unary"):
                x = peel(x["e"])
            return x.get("k") == "Path" and (x.get("res") or {}).get("k") == "Local" and x["res"]["lid"] == param
        via_display = any(n.get("k") == "MethodCall" and n["name"] == "to_string" and on_param(n["recv"]) for n, ps in walk_body(b))
        via_as_str = any(n.get("k") in ("MethodCall", "Call") and callee_name(n) == "parser::Operator::as_str" and on_param(n["recv"] if n.get("k") == "MethodCall" else n["args"][0]) for n, ps in walk_body(b))
        others = [callee_name(n) for n, ps in walk_body(b) if n.get("k") in ("MethodCall", "Call") and n.get("callee") and not (callee_name(n) or "").startswith(("std::", "core::", "alloc::", "<T as std::", "<str as ", "<std::", "parser::Operator::as_str",
                                                                                                     "<parser::Identifier as std::convert::From<&str>>::from", "<parser::Identifier as std::convert::From<std::string::String>>::from"))]
        ok = (via_display or via_as_str) and not others
        ck.ob("R14.sugar", "Identifier::from(Operator) uses to_string()", ok, "", "the identifier is the operator's own spelling (op.to_string() through Display, or op.as_str() made a String): %s%s" % (ok, "" if not others else "; also calls %s" % others))


def _arity(ck, fx):
    """calls check the argument count: user methods, array get/set, primitive built-ins"""
    rows = [("eval_call_object_method", "ne(len(argument_pointers)", "user method"),
            ("dispatch_array_get_method", "ne(len(argument_pointers), 1)", "array get"),
            ("dispatch_array_set_method", "ne(len(argument_pointers), 2)", "array set"),
            ("dispatch_null_method", "ne(len(argument_pointers), 1)", "null built-ins"),
            ("dispatch_integer_method", "ne(len(argument_pointers), 1)", "integer built-ins"),
            ("dispatch_boolean_method", "ne(len(argument_pointers), 1)", "boolean built-ins")]
    # primitive built-ins: decided through the dispatch entry with 0, 1 and 2 arguments (any internal structure)
    from . import c09
    prim_done = set()
    for tname, what, probes in (("null", "null built-ins", ("==", "!=", "eq", "neq")), ("integer", "integer built-ins", ("+", "==", "!=", "<", "eq", "neq", "/")),
                                ("boolean", "boolean built-ins", ("&", "==", "!=", "|", "eq", "neq"))):
        try:
            worst = None
            for probe in probes:
                res = {}
                for n_args in (0, 1, 2, 3):
                    paths = c09.arity_paths(fx, tname, probe, n_args)
                    succ = [p for p in paths if p["out"][0] == "val" and isinstance(p["out"][1], tuple) and p["out"][1][0] == "ok"]
                    res[n_args] = (len(succ), len(paths))
                ok_p = res[0][0] == 0 and res[2][0] == 0 and res[3][0] == 0 and res[1][0] > 0 and res[0][1] > 0 and res[2][1] > 0
                if worst is None or (not ok_p and worst[0]):
                    worst = (ok_p, probe, res)
            ok, probe, res = worst
            ck.ob("R14.arity", what, ok, "", "%d method name(s) probed through the dispatch entry; `%s`: successful paths with 0 / 1 / 2 / 3 arguments = %d / %d / %d / %d (only exactly one argument may succeed)" % (
                len(probes), probe, res[0][0], res[1][0], res[2][0], res[3][0]))
            prim_done.add(what)
        except Exception as e:  # noqa — fall back to the handler-level rule below
            pass
    # array get / set: probed through the array dispatch entry with 0..3 integer arguments (a length test, a slice
    # pattern or anything else that lets exactly the documented count through is the same check)
    for mname, want_n, what in (("get", 1, "array get"), ("set", 2, "array set")):
        try:
            from ..symex import Executor, State, lit as L_
            from ..vm_scheme import VMClient
            b = fx.body("bytecode::interpreter::dispatch_array_method")
            if b is None or len(b["params"]) != 3:
                continue
            res = {}
            for n_args in (0, 1, 2, 3):
                ex = Executor(fx, VMClient(track_builtins=False))
                argv = tuple(("ctor", c09.POINTER, "Integer", (("0", ("var", "argument%d" % i)),)) for i in range(n_args))
                out = ex.run_body(b, [("var", "array"), L_(mname), ("app", "array", argv)], State())
                succ = [o for s_, o in out if o[0] == "val" and isinstance(o[1], tuple) and o[1][:1] == ("ok",)]
                res[n_args] = (len(succ), len(out))
            ok = all((res[n][0] > 0) == (n == want_n) for n in res) and all(res[n][1] > 0 for n in res)
            ck.ob("R14.arity", what, ok, "", "`%s` probed through dispatch_array_method: successful paths with 0 / 1 / 2 / 3 arguments = %d / %d / %d / %d (only exactly %d may succeed)" % (
                mname, res[0][0], res[1][0], res[2][0], res[3][0], want_n))
            prim_done.add(what)
        except Exception as e:  # noqa — fall back to the handler-level rule below
            pass
    for name, text, what in rows:
        if what in prim_done:
            continue
        ex, paths, err = V.handler_paths(fx, name)
        if not ck.anchor("R14.arity", name, paths):
            continue
        oks = V.ok_paths(paths)
        guarded = bool(oks) and all(V.assumed(p["eff"], text, False) for p in oks)
        fails = any(p["out"][0] == "val" and p["out"][1][0] == "err" and V.assumed(p["eff"], text, True) for p in paths)
        ck.ob("R14.arity", what, guarded and fails, "", "%s: every successful path passed the count test: %s; a wrong count fails: %s" % (name, guarded, fails))
