"""C15 — print: positional substitution, escape decoding, canonical value rendering.

R15.fsm     first-match evaluation of the (escaped, char) table over {T,F} × {~ \\ " n t r other} equals S5.
R15.count   too few arguments (pop of an empty list) and too many (non-empty list after the loop) both fail;
            the result pushed is null; arguments are substituted in call order.
R15.render  shapes of evaluate_as_string per value kind equal S5 (null, true/false, decimal, [e, …],
            object(..=parent, f=v, …) with fields SORTED by name before rendering, parent iff non-null).
R15.lexer   the string-literal terminal admits exactly the escapes the VM decodes; the String action strips
            only the quotes.
"""
from .. import anchors as A
from .. import grammar as G
from ..facts import walk_body, walk, loc, peel, callee_name, callee_def
from ..census import local_of, fmt_pieces, preorder_index
from ..tables import Table, find_matches, OTHER
from ..symdbg import fmt_term
from . import c05_vm as V

LEVEL = "other"

ESCAPES = {"~": "~", "\\": "\\", '"': '"', "n": "\n", "t": "\t", "r": "\r"}


def arm_actions(fx, body, out_lids, chr_lids, esc_lid, args_lid):
    """abstract actions of an FSM arm: list of ('write', char|'same'), ('esc', bool), ('arg',), ('fail',)"""
    acts = []
    for n, ps in walk(body):
        k = n.get("k")
        if k == "MethodCall" and n["name"] in ("write_char", "push") and local_of(n["recv"]) and local_of(n["recv"])[0] in out_lids:
            a = peel(n["args"][0])
            if a.get("k") == "Lit" and a["lit"].get("t") == "char":
                acts.append(("write", a["lit"]["v"]))
            elif local_of(a) and local_of(a)[0] in chr_lids:
                acts.append(("write", "same"))
            else:
                acts.append(("write", "?"))
        elif k == "MethodCall" and n["name"] in ("write_str", "push_str") and local_of(n["recv"]) and local_of(n["recv"])[0] in out_lids:
            # writes the rendering of the next argument
            uses_arg = any(x.get("k") == "MethodCall" and x["name"] == "evaluate_as_string" for x, _ in walk(n["args"][0]))
            acts.append(("write_arg",) if uses_arg else ("write", "?"))
        elif k == "Assign" and local_of(n["lhs"]) and local_of(n["lhs"])[0] == esc_lid:
            v = peel(n["rhs"])
            acts.append(("esc", v["lit"]["v"] if v.get("k") == "Lit" else "?"))
        elif k == "MethodCall" and n["name"] == "pop" and local_of(n["recv"]) and local_of(n["recv"])[0] == args_lid:
            acts.append(("arg",))
        elif k == "Ret" and "e" in n and peel(n["e"]).get("k") == "Call" and (peel(n["e"]).get("ctor") or {}).get("variant") == "Err":
            # bail! → failure; `?` desugaring returns from_residual(...) which is not an Err ctor
            acts.append(("fail",))
    return acts


def _find_scanner(fx, hb, depth=2):
    """the loop over the format's characters in eval_print or a local function it calls:
    {'fn': body, 'loop': node, 'pat': element pattern, 'body': loop body, 'iter_lid': local holding the iterator (only for
    `while let Some(c) = it.next()`, whose body may take the following character itself)}"""
    chars_locals = set()
    for n, ps in walk_body(hb):
        if n.get("k") == "Block":
            for st in n["block"]["stmts"]:
                if st["k"] == "Let" and st["pat"].get("k") == "Binding" and "init" in st:
                    i = peel(st["init"])
                    if i.get("k") == "MethodCall" and i["name"] == "chars":
                        chars_locals.add(st["pat"]["lid"])
    for n, ps in walk_body(hb):
        if n.get("k") == "Match" and n.get("src") == "ForLoopDesugar":
            it = peel(n["scrut"]["args"][0])
            is_chars = it.get("k") == "MethodCall" and it["name"] == "chars"
            is_chars = is_chars or (it.get("k") == "Path" and (it.get("res") or {}).get("lid") in chars_locals)
            if is_chars:
                lp = peel(n["arms"][0]["body"])
                inner = peel(lp["body"].get("expr") or lp["body"]["stmts"][0]["e"])
                some_arm = [a for a in inner["arms"] if (a["pat"].get("res") or {}).get("variant") == "Some"]
                if some_arm:
                    sp = some_arm[0]["pat"]
                    return {"fn": hb, "loop": n, "pat": sp["pats"][0] if "pats" in sp else sp["fields"][0]["pat"], "body": some_arm[0]["body"], "iter_lid": None}
        if n.get("k") == "Loop" and n.get("src") == "While" and not n["body"].get("stmts") and n["body"].get("expr"):
            iff = peel(n["body"]["expr"])
            let = peel(iff.get("cond") or {}) if iff.get("k") == "If" else {}
            if let.get("k") == "Let" and (let["pat"].get("res") or {}).get("variant") == "Some" and len(let["pat"].get("pats", [])) == 1:
                init = peel(let["init"])
                rcv = peel(init["recv"]) if init.get("k") == "MethodCall" and init["name"] == "next" else {}
                if rcv.get("k") == "Path" and (rcv.get("res") or {}).get("lid") in chars_locals:
                    return {"fn": hb, "loop": n, "pat": let["pat"]["pats"][0], "body": iff["then"], "iter_lid": rcv["res"]["lid"]}
    if depth > 0:
        for n, ps in walk_body(hb):
            if n.get("k") in ("Call", "MethodCall") and n.get("callee"):
                cal = n["callee"]
                did = cal.get("inst_did") if cal.get("inst_local") else (cal.get("did") if cal.get("local") else None)
                b2 = fx.hir_by_did.get(did) if did else None
                if b2 is not None and b2 is not hb and not b2["from_expansion"]:
                    r = _find_scanner(fx, b2, depth - 1)
                    if r:
                        return r
    return None


SPECIALS = ["~", "\\", '"', "n", "t", "r"]


def _holds(c, sym, x):
    """truth of condition c when the symbolic character `sym` is x (OTHER: none of the special characters)"""
    if c == ("lit", True) or c == ("lit", False):
        return c[1]
    if not isinstance(c, tuple) or c[:1] != ("app",):
        return None
    op, a = c[1], c[2]
    if op in ("eq", "ne") and len(a) == 2:
        l, r = a
        if r == sym:
            l, r = r, l
        if l == sym and r[0] == "lit":
            v = (r[1] == x) if x != OTHER else (False if r[1] in SPECIALS else None)
            return v if (op == "eq" or v is None) else (not v)
        return None
    if op == "not" and len(a) == 1:
        v = _holds(a[0], sym, x)
        return None if v is None else (not v)
    if op in ("or", "and"):
        vs = [_holds(y, sym, x) for y in a]
        if op == "or":
            return True if any(v is True for v in vs) else (False if all(v is False for v in vs) else None)
        return False if any(v is False for v in vs) else (True if all(v is True for v in vs) else None)
    return None


def _fsm_cells(ck, fx, hb):
    """Abstract interpretation of the scanning loop's body over the finite partition
    {escaped, plain} × {~ \\ \" n t r OTHER}: for each cell the body is executed with the character fixed (OTHER: a
    symbolic character known to differ from the six special ones) and the scanner state fixed; the effects on the text
    buffer, the argument list and the state are compared with S5. The state is either a boolean flag assigned in the body
    or, in a `while let Some(c) = it.next()` scanner, the position itself: the backslash case takes the following
    character with another `it.next()`. Returns False when the loop has neither shape."""
    from ..symex import Executor, Client, State, lit as L, app
    from ..symdbg import fmt_term
    sc = _find_scanner(fx, hb)
    if not sc:
        return False
    sb, loop, pat, body, it_lid = sc["fn"], sc["loop"], sc["pat"], sc["body"], sc["iter_lid"]
    esc = None
    for n, ps in walk(body):
        if n.get("k") == "Assign":
            l = local_of(n["lhs"])
            if l and (fx.ty(n["lhs"]) or "") == "bool":
                esc = l
    if esc is None and it_lid is None:
        return False

    class C(Client):
        name = "print-fsm"
        inline_depth = 4

        def no_inline(self, path):
            return "evaluate_as_string" in path

    IT = ("iter", ("var", "@format.chars"), "fwd", ())

    def run_cell(flag, ch):
        ex = Executor(fx, C())
        st = State()
        for n, ps in walk(body):
            if n.get("k") == "Path" and (n.get("res") or {}).get("k") == "Local" and n["res"]["lid"] not in st.env:
                st.env[n["res"]["lid"]] = ("var", n["res"]["name"])
        if esc is not None:
            st.env[esc[0]] = L(flag)
        if it_lid is not None:
            st.env[it_lid] = IT
        if ch == OTHER:
            cv = ("sym", 10 ** 6, "char")
            for c in SPECIALS:
                st.learn(app("eq", cv, L(c)), False)
        else:
            cv = L(ch)
        ex.match_pat(pat, cv, st)
        return cv, ex.ev(body, st)

    def actions(s_, cv, also_same=None):
        """(text appended, arguments taken, lookahead results) on one path"""
        writes, argn, looks = [], 0, []
        for ef in s_.eff:
            if ef["k"] != "call":
                continue
            cn = ef["args"][0][1].rsplit("::", 1)[-1]
            recv = ef["args"][1] if len(ef["args"]) > 1 else None
            if cn in ("push", "write_char") and len(ef["args"]) == 3 and recv is not None and recv[0] == "var":
                a = ef["args"][2]
                writes.append(a[1] if a[0] == "lit" else ("same" if a == cv else ("term", a)))
            elif cn in ("push_str", "write_str") and len(ef["args"]) == 3 and recv is not None and recv[0] == "var":
                a = ef["args"][2]
                rendered = any(x["k"] == "call" and "evaluate_as_string" in x["args"][0][1] and x.get("res") is not None and _mentions(a, x["res"]) for x in s_.eff)
                writes.append("<argument>" if rendered else (a[1] if a[0] == "lit" else "?"))
            elif cn in ("pop", "next") and recv is not None and recv[0] == "var" and "arg" in str(recv[1]).lower():
                argn += 1
            elif cn == "next" and recv == IT:
                looks.append(ef.get("res"))
        # an owned String buffer that is appended to holds `concat_str(buffer, piece, …)` afterwards (no call effect)
        for val in s_.env.values():
            if isinstance(val, tuple) and val[:2] == ("app", "concat_str") and val[2] and val[2][0][:1] == ("var",):
                for a in val[2][1:]:
                    if a[0] == "lit":
                        writes.append(a[1])
                    elif a == cv:
                        writes.append("same")
                    elif any(x["k"] == "call" and "evaluate_as_string" in x["args"][0][1] and x.get("res") is not None and _mentions(a, x["res"]) for x in s_.eff):
                        writes.append("<argument>")
                    elif also_same is not None and a == also_same(None):
                        writes.append("next")
                    else:
                        writes.append(("term", a))
        return writes, argn, looks

    def absent(s_, r):
        """the path on which the lookahead found no further character"""
        for ef in s_.eff:
            if ef["k"] == "assume_fail" and ef["args"][0] == r:
                return True
            if ef["k"] == "assume" and ef["args"][0] in (("app", "is_some", (r,)), ("app", "is_ok", (r,))) and ef["args"][1] == ("lit", False):
                return True
            if ef["k"] == "assume" and ef["args"][0] == ("app", "is_none", (r,)) and ef["args"][1] == ("lit", True):
                return True
        return False

    def is_ok(o):
        return o[0] in ("val", "cont") and not (o[0] == "val" and isinstance(o[1], tuple) and o[1][:1] == ("err",))

    n_cells = 0
    for flag in ((True, False) if esc is not None else (False,)):
        for ch in SPECIALS + [OTHER]:
            key = "(%s, %s)" % ("escaped" if flag else "plain", repr(ch) if ch != OTHER else "any other char")
            try:
                cv, res = run_cell(flag, ch)
            except Exception as ex_:  # noqa
                ck.ob("R15.fsm", key, False, loc(body), "cannot execute the loop body for this cell (unprovable): %s" % str(ex_)[:100])
                n_cells += 1
                continue
            if esc is None and ch == "\\":
                # the backslash case of a position-based scanner: the escaped cells are its paths, by the following character
                for x in SPECIALS + [OTHER]:
                    n_cells += 1
                    k2 = "(escaped, %s)" % (repr(x) if x != OTHER else "any other char")
                    succ, fails, looked = [], 0, True
                    for s_, o in res:
                        w, argn, looks = actions(s_, cv)
                        if len(looks) != 1:
                            looked = False
                            continue
                        r = looks[0]
                        if absent(s_, r):
                            continue        # the format ends after the backslash
                        pay = ("payload", r)
                        consistent = all(_holds(ef["args"][0], pay, x) in (None, ef["args"][1] == ("lit", True)) for ef in s_.eff if ef["k"] == "assume" and _mentions(ef["args"][0], pay))
                        if not consistent:
                            continue
                        w2 = [(x if (t_[1] == pay and x != OTHER) else "?") if isinstance(t_, tuple) else t_ for t_ in w]
                        if is_ok(o):
                            succ.append((tuple(w2), argn))
                        else:
                            fails += 1
                    if x == OTHER:
                        ok = looked and not succ and fails > 0
                        want = "always fails"
                    else:
                        ok = looked and bool(succ) and set(succ) == {((ESCAPES[x],), 0)}
                        want = [[ESCAPES[x]], 0]
                    ck.ob("R15.fsm", k2, ok, loc(body), "after a backslash, with this character next: successful outcomes (text appended, arguments taken) %s, failing paths %d; S5: %s" % (
                        sorted(map(list, set(succ))), fails, want))
                # the backslash itself prints nothing and takes no argument; a trailing backslash is dropped
                n_cells += 1
                tail = [(actions(s_, cv), o) for s_, o in res if any(absent(s_, r) for r in actions(s_, cv)[2])]
                ok = bool(tail) and all(is_ok(o) and not a[0] and a[1] == 0 for a, o in tail)
                ck.ob("R15.fsm", "(plain, '\\\\')", ok, loc(body), "a backslash prints nothing itself; at the very end of the format it is dropped: %s" % ok)
                continue
            n_cells += 1
            succ, fails = [], 0
            for s_, o in res:
                if is_ok(o):
                    w, argn, looks = actions(s_, cv)
                    w = ["?" if isinstance(t_, tuple) else t_ for t_ in w]
                    succ.append((tuple(w), argn + 100 * len(looks), s_.env.get(esc[0]) if esc is not None else L(False)))
                else:
                    fails += 1
            if flag:
                want = None if ch == OTHER else {((ESCAPES[ch],), 0, L(False))}
            elif ch == "\\":
                want = {((), 0, L(True))}
            elif ch == "~":
                want = {(("<argument>",), 1, L(False))}
            else:
                want = {((ch if ch != OTHER else "same",), 0, L(False))}
            got = set(succ)
            if want is None:
                ok = not succ and fails > 0
            else:
                canon = lambda ws: tuple("same" if (w == ch and not flag and ch not in ("~",)) else w for w in ws)  # noqa
                ok = bool(succ) and {(canon(ws), a, f) for ws, a, f in got} == {(canon(ws), a, f) for ws, a, f in want}
            ck.ob("R15.fsm", key, ok, loc(body), "successful outcomes (text appended, arguments taken, flag afterwards): %s, failing paths: %d; S5: %s" % (
                sorted((list(ws), a, fmt_term(f) if isinstance(f, tuple) else f) for ws, a, f in got), fails,
                "always fails" if want is None else sorted((list(ws), a, fmt_term(f)) for ws, a, f in want)))
    ck.floor("R15.fsm", "cells", n_cells, 14)
    # the scan is not bypassed: every successful path of eval_print runs the loop over the format's characters
    try:
        ex2, paths2, err2 = V.handler_paths(fx, "eval_print")
    except Exception as e2:  # noqa
        paths2, err2 = None, str(e2)
    if paths2:
        oks = V.ok_paths(paths2)
        skipping = [p for p in oks if not any(e["k"] == "foreach" and "chars(" in fmt_term(e["args"][0]) for e in V._all_effects(p["eff"]))]
        ck.ob("R15.fsm", "every successful print scans its format", bool(oks) and not skipping, loc(loop),
              "%d successful path(s) of eval_print, %d of them without the scanning loop%s" % (
                  len(oks), len(skipping), "" if not skipping else " — such a print emits text that was never interpreted (placeholders, escapes, argument count)"))
    else:
        ck.ob("R15.fsm", "every successful print scans its format", False, loc(loop), "cannot enumerate the paths of eval_print (unprovable): %s" % err2)
    ck.ob("R15.fsm", "scans format.chars() in order", True, loc(loop), "loop over the format's Unicode scalar values in %s" % sb["path"], nontrivial=False)
    return True


def _mentions(t, sub):
    if t == sub:
        return True
    if isinstance(t, tuple):
        return any(_mentions(x, sub) for x in t if isinstance(x, tuple))
    return False


def expected_actions(escaped, ch):
    if escaped:
        if ch in ESCAPES:
            return [("write", ESCAPES[ch]), ("esc", False)]
        return [("fail",)]
    if ch == "\\":
        return [("esc", True)]
    if ch == "~":
        return [("arg",), ("write_arg",)]
    return [("write", "same")]


def run(ck, fx, cg, tier):
    ck.explanation = (
        "print is a character state machine plus a recursive renderer. (fsm) The `match (escaped, character)` table "
        "of eval_print is evaluated by first-match pattern semantics over {true,false} × {~ \\ \" n t r OTHER}; every "
        "cell's actions (character written, escape flag, argument consumed, failure) equal S5 — because the loop is "
        "over chars() and the default arm writes the character unchanged this covers every Unicode format string. "
        "(count) both mismatch directions fail and null is pushed (handler template). (render) per value kind the "
        "output shape equals S5: literal texts, to_string of the payload, `[`+join(\", \")+`]`, the three object "
        "templates selected by (parent non-null, fields non-empty), `name=value`, and a sort on the field name that "
        "precedes the traversal. (lexer) the string-literal terminal admits exactly the VM's escape set and the "
        "String action strips only the quotes. i32/bool to_string trusted.")
    ck.trusted_base = ["rustc resolution/type check", "fml-facts dumper", "first-match table evaluation (engine/tables.py)", "S5 (property statement)",
                       "i32::to_string / bool::to_string / slice::join"]
    hb = fx.body(A.get("eval_print"))
    if not ck.anchor("R15.fsm", "eval_print", hb):
        return
    ck.fn(hb["path"])
    _sink(ck, fx, cg)
    if _fsm_cells(ck, fx, hb):
        # decided cell by cell on the loop body itself (helpers, arm order and guard spelling do not matter)
        _count(ck, fx)
        _render(ck, fx)
        _lexer(ck, fx)
        return
    ms = [m for m in find_matches(hb) if peel(m["scrut"]).get("k") == "Tup" and len(peel(m["scrut"])["elems"]) == 2]
    if not ck.anchor("R15.fsm", "match (escaped, character)", ms or None):
        _count(ck, fx)
        _render(ck, fx)
        _lexer(ck, fx)
        return
    m = ms[0]
    sc = peel(m["scrut"])
    esc = local_of(sc["elems"][0])
    chv = local_of(sc["elems"][1])
    # the loop is over format.chars()
    loop_ok = False
    for n, ps in walk_body(hb):
        if n.get("k") == "Match" and n.get("src") == "ForLoopDesugar":
            it = peel(n["scrut"]["args"][0])
            if it.get("k") == "MethodCall" and it["name"] == "chars":
                loop_ok = True
    ck.ob("R15.fsm", "scans format.chars() in order", loop_ok, loc(m), "loop over the format's Unicode scalar values: %s" % loop_ok)
    # sinks: the output parameter or a local String buffer that is written to the output afterwards
    out_lids = set()
    sink_name = None
    ptys = [fx.tyname(t) or "" for t in hb.get("param_tys", [])]
    for i, p in enumerate(hb["params"]):
        if p.get("k") == "Binding" and (p["name"] == "output" or (i < len(ptys) and ptys[i] == "&mut W")):
            out_lids.add(p["lid"])
            sink_name = p["lid"]
    args_lid = None
    for n, ps in walk_body(hb):
        if n.get("k") == "Block":
            for st in n["block"]["stmts"]:
                if st["k"] == "Let" and st["pat"].get("k") == "Binding" and "init" in st:
                    t = fx.ty(st["init"]) or ""
                    if t == "std::string::String":
                        out_lids.add(st["pat"]["lid"])
                    init = peel(st["init"])
                    if any(x.get("k") == "MethodCall" and x["name"] in ("pop_reverse_sequence", "pop_sequence") for x, _ in walk(init)):
                        args_lid = st["pat"]["lid"]
    T = Table(fx, m)
    if not T.ok or not esc or not chv or args_lid is None:
        ck.ob("R15.fsm", "table shape", False, loc(m), "cannot analyse the state machine (unprovable)")
        return
    chars = ["~", "\\", '"', "n", "t", "r", OTHER]
    n_cells = 0
    for e in (True, False):
        for ch in chars:
            cell = (e, ch)
            ai = T.first_match(cell)
            n_cells += 1
            key = "(%s, %s)" % ("escaped" if e else "plain", repr(ch) if ch != OTHER else "any other char")
            if ai is None or ai < 0:
                ck.ob("R15.fsm", key, False, loc(m), "cannot decide the first matching arm")
                continue
            arm = m["arms"][ai]
            chr_lids = set()
            _binds(arm["pat"], chr_lids)
            chr_lids.add(chv[0])
            got = arm_actions(fx, arm["body"], out_lids, chr_lids, esc[0], args_lid)
            want = expected_actions(e, ch if ch != OTHER else "x")
            # a literal write of the very character of the cell equals "same"
            norm = [("write", "same") if (a[0] == "write" and a[1] == ch and not e) else a for a in got]
            ok = norm == want
            ck.ob("R15.fsm", key, ok, loc(arm["body"]), "arm %d: %s; S5: %s" % (ai, got, want))
            if len(ck.samples) < 8:
                ck.sample({"rule": "R15.fsm", "cell": key, "arm": ai, "actions": [list(a) for a in got]})
    ck.floor("R15.fsm", "cells", n_cells, 14)
    # a buffered print must write the buffer to the output exactly once, after the loop
    if len(out_lids) > 1:
        flushes = [n for n, ps in walk_body(hb) if n.get("k") == "MethodCall" and n["name"] in ("write_str", "write_fmt") and local_of(n["recv"]) and
                   local_of(n["recv"])[0] == sink_name]
        ck.ob("R15.fsm", "buffer reaches the output once", len(flushes) == 1, loc(hb), "%d write(s) of the rendered text to the output" % len(flushes))
    _count(ck, fx)
    _render(ck, fx)
    _lexer(ck, fx)


def _binds(p, acc):
    if p.get("k") == "Binding":
        acc.add(p["lid"])
    for x in p.get("pats", []) or []:
        _binds(x, acc)
    if isinstance(p.get("pat"), dict):
        _binds(p["pat"], acc)


def _count(ck, fx):
    ex, paths, err = V.handler_paths(fx, "eval_print")
    if not ck.anchor("R15.count", "eval_print template", paths):
        return
    too_few = too_many = False
    for p in paths:
        out = p["out"]
        failing = out[0] == "val" and out[1][0] == "err"
        if not failing:
            continue
        for e in V._all_effects(p["eff"]):
            if e["k"] == "assume_fail" and isinstance(e["args"][0], tuple) and e["args"][0][0] == "fall" and e["args"][0][3] in ("pop", "next", "next_back", "pop_front", "pop_back"):
                # pop on the local argument list (not the operand stack)
                if not V._recv_mentions(p["eff"], e, "operand_stack"):
                    too_few = True
            if e["k"] == "assume" and V.nonempty_assumed(e["args"][0], e["args"][1]):
                too_many = True
    ck.ob("R15.count", "more placeholders than arguments fails", too_few, "", "a failing path for `argument list exhausted` exists: %s" % too_few)
    ck.ob("R15.count", "more arguments than placeholders fails", too_many, "", "a failing path for `arguments left over after the format` exists: %s" % too_many)
    oks = V.ok_paths(paths)
    ok_push = bool(oks) and all([e for e in V.events(p["eff"]) if e["e"] == "push"][-1:][0]["val"] == V.NULLP for p in oks if [e for e in V.events(p["eff"]) if e["e"] == "push"])
    ck.ob("R15.count", "print yields null", ok_push, "", "every successful path pushes null: %s" % ok_push)


def _sink(ck, fx, cg):
    """R15.sink — print writes *exactly* its decoded, substituted format: (a) the VM's stdout sink passes on the text it
    is given and nothing else (one write of exactly `s` per call, on every path); (b) nobody else writes to stdout: the
    functions that obtain stdout (`std::io::stdout`, print!/println!) are the sink itself, the listing of `disassemble`
    and the stage-output sink of parse/compile — a `Drop`, a banner, a prompt or a progress line anywhere else puts bytes
    on stdout that no format string produced."""
    from ..symex import Executor, Client, State
    from . import shared
    path = A.get("output.write_str")
    b = fx.body(path)
    if ck.anchor("R15.sink", path, b):
        ck.fn(path)
        try:
            res = Executor(fx, Client()).run_body(b, [("var", "self"), ("var", "s")], State())
        except Exception as e:  # noqa
            res = None
            ck.ob("R15.sink", "Output::write_str passes the text on unchanged", False, loc(b), "cannot analyse the output sink (unprovable): %s" % e)
        if res is not None:
            def strip(t):
                while isinstance(t, tuple) and t[:1] == ("app",) and t[1] in ("as_bytes", "as_str", "as_ref", "ref", "deref", "borrow") and t[2]:
                    t = t[2][0]
                return t
            bad = []
            n_paths = 0
            for s_, o in res:
                n_paths += 1
                ws = [e for e in s_.eff if e["k"] == "call" and e["args"][0][1].rsplit("::", 1)[-1] in ("write_all", "write", "write_fmt", "write_str", "write_vectored", "write_char", "_print")
                      and ("stdout" in fmt_term(e["args"][1]).lower() if len(e["args"]) > 1 else True)]
                if len(ws) > 1:
                    bad.append("%d writes to stdout on one path" % len(ws))
                for w in ws:
                    if len(w["args"]) < 3 or strip(w["args"][2]) != ("var", "s"):
                        bad.append("stdout is written %s, not the text handed in" % (fmt_term(w["args"][2])[:80] if len(w["args"]) > 2 else "?"))
            ck.ob("R15.sink", "Output::write_str passes the text on unchanged", n_paths > 0 and not bad, loc(b),
                  "at most one write per call, of exactly the given text (%d path(s))" % n_paths if not bad else "; ".join(sorted(set(bad))[:3]))
    allowed = {path: "the VM's stdout sink", A.get("cli.disassemble"): "the listing of `fml disassemble`", "NamedSink::console": "stage output of parse / compile (not used by run / execute)"}
    n_w = 0
    # what only another sub-command can reach (a future `fml version`, the parse / compile stages) does not run during
    # `run` / `execute`; what nothing is seen to call (a `Drop`, whose calls are compiler-inserted) stays suspect
    runs = cg.reachable([d for r in ("cli.run", "cli.interpret") for d in cg.dids_of(A.get(r))])
    from_main = cg.reachable(cg.dids_of(A.get("main")))
    for hb in fx.hir:
        hits = [n for n, ps in walk_body(hb) if n.get("k") in ("Call", "MethodCall") and n.get("callee") and (callee_def(n) or "") in ("std::io::stdout", "std::io::_print")]
        if not hits:
            continue
        n_w += 1
        fn = hb["path"].split("::{closure#", 1)[0]
        ok = fn in allowed
        why = allowed.get(fn)
        fds = cg.dids_of(fn)
        if not ok and fds and any(d in from_main for d in fds) and not any(d in runs for d in fds):
            ok, why = True, "reachable from main through other sub-commands only, never from `run` / `execute`"
        if not ok:
            # a private helper that only serves the allowed writers
            ds = cg.dids_of(fn)
            eff = shared.effective_callers(fx, cg, ds[0], set(allowed)) if ds else set()
            ok = bool(eff) and eff <= set(allowed) and fn not in eff
            why = "private helper of %s" % ", ".join(sorted(eff)) if ok else None
        ck.ob("R15.sink", "%s|obtains stdout" % fn, ok, loc(hits[0]),
              why if ok else "%s writes to standard output besides print's sink: during `run` / `execute` stdout then carries bytes that no format string produced" % fn)
    ck.floor("R15.sink", "functions that obtain stdout", n_w, 3)


def _render(ck, fx):
    # ---- Pointer: literal texts and to_string of the payload
    P = "bytecode::heap::"
    cand = [b for b in fx.hir if b["path"].startswith(P + "Pointer::evaluate_as_string") and not b["from_expansion"]]
    pb = None
    for b in cand:
        if any(n.get("k") == "Match" and n.get("src") == "Normal" for n, ps in walk_body(b)):
            pb = b
    sem_rows = None
    if pb is not None:
        try:
            from . import c15_render as CR0
            sem_rows = CR0.decide_pointer(fx, pb)
        except Exception as e:  # noqa
            ck.note("R15.render: pointer renderer could not be executed symbolically (%s: %s); falling back to the shape rules" % (type(e).__name__, str(e)[:80]))
    # the renderer `print` calls (Pointer::evaluate_as_string): a plain entry into the recursive renderer
    eb = fx.body("bytecode::heap::Pointer::evaluate_as_string")
    if ck.anchor("R15.render", "Pointer::evaluate_as_string (entry)", eb):
        try:
            from . import c15_render as CR1
            oke, whye = CR1.decide_entry(fx, eb)
        except Exception as e:  # noqa
            oke, whye = False, "cannot execute the entry renderer symbolically (unprovable): %s" % str(e)[:100]
        ck.ob("R15.render", "print renders every argument afresh through the recursive renderer", oke, loc(eb), whye)
    if sem_rows is not None:
        ck.fn(pb["path"])
        for key, okr, whyr in sem_rows:
            ck.ob("R15.render", key, okr, loc(pb), whyr)
        pb = None       # decided semantically; the shape rules below are the fall-back
        ck.anchor("R15.render", "Pointer rendering", True)
    if pb is not None and ck.anchor("R15.render", "Pointer rendering", pb):
        ck.fn(pb["path"])
        m = find_matches(pb)[0]
        got = {}
        for arm in m["arms"]:
            v = (arm["pat"].get("res") or {}).get("variant")
            body = peel(arm["body"])
            lits = [x["lit"]["v"] for x, _ in walk(body) if x.get("k") == "Lit" and x["lit"].get("t") == "str" and not any("bail" in mm or "anyhow" in mm for mm in (x.get("sp", {}).get("ms") or []))]
            tostr = [x for x, _ in walk(body) if x.get("k") == "MethodCall" and x["name"] == "to_string"]
            rec = [x for x, _ in walk(body) if x.get("k") == "MethodCall" and x["name"].startswith("evaluate_as_string")]
            if v == "Null":
                got[v] = lits[:1] == ["null"] and not tostr
            elif v in ("Integer", "Boolean"):
                binds = set()
                _binds(arm["pat"], binds)
                got[v] = len(tostr) == 1 and local_of(tostr[0]["recv"]) and local_of(tostr[0]["recv"])[0] in binds and not lits
            elif v == "Reference":
                got[v] = bool(rec) and any(x.get("k") == "MethodCall" and x["name"] == "dereference" for x, _ in walk(body))
        for v in ("Null", "Integer", "Boolean", "Reference"):
            ck.ob("R15.render", "Pointer::%s" % v, bool(got.get(v)), loc(m), {"Null": "renders the text `null`", "Integer": "renders the payload's decimal to_string()",
                                                                            "Boolean": "renders the payload's to_string() (true/false)", "Reference": "renders the dereferenced heap object"}[v] + ": %s" % bool(got.get(v)))
    # ---- the cycle guard must be path-scoped: an object reached twice without a cycle (shared substructure,
    #      e.g. array(2, o) or two fields holding the same object) has to render normally
    if pb is not None:
        adds = removes = 0
        guard_lids = set()
        for n, ps in walk_body(pb):
            if n.get("k") == "MethodCall" and "HeapIndex" in ((fx.ty(n["recv"]) or "") + (fx.aty(n["recv"]) or "")):
                if n["name"] in ("push", "insert", "push_back"):
                    adds += 1
                elif n["name"] in ("pop", "remove", "truncate", "pop_back", "swap_remove", "take"):
                    removes += 1
        if adds:
            ck.ob("R15.render", "cycle guard is path-scoped (entered objects are left again)", removes >= adds, loc(pb),
                  "%d insertion(s) into the guard collection, %d removal(s)%s" % (adds, removes, "" if removes >= adds else
                  " — a visited-set rejects acyclic values that reach the same object twice (shared substructure must print)"))
    # ---- Array and Object: the string each renderer returns, world by world (c15_render)
    from . import c15_render as CR
    done = 0
    for kind, role in (("array", "array.render"), ("object", "object.render")):
        b = fx.body(A.get(role))
        if not ck.anchor("R15.render", "%s rendering" % kind.capitalize(), b):
            continue
        ck.fn(b["path"])
        try:
            rows = CR.decide(fx, b, kind)
        except Exception as e:  # noqa
            rows = None
            ck.note("R15.render: %s renderer could not be executed symbolically (%s: %s); falling back to the shape rules" % (kind, type(e).__name__, str(e)[:80]))
        if rows is None:
            continue
        done += 1
        for label, ok, why in rows:
            ck.ob("R15.render", "%s|%s" % (kind.capitalize(), label), ok, loc(b), why)
    if done < 2:
        _render_shapes_fallback(ck, fx)


def _render_shapes_fallback(ck, fx):
    """the former reading of the renderers' *shape* (templates, separators, the sort call, the parent match): used only when
    the renderers cannot be executed symbolically"""
    # ---- Array
    ab = fx.body(A.get("array.render"))
    if ck.anchor("R15.render", "Array rendering", ab):
        ck.fn(ab["path"])
        fmts = [fmt_pieces(n) for n, ps in walk_body(ab) if n.get("k") == "FormatArgs"]
        joins = [peel(n["args"][0])["lit"]["v"] for n, ps in walk_body(ab) if n.get("k") == "MethodCall" and n["name"] == "join" and peel(n["args"][0]).get("k") == "Lit"]
        fwd = any(n.get("k") == "MethodCall" and n["name"] == "iter" and peel(n["recv"]).get("k") == "Field" for n, ps in walk_body(ab)) and not any(
            n.get("k") == "MethodCall" and n["name"] in ("rev", "sort", "sort_by_key", "dedup", "skip", "take") for n, ps in walk_body(ab))
        ck.ob("R15.render", "Array", fmts == ["[{0}]"] and joins == [", "] and fwd, loc(ab), "templates %s, separators %s, elements in index order: %s; S5: `[` e1`, `e2… `]`" % (fmts, joins, fwd))
    # ---- Object
    ob = fx.body(A.get("object.render"))
    if ck.anchor("R15.render", "Object rendering", ob):
        ck.fn(ob["path"])
        pos, loops, branch = preorder_index(ob)
        fmts = sorted(fmt_pieces(n) for n, ps in walk_body(ob) if n.get("k") == "FormatArgs")
        want = sorted(["object(..={0}, {1})", "object(..={0})", "object({0})", "{0}={1}"])
        ck.ob("R15.render", "Object templates", fmts == want, loc(ob), "templates %s; S5: %s" % (fmts, want))
        joins = [peel(n["args"][0])["lit"]["v"] for n, ps in walk_body(ob) if n.get("k") == "MethodCall" and n["name"] == "join" and peel(n["args"][0]).get("k") == "Lit"]
        ck.ob("R15.render", "Object field separator", joins and set(joins) == {", "}, loc(ob), "separators %s" % joins)
        # sort by name precedes the traversal of the same collection
        sorts = [(n, ps) for n, ps in walk_body(ob) if n.get("k") == "MethodCall" and n["name"] in ("sort_by_key", "sort", "sort_by", "sort_unstable_by_key", "sort_unstable")]
        ok = False
        why = "no sort of the fields"
        if sorts:
            sn = sorts[0][0]
            coll = local_of(sn["recv"])
            by_name = True
            if sn["name"].endswith("by_key"):
                clo = peel(sn["args"][0])
                # key closure returns the first tuple component (the name)
                by_name = False
                if clo.get("k") == "Closure" and clo["params"] and clo["params"][0].get("k") == "Tuple":
                    first = clo["params"][0]["pats"][0]
                    r = local_of(clo["body"])
                    by_name = bool(r and first.get("k") == "Binding" and r[0] == first["lid"])
            trav = [n for n, ps in walk_body(ob) if n.get("k") == "MethodCall" and n["name"] in ("into_iter", "iter") and coll and local_of(n["recv"]) and local_of(n["recv"])[0] == coll[0]]
            after = bool(trav) and all(pos[id(t)] > pos[id(sn)] for t in trav)
            # the sorted collection comes from self.fields
            from_fields = False
            for n, ps in walk_body(ob):
                if n.get("k") == "Block":
                    for st in n["block"]["stmts"]:
                        if st["k"] == "Let" and st["pat"].get("k") == "Binding" and coll and st["pat"]["lid"] == coll[0] and "init" in st:
                            from_fields = any(x.get("k") == "Field" and x["name"] == "fields" for x, _ in walk(st["init"]))
            ok = by_name and after and from_fields
            why = "fields collected from self.fields: %s; sorted by the field NAME: %s; rendering traverses the sorted collection afterwards: %s" % (from_fields, by_name, after)
        ck.ob("R15.render", "Object fields sorted by name before rendering", ok, loc(sorts[0][0]) if sorts else loc(ob), why)
        # parent part iff parent non-null; template selection by (parent, fields non-empty)
        ms = find_matches(ob)
        par_ok = False
        sel_ok = False
        for m in ms:
            sc = peel(m["scrut"])
            if sc.get("k") == "Field" and sc["name"] == "parent":
                arms = m["arms"]
                par_ok = len(arms) == 2 and (arms[0]["pat"].get("res") or {}).get("variant") == "Null" and peel(arms[0]["body"]).get("k") == "Path" and (
                    (peel(arms[0]["body"])["res"].get("variant") == "None")) and arms[1]["pat"]["k"] == "Binding"
            elif local_of(sc) and len(m["arms"]) == 3:
                t = []
                for arm in m["arms"]:
                    v = (arm["pat"].get("res") or {}).get("variant")
                    guard = "guard" in arm
                    f = [fmt_pieces(x) for x, _ in walk(arm["body"]) if x.get("k") == "FormatArgs"]
                    t.append((v, guard, f[0] if f else None))
                g_ok = False
                g = m["arms"][0].get("guard")
                if g:
                    gg = peel(g)
                    g_ok = gg.get("k") == "Binary" and gg["op"] in ("Gt", "Ne") and peel(gg["rhs"]).get("k") == "Lit" and peel(gg["rhs"])["lit"]["v"] == 0 and any(
                        x.get("k") == "MethodCall" and x["name"] == "len" for x, _ in walk(gg["lhs"]))
                sel_ok = t == [("Some", True, "object(..={0}, {1})"), ("Some", False, "object(..={0})"), ("None", False, "object({0})")] and g_ok
        ck.ob("R15.render", "Object parent part iff parent is not null", par_ok, loc(ob), "match parent { Null => None, p => Some(render p) }: %s" % par_ok)
        ck.ob("R15.render", "Object template selection", sel_ok, loc(ob), "(parent, fields non-empty) → `object(..=p, f…)` / (parent) → `object(..=p)` / no parent → `object(f…)`: %s" % sel_ok)



def _lexer(ck, fx):
    try:
        g = G.load()
    except Exception as e:
        ck.ob("R15.lexer", "grammar", False, "", "cannot read the grammar: %s" % e)
        return
    t = g.terminal_pattern("STRING_LITERAL") if g else None
    if not ck.anchor("R15.lexer", "terminal STRING_LITERAL", t):
        return
    from ..regexeq import accepts
    got = set()
    for c in ["~", "n", "t", "r", "\\", '"', "a", "0", "e", "E", " ", "#", "é", "*", "/", "-", "_", ".", "+", "(", "=", "'", "Z", "9"]:
        try:
            if accepts(t["pattern"], '"\\' + c + '"'):
                got.add(c)
        except Exception:
            pass
    ck.ob("R15.lexer", "escapes admitted by the lexer = escapes decoded by the VM", got == set(ESCAPES), "src/fml.lalrpop:%d" % t["line"],
          "lexer admits \\%s; VM decodes \\%s" % (" \\".join(sorted(got)), " \\".join(sorted(ESCAPES))))
    raw_ok = accepts(t["pattern"], '"a\na"') and accepts(t["pattern"], '"é"') and not accepts(t["pattern"], '"a"a"')
    ck.ob("R15.lexer", "any other character (incl. newline, non-ASCII) is admitted raw; an unescaped quote ends the literal", raw_ok, "", "raw characters accepted: %s" % raw_ok)
    r = g.rules.get("String")
    # what the String alternative builds, from its type-checked action: the token's text without its first and last character
    from . import c07_actions as CA
    ok = bool(r) and len(r.alts) == 1
    built = "?"
    if ok:
        per, probs = CA.alt_values(fx, g, "String", r.alts[0])
        vs = set().union(*per.values()) if per else set()
        built = " or ".join(sorted(CA.show(v) for v in vs)) or "; ".join(probs)
        ok = not probs and vs == {CA._freeze(("strip_quotes", CA.P(0)))}
    ck.ob("R15.lexer", "String action strips only the quotes", ok, "src/fml.lalrpop:%s" % (r.line if r else "?"),
          "the literal denotes %s — escapes stay raw for the VM: %s" % (built, ok))
