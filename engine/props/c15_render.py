"""C15 — what the object and array renderers return, decided on the returned string itself (R15.render, semantic form).

`ObjectInstance::evaluate_as_string` / `ArrayInstance::evaluate_as_string` are executed with E3; the string a successful
path returns is an expression over literals, renderings of sub-values R(x) (calls back into `Pointer::evaluate_as_string…`),
displayed names D(x) and `join`s over sequences. The expression is normalised **world by world** — parent null / not null
× fields empty / non-empty (arrays: elements empty / non-empty) — using the world's facts (an empty sequence joins to
"", a non-empty one to J; a one-element prefix before a non-empty sequence is followed by the separator) and compared
with S5:

    object:  "object(" [ "..=" R(parent) ] [ ", " ]  J(", "; D(name) "=" R(value) over the fields sorted by name)  ")"
    array :  "[" J(", "; R(element) over the elements forwards) "]"

Three `format!` templates selected by (parent, fields.len() > 0) and one `parts.join(", ")` over a vector that got the
parent part pushed conditionally and one part per field are the same function, and normalise to the same atoms.
"""
from ..symex import Executor, Client, State, lit, seq_build
from ..symdbg import fmt_term

TRUE, FALSE = lit(True), lit(False)


class RC(Client):
    name = "renderer"
    inline_depth = 3

    def no_inline(self, path):
        return "evaluate_as_string_on_path" in path or path.endswith("Pointer::evaluate_as_string")


def _mentions(t, sub):
    if t == sub:
        return True
    if isinstance(t, tuple):
        return any(_mentions(x, sub) for x in t if isinstance(x, tuple))
    return False


def _all_effs(effs):
    for e in effs:
        yield e
        for p in (e.get("paths") or []):
            yield from _all_effs(p["eff"])


class Norm:
    def __init__(self, eff, seq_term, world_nonempty):
        self.eff = eff
        self.seq_term = seq_term            # the collection whose emptiness the world fixes (field(self,'fields') / field(self,'0'))
        self.nonempty = world_nonempty
        self.problems = []
        self.loops = {e.get("loop"): e for e in _all_effs(eff) if e["k"] == "foreach"}

    # ---- string expressions → atoms
    def sx(self, t, elem_env=None):
        if not isinstance(t, tuple) or not t:
            return [("?", repr(t))]
        h = t[0]
        if h == "lit" and isinstance(t[1], str):
            return [("lit", t[1])] if t[1] else []
        if h == "ok":
            return self.sx(t[1], elem_env)
        if h == "fmt":
            out = []
            for p in t[1]:
                if p[0] == "lit":
                    out.append(("lit", p[1]))
                else:
                    a = t[2][p[1]] if p[1] < len(t[2]) else ("?",)
                    if p[3] not in ("", None):
                        out.append(("?", "format spec %r" % p[3]))
                    sub = self.sx(a, elem_env)
                    if sub and sub[0][0] == "?" and p[2] == "Display":
                        out.append(("D", a))
                    else:
                        out.extend(sub)
            return out
        if h == "payload" and isinstance(t[1], tuple) and t[1][:1] == ("fall",):
            for e in _all_effs(self.eff):
                if e["k"] == "call" and e.get("res") == t[1] and "evaluate_as_string" in e["args"][0][1]:
                    return [("R", e["args"][1])]
            return [("?", fmt_term(t))]
        if h == "app" and t[1] == "join" and len(t[2]) == 2 and t[2][1][0] == "lit":
            return self.join(self.seq(t[2][0]), t[2][1][1])
        if h == "app" and t[1] in ("as_str", "to_string", "deref", "to_owned", "clone") and t[2]:
            return self.sx(t[2][0], elem_env)
        if h == "app" and t[1] == "concat_str":
            return [a for x in t[2] for a in self.sx(x, elem_env)]
        if h == "sym" and len(t) == 3 and str(t[2]).startswith("after_loop:"):
            r = self._carried_text(t)
            if r is not None:
                return r
        return [("?", fmt_term(t)[:120])]

    def _carried_text(self, t):
        """a String variable appended to on every pass of a loop: its text after the loop is the text before it followed
        by the passes' pieces — `if i > 0 { sep } piece` is J(piece; sep), world-wise like a join"""
        from ..render import _says_first, _says_later
        for e in _all_effs(self.eff):
            c = (e.get("carried") or {}).get(t) if e["k"] == "foreach" else None
            if c is None:
                continue
            it, elem = e["args"][0], e.get("elem")
            idx = ("sym", elem[1], "index") if elem else None
            passes = []
            for step, conds, effs in zip(c["steps"], c["conds"], c["effs"]):
                if step == c["acc"]:
                    pieces = ()
                elif isinstance(step, tuple) and step[:2] == ("app", "concat_str") and step[2][0] == c["acc"]:
                    pieces = step[2][1:]
                else:
                    return None
                n = Norm(effs, self.seq_term, self.nonempty)
                atoms = merge([a for x in pieces for a in n.sx(x)])
                self.problems += n.problems
                passes.append((conds, self._subst_elem(atoms, elem)))
            if not c.get("every_iteration") or e.get("exits") and any(not _is_render_failure(p) for p in e["exits"]):
                self.problems.append("the loop that appends the parts can skip or stop early")
            first = [a for cs, a in passes if idx is not None and _says_first(cs, idx)]
            later = [a for cs, a in passes if idx is not None and _says_later(cs, idx)]
            if len(passes) == 1 and not first and not later:
                tmpl, sep = passes[0][1], ""
            elif len(passes) == 2 and len(first) == 1 and len(later) == 1 and later[0][:1] and later[0][0][0] == "lit" and merge(later[0][1:]) == first[0]:
                tmpl, sep = first[0], later[0][0][1]
            elif len(passes) == 2 and len(first) == 1 and len(later) == 1 and later[0] and later[0][0][0] == "lit" and first[0] and later[0][0][1].endswith(first[0][0][1] if first[0][0][0] == "lit" else "\0"):
                return None
            else:
                return None
            out = list(self.sx(c["init"]))
            if self._is_world_seq(it):
                if self.nonempty:
                    out.append(("J", tuple(tmpl), sep, self._orient(it)))
            else:
                self.problems.append("a loop over a sequence other than the object's own (%s) appends text: its emptiness is not fixed by the case split" % fmt_term(it)[:80])
                out.append(("J", tuple(tmpl), sep, fmt_term(it)[:60]))
            return out
        return None

    # ---- sequences → parts: ("one", atoms) | ("many", element atoms, iterator term)
    def seq(self, t):
        if isinstance(t, tuple) and t[:1] == ("obj",):
            b = self._build(t)
            if b is None:
                self.problems.append("the joined vector %s is modified in a way that is not followed" % fmt_term(t))
                return [("one", [("?", fmt_term(t))])]
            return b
        if isinstance(t, tuple) and t[:2] == ("app", "collected"):
            e = self.loops.get(t[2][0][1])
            if e is not None and len(e.get("results", [])) == 1 and not e.get("filtered"):
                return [("many", self._elem_atoms(e, e["results"][0]), e["args"][0])]
        if isinstance(t, tuple) and t[:2] == ("app", "map_of"):
            it, val, elem = t[2]
            return [("many", self._subst_elem(self.sx(val), elem), it)]
        if isinstance(t, tuple) and t[:2] == ("app", "array"):
            return [("one", self.sx(x)) for x in t[2]]
        if isinstance(t, tuple) and t[:2] == ("app", "concat"):
            return [p for x in t[2] for p in self.seq(x)]
        if isinstance(t, tuple) and t[:1] == ("payload",):
            # payload of a `collect::<Result<Vec<_>,_>>()`
            for e in _all_effs(self.eff):
                if e["k"] == "foreach" and e.get("collect_result") == t[1]:
                    return self.seq(("app", "collected", (lit(e.get("loop")),)))
        self.problems.append("joined sequence %s is not a followed construction" % fmt_term(t)[:100])
        return [("one", [("?", fmt_term(t)[:100])])]

    def _elem_atoms(self, e, val):
        n = Norm(e["paths"][0]["eff"] if e.get("paths") else [], self.seq_term, self.nonempty)
        atoms = n.sx(val)
        self.problems += n.problems
        return self._subst_elem(atoms, e.get("elem"))

    def _subst_elem(self, atoms, elem):
        def sub(t):
            if t == elem:
                return ("EL",)
            if isinstance(t, tuple) and t[:2] == ("app", "tuple_field") and t[2][0] == elem:
                return ("EL", t[2][1][1])
            if isinstance(t, tuple):
                return tuple(sub(x) if isinstance(x, tuple) else x for x in t)
            return t
        return [tuple(sub(x) if isinstance(x, tuple) else x for x in a) for a in atoms]

    def _build(self, obj):
        """parts of a vector object: straight-line pushes and loops that push exactly once per pass"""
        parts = []
        for e in self.eff:
            if e["k"] == "call" and len(e["args"]) > 1 and e["args"][1] == obj:
                nm = e["args"][0][1].rsplit("::", 1)[-1]
                if nm == "push" and len(e["args"]) == 3:
                    parts.append(("one", self.sx(e["args"][2])))
                elif nm in ("extend", "append") and len(e["args"]) == 3:
                    parts += self.seq(e["args"][2] if e["args"][2][0] != "iter" else e["args"][2][1])
                elif nm in ("len", "is_empty", "iter", "as_slice", "reserve", "capacity", "join", "concat"):
                    continue
                else:
                    return None
            elif e["k"] == "foreach" and _mentions(tuple(str(x) for x in ()), obj) is False and self._loop_pushes(e, obj) is not None:
                val = self._loop_pushes(e, obj)
                if val is False:
                    continue
                parts.append(("many", self._elem_atoms(e, val), e["args"][0]))
            elif e["k"] == "foreach" and e.get("pushes_into") == obj and len(e.get("results", [])) == 1:
                parts.append(("many", self._elem_atoms(e, e["results"][0]), e["args"][0]))
        return parts

    def _loop_pushes(self, e, obj):
        """the value pushed onto obj on every pass (exactly one push per pass, no exits that skip it); False when the
        loop does not touch obj; None when it touches it in another way"""
        vals = set()
        touched = False
        for p in e.get("paths", []):
            pushes = [x for x in p["eff"] if x["k"] == "call" and len(x["args"]) == 3 and x["args"][1] == obj and x["args"][0][1].endswith("::push")]
            others = [x for x in _all_effs(p["eff"]) if x["k"] == "call" and len(x["args"]) > 1 and x["args"][1] == obj and x not in pushes]
            if pushes or others:
                touched = True
            if len(pushes) != 1 or others:
                return None if touched else False
            vals.add(pushes[0]["args"][2])
        if not touched:
            return False
        return vals.pop() if len(vals) == 1 else None

    # ---- join under the world's facts
    def join(self, parts, sep):
        live = []
        for p in parts:
            if p[0] == "many":
                if self._is_world_seq(p[2]):
                    if self.nonempty:
                        live.append([("J", tuple(p[1]), sep, self._orient(p[2]))])
                else:
                    self.problems.append("a sequence other than the object's own (%s) is joined: its emptiness is not fixed by the case split" % fmt_term(p[2])[:80])
                    live.append([("J", tuple(p[1]), sep, fmt_term(p[2])[:60])])
            else:
                live.append(list(p[1]))
        out = []
        for i, a in enumerate(live):
            if i:
                out.append(("lit", sep))
            out.extend(a)
        return out

    def _is_world_seq(self, it):
        return isinstance(it, tuple) and it[:1] == ("iter",) and strip_sorted(it[1]) == self.seq_term

    def _orient(self, it):
        plain = it[2] == "fwd" and all((f[0] if isinstance(f, tuple) else f) in ("map", "enumerate") for f in it[3])
        return "forwards" if plain else "NOT a plain forward traversal (%s)" % fmt_term(it)[:60]


def _is_render_failure(p):
    """a loop exit taken only because rendering an element failed (`?` on the recursive rendering)"""
    o = p["out"]
    return o[0] in ("ret", "val") and isinstance(o[1], tuple) and o[1][:1] == ("err",)


def strip_sorted(t):
    """a sorted copy has the elements (and the emptiness) of the original"""
    while isinstance(t, tuple) and t[:2] == ("app", "sorted") and t[2]:
        t = t[2][0]
    return t


def merge(atoms):
    out = []
    for a in atoms:
        if a[0] == "lit" and out and out[-1][0] == "lit":
            out[-1] = ("lit", out[-1][1] + a[1])
        elif a[0] == "lit" and a[1] == "":
            continue
        else:
            out.append(a)
    return out


def show(atoms):
    def one(a):
        if a[0] == "lit":
            return repr(a[1])
        if a[0] == "R":
            return "R(%s)" % show_t(a[1])
        if a[0] == "D":
            return "D(%s)" % show_t(a[1])
        if a[0] == "J":
            return "J(%r; %s; %s)" % (a[2], show(list(a[1])), a[3])
        return "?(%s)" % (a[1],)
    return " ".join(one(a) for a in atoms)


def show_t(t):
    if t == ("EL",):
        return "ELEM"
    if isinstance(t, tuple) and t[:1] == ("EL",):
        return "ELEM.%s" % t[1]
    return fmt_term(t)[:60]


def _world_of_cond(c, val, parent_t, seq_t, loops_over_seq):
    """(parent_null?, nonempty?) constraints a path assumption puts on the world; None entries = no constraint"""
    truth = (val == TRUE)
    s = c
    neg = False
    while isinstance(s, tuple) and s[:2] == ("app", "not"):
        s = s[2][0]
        neg = not neg
    t = truth != neg
    if s == ("app", "is_variant", (parent_t, lit("Null"))):
        return (t, None)
    if isinstance(s, tuple) and s[:1] == ("app",) and s[1] in ("is_null", "call:bytecode::heap::Pointer::is_null") and s[2] and s[2][0] == parent_t:
        return (t, None)
    if isinstance(s, tuple) and s[:1] == ("app",):
        about_seq = lambda x: _mentions(x, seq_t) or any(_mentions(x, ("app", "collected", (lit(k),))) for k in loops_over_seq)  # noqa
        if s[1] == "is_empty" and about_seq(s[2][0]):
            return (None, not t)
        if s[1] in ("gt", "ne", "ge", "eq", "lt", "le") and len(s[2]) == 2 and isinstance(s[2][0], tuple) and s[2][0][:2] == ("app", "len") and about_seq(s[2][0][2][0]) and s[2][1][0] == "lit":
            k = s[2][1][1]
            table = {("gt", 0): True, ("ne", 0): True, ("ge", 1): True, ("eq", 0): False, ("lt", 1): False, ("le", 0): False}
            if (s[1], k) in table:
                ne = table[(s[1], k)]
                return (None, ne if t else not ne)
    return (None, None)


def decide(fx, body, kind):
    """[(world label, ok, detail)] for the object renderer (kind='object') or the array renderer (kind='array')"""
    ex = Executor(fx, RC())
    params = [("var", p.get("name") or "_") for p in body["params"]]
    res = ex.run_body(body, params, State())
    self_t = params[0]
    parent_t = ("app", "field", (self_t, lit("parent")))
    seq_t = ("app", "field", (self_t, lit("fields" if kind == "object" else "0")))
    out = []
    worlds = [(pn, ne) for pn in ((True, False) if kind == "object" else (True,)) for ne in (False, True)]
    oks = [(s, o) for s, o in res if o[0] == "val" and isinstance(o[1], tuple) and o[1][:1] in (("ok",), ("fmt",)) or (o[0] == "val" and isinstance(o[1], tuple) and o[1][:1] == ("lit",))]
    for pn, ne in worlds:
        label = ("parent %s, " % ("null" if pn else "not null") if kind == "object" else "") + ("%s %s" % ("fields" if kind == "object" else "elements", "non-empty" if ne else "empty"))
        forms = set()
        probs = []
        for s, o in oks:
            loops_over = [e.get("loop") for e in _all_effs(s.eff) if e["k"] == "foreach" and e["args"][0][:1] == ("iter",) and strip_sorted(e["args"][0][1]) == seq_t]
            consistent = True
            for e in s.eff:
                if e["k"] != "assume":
                    continue
                wp, wn = _world_of_cond(e["args"][0], e["args"][1], parent_t, seq_t, loops_over)
                if (wp is not None and kind == "object" and wp != pn) or (wn is not None and wn != ne):
                    consistent = False
            if not consistent:
                continue
            n = Norm(s.eff, seq_t, ne)
            atoms = merge(n.sx(o[1]))
            forms.add(tuple(atoms))
            probs += n.problems
            if kind == "object" and ne:
                okk, why = sorted_by_name(ex, s.eff, seq_t)
                if not okk:
                    probs.append(why)
        el = [("D", ("EL", 0)), ("lit", "="), ("R", ("EL", 1))] if kind == "object" else [("R", ("EL",))]
        J = ("J", tuple(el), ", ", "forwards")
        if kind == "object":
            want = [("lit", "object(")] + ([] if pn else [("lit", "..="), ("R", parent_t)]) + ([("lit", ", ")] if (not pn and ne) else []) + ([J] if ne else []) + [("lit", ")")]
        else:
            want = [("lit", "[")] + ([J] if ne else []) + [("lit", "]")]
        want = tuple(merge(want))
        ok = forms == {want} and not probs
        out.append((label, ok, "returns %s; S5: %s%s" % (" | ".join(sorted(show(list(f)) for f in forms)) or "nothing (no successful path)", show(list(want)),
                                                       ("; " + "; ".join(sorted(set(probs)))) if probs else "")))
    return out


def sorted_by_name(ex, eff, seq_t):
    """the sequence that is traversed for rendering is the fields sorted by name: its term is `sorted(fields, …)` — E3
    gives a variable that was sorted in place that value — with the natural order of (name, value) pairs, a key that is
    the name, or a comparator that compares the names ascending"""
    bases = [e["args"][0][1] for e in _all_effs(eff) if e["k"] == "foreach" and e["args"][0][:1] == ("iter",) and strip_sorted(e["args"][0][1]) == seq_t]
    if not bases:
        return False, "the fields are not traversed"
    for b in bases:
        if b == seq_t:
            return False, "the fields are rendered in storage order: no sort by name precedes the traversal"
        if not (b[:2] == ("app", "sorted") and b[2][0] == seq_t):
            return False, "the fields are sorted more than once (%s)" % fmt_term(b)[:80]
        args = b[2][1:]
        if not args:
            continue            # natural order of (name, value) pairs: name first, names are unique
        clo = args[0]
        npar = len(clo[2].get("params", [])) if clo[:1] == ("closure",) and isinstance(clo[2], dict) else None
        try:
            if npar == 1:
                el = ("sym", 10 ** 7, "elem")
                keys = {o[1] for _, o in ex.apply_closure(clo, (el,), State()) if o[0] == "val"}
                if {_first(k) for k in keys} != {("app", "tuple_field", (el, lit(0)))}:
                    return False, "the sort key is %s, not the field name" % sorted(fmt_term(k)[:60] for k in keys)
            elif npar == 2:
                a, bb = ("sym", 10 ** 7, "a"), ("sym", 10 ** 7 + 1, "b")
                vals = [o[1] for _, o in ex.apply_closure(clo, (a, bb), State()) if o[0] == "val"]
                if not (len(vals) == 1 and _is_cmp(vals[0], ("app", "tuple_field", (a, lit(0))), ("app", "tuple_field", (bb, lit(0))))):
                    return False, "the comparator is %s, not `name(a).cmp(name(b))`" % [fmt_term(v)[:80] for v in vals]
            else:
                return False, "cannot read the sort's key / comparator"
        except Exception as x:  # noqa
            return False, "cannot evaluate the sort's key / comparator (%s)" % str(x)[:60]
    return True, "sorted by the field name before rendering"


def _first(t):
    """`pair.0` is spelled tuple_field(pair, 0) for a destructured closure parameter and field(pair, '0') for `p.0`"""
    if isinstance(t, tuple) and t[:2] == ("app", "field") and t[2][1] == lit("0"):
        return ("app", "tuple_field", (t[2][0], lit(0)))
    return t


def _is_cmp(t, x, y):
    if isinstance(t, tuple) and t[:1] == ("app",) and len(t[2]) == 2:
        t = (t[0], t[1], (_first(t[2][0]), _first(t[2][1])))
    return isinstance(t, tuple) and t[:1] == ("app",) and t[1].rsplit("::", 1)[-1] in ("cmp", "call:std::cmp::Ord::cmp") and len(t[2]) == 2 and t[2][0] == x and t[2][1] == y


# ------------------------------------------------------------------ Pointer rendering, per kind

class PC(Client):
    name = "pointer-renderer"
    inline_depth = 3

    def no_inline(self, path):
        return "evaluate_as_string" in path or path.endswith("Heap::dereference")


def decide_pointer(fx, body):
    """[(kind, ok, detail)] + guard row: `Pointer::evaluate_as_string…` executed once per kind of pointer"""
    P = "bytecode::heap::Pointer"
    rows = []
    x = ("var", "x")
    params = body["params"]
    for variant in ("Null", "Integer", "Boolean", "Reference"):
        selfv = ("ctor", P, variant, () if variant == "Null" else (("0", x),))
        ex = Executor(fx, PC())
        args = [selfv] + [("var", p.get("name") or "_") for p in params[1:]]
        res = ex.run_body(body, args, State())
        oks = [(s, o) for s, o in res if o[0] == "val" and isinstance(o[1], tuple) and (o[1][:1] == ("ok",) or o[1][:1] == ("fall",))]
        fails = [(s, o) for s, o in res if not (o[0] == "val" and isinstance(o[1], tuple) and (o[1][:1] == ("ok",) or o[1][:1] == ("fall",)))]
        # `Ok(self.to_string())`: the text is what `Display for Pointer` writes for this kind — read off its rendering
        if oks and {o[1] for s, o in oks} == {("ok", selfv)}:
            from .. import render as _R
            disp = fx.body("<%s as std::fmt::Display>::fmt" % P)
            shown = None
            if disp is not None:
                try:
                    ps = _R.render_paths(fx, disp, [selfv, ("var", "f")], ("var", "f"))
                    segs = {tuple((sg[0],) + tuple(sg[1:3]) if sg[0] == "arg" else sg for sg in p_["segs"]) for p_ in ps}
                    if len(segs) == 1:
                        shown = next(iter(segs))
                except Exception:  # noqa
                    shown = None
            if shown is not None and variant == "Null" and shown == (("lit", "null"),):
                oks = [(s, ("val", ("ok", lit("null")))) for s, o in oks]
            elif shown is not None and variant in ("Integer", "Boolean") and shown == (("arg", x, "Display"),):
                oks = [(s, ("val", ("ok", x))) for s, o in oks]
        if variant == "Null":
            vals = {o[1] for s, o in oks}
            ok = vals == {("ok", lit("null"))} and not fails
            rows.append(("Pointer::Null", ok, "renders %s; S5: the text `null`" % sorted(fmt_term(v) for v in vals)))
        elif variant in ("Integer", "Boolean"):
            vals = {o[1] for s, o in oks}
            ok = vals == {("ok", x)} and not fails
            rows.append(("Pointer::%s" % variant, ok, "renders %s; S5: the payload's own to_string() (%s)" % (
                sorted(fmt_term(v).replace("x", "<payload>") for v in vals), "decimal" if variant == "Integer" else "true/false")))
        else:
            good = bool(oks)
            why = []
            guard_ok = bool(oks)
            for s, o in oks:
                calls = [e for e in s.eff if e["k"] == "call"]
                deref = [e for e in calls if e["args"][0][1].endswith("Heap::dereference") and len(e["args"]) == 3 and e["args"][2] == x]
                rend = [e for e in calls if "evaluate_as_string" in e["args"][0][1]]
                if len(deref) != 1 or len(rend) != 1:
                    good = False
                    why.append("%d dereference(s) of the index, %d rendering call(s)" % (len(deref), len(rend)))
                    continue
                d, r = deref[0], rend[0]
                obj_ok = r["args"][1] in (("payload", d.get("res")), d.get("res"))
                val_ok = o[1] in (r.get("res"), ("ok", ("payload", r.get("res"))))
                if not (obj_ok and val_ok):
                    good = False
                    why.append("renders the dereferenced object: %s; returns that rendering unchanged: %s" % (obj_ok, val_ok))
                # guard: entered before the rendering, left after it
                guard = next((("var", p_.get("name")) for p_ in params[2:3]), None)
                ins = [i for i, e in enumerate(s.eff) if e["k"] == "call" and len(e["args"]) == 3 and e["args"][1] == guard and e["args"][2] == x and
                       e["args"][0][1].rsplit("::", 1)[-1] in ("push", "insert", "push_back")]
                outs = [i for i, e in enumerate(s.eff) if e["k"] == "call" and len(e["args"]) >= 2 and e["args"][1] == guard and
                        e["args"][0][1].rsplit("::", 1)[-1] in ("pop", "remove", "pop_back", "truncate", "swap_remove", "take")]
                ri = s.eff.index(r)
                if ins and not (outs and ins[0] < ri < outs[-1] and len(outs) >= len(ins)):
                    guard_ok = False
            cyc = any(any(e["k"] == "assume" and "contains(" in fmt_term(e["args"][0]) and e["args"][1] == TRUE for e in s.eff) for s, o in fails)
            rows.append(("Pointer::Reference", good, "renders the dereferenced heap object and returns that text: %s%s" % (good, ("; " + "; ".join(sorted(set(why)))) if why else "")))
            rows.append(("cycle guard is path-scoped (entered objects are left again)", guard_ok and cyc,
                         "an index is put on the guard before its object is rendered and taken off afterwards on every successful path: %s; an index already on the guard fails: %s%s" % (
                             guard_ok, cyc, "" if guard_ok else " — a visited-set rejects acyclic values that reach the same object twice (shared substructure must print)")))
    return rows


def decide_entry(fx, entry_body, renderer_path_prefix="bytecode::heap::Pointer::evaluate_as_string_on_path"):
    """the renderer `print` calls: on every path it returns what the recursive renderer returns for this pointer, started
    on an empty guard — nothing is remembered between prints (a memo would show a stale text after a nested value
    changed), nothing is post-processed"""
    ex = Executor(fx, PC())
    params = entry_body["params"]
    args = [("var", p.get("name") or "_") for p in params]
    res = ex.run_body(entry_body, args, State())
    bad = []
    n = 0
    for s, o in res:
        n += 1
        calls = [e for e in s.eff if e["k"] == "call" and e["args"][0][1].startswith(renderer_path_prefix)]
        if len(calls) != 1:
            bad.append("a path makes %d call(s) to the recursive renderer" % len(calls))
            continue
        c = calls[0]
        self_ok = c["args"][1] == args[0] and (len(c["args"]) < 3 or c["args"][2] == args[1])
        guard = c["args"][3] if len(c["args"]) > 3 else None
        guard_ok = guard is None or guard == ("app", "array", ()) or (isinstance(guard, tuple) and guard[:1] == ("obj",) and not any(
            e["k"] == "call" and len(e["args"]) > 1 and e["args"][1] == guard and e is not c for e in s.eff))
        val_ok = o[0] == "val" and o[1] in (c.get("res"), ("ok", ("payload", c.get("res"))), ("err", ("errof", c.get("res"))))
        others = [e for e in s.eff if e["k"] == "call" and e is not c and not e["args"][0][1].endswith(("Vec::<T>::new", "::new"))]
        if not (self_ok and guard_ok and val_ok):
            bad.append("renders this pointer on this heap: %s; starts on an empty guard: %s; returns the renderer's result unchanged: %s" % (self_ok, guard_ok, val_ok))
        elif others:
            bad.append("also calls %s" % sorted({e["args"][0][1].rsplit("::", 2)[-2] + "::" + e["args"][0][1].rsplit("::", 1)[-1] for e in others})[:4])
    ok = n > 0 and not bad
    return ok, ("%d path(s): each is one call of the recursive renderer on this pointer with a fresh guard, result returned unchanged" % n) if ok else "; ".join(sorted(set(bad)))[:300]
