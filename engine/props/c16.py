"""C16 — heap log: one record per created array/object; memory flags are inert.

R16.onepush  Heap.memory grows only in Heap::allocate; there the size update precedes exactly one
             ALLOCATE log write (of the *updated* size) which precedes exactly one push; allocate is
             called only from the object/array evaluators, once each, outside loops.
R16.format   header / START / ALLOCATE record templates equal S9; timestamp is u128 nanoseconds.
R16.shape    HeapObject::size reads only the object's own lengths and size_of constants and
             contains a strictly positive constant term per variant.
R16.inert    Heap.max_size is never read; Heap.log is touched only by the log writer; the
             --heap-size value reaches only set_size and is not used in profile-dependent arithmetic.
"""
from .. import anchors as A
from ..facts import walk_body, walk, callee_def, callee_name, loc, peel, user_macros_of
from ..census import field_uses, preorder_index, may_follow, fmt_pieces, arith_sites, local_of, mentions_local
from . import shared

LEVEL = "other"

HEAP = "bytecode::heap::Heap"
GROW = {"push", "insert", "extend", "extend_from_slice", "append", "resize", "resize_with", "push_within_capacity",
        "splice", "extend_from_within"}
SHRINK = {"remove", "swap_remove", "truncate", "clear", "pop", "drain", "retain", "retain_mut", "swap", "sort",
          "sort_by", "sort_by_key", "sort_unstable", "reverse", "dedup", "dedup_by", "dedup_by_key", "split_off",
          "rotate_left", "rotate_right", "fill", "fill_with"}
S9_HEADER = "timestamp,event,heap\n"
S9_START = "{0},S,0\n"
S9_ALLOC = "{0},A,{1}\n"


def run(ck, fx, cg, tier):
    ck.explanation = (
        "Structural decision of the heap-log contract: (who-may-write) the heap vector is appended to only by "
        "Heap::allocate, never shrunk or reordered; (ordering) in allocate the cumulative size is updated, then "
        "exactly one `<ns>,A,<updated size>` record is formatted into the log File, then exactly one push follows, "
        "with none of the three in a loop or branch other than the `log is Some` test; (who-may-call) allocate is "
        "called exactly once, outside loops, by the array and the object evaluator and by nobody else; (format) "
        "the three record templates are the documented ones; (shape) the size function reads only the created "
        "value's own lengths plus positive size_of constants; (inert) max_size is write-only, log is touched only "
        "by the log writer, and the --heap-size number is not used in overflow-sensitive arithmetic. Decides the "
        "clause 'one A record per created array/object, cumulative, shape-dependent, flags inert'; it does not "
        "decide timestamp monotonicity or file-system failures (clock/environment).")
    ck.trusted_base = ["rustc resolution/type check", "fml-facts dumper", "S9 record formats (from the property statement)"]
    ck.assumptions = ["writes to the log File succeed (unwrap → panic otherwise)", "system clock is not analysed"]

    alloc = fx.body(A.get("heap.allocate"))
    set_log = fx.body(A.get("heap.set_log"))
    set_size = fx.body(A.get("heap.set_size"))
    size_fn = fx.body(A.get("heapobject.size"))
    for role, b in (("heap.allocate", alloc), ("heap.set_log", set_log), ("heap.set_size", set_size), ("heapobject.size", size_fn)):
        ck.anchor("R16", role + " = " + A.get(role), b)
    ck.anchor("R16", "type " + HEAP, fx.adts.get(HEAP))
    if not (alloc and set_log and set_size and size_fn and fx.adts.get(HEAP)):
        return
    for b in (alloc, set_log, set_size, size_fn):
        ck.fn(b["path"])

    # ------------------------------------------------------------ who-may-write Heap.memory
    n_mem = 0
    for b, n, ps, ctx in field_uses(fx, HEAP, "memory"):
        if b["from_expansion"]:
            continue
        n_mem += 1
        fn = b["path"]
        key = "%s|memory.%s" % (fn, ctx.get("method") or ctx["kind"])
        where = loc(n)
        if ctx["kind"] == "recv":
            m = ctx["method"]
            if m in GROW:
                ck.ob("R16.onepush", key, fn == alloc["path"], where,
                      "heap vector grows via .%s() in %s" % (m, fn) + ("" if fn == alloc["path"] else
                                                                   " — an allocation path that bypasses Heap::allocate (no log record, size not updated)"))
            elif m in SHRINK:
                ck.ob("R16.onepush", key, False, where, "heap vector is shrunk/reordered via .%s(): heap indices are no longer stable" % m)
            elif ctx["mut"] and m not in ("get_mut", "iter_mut", "last_mut", "first_mut", "as_mut_slice", "index_mut"):
                ck.ob("R16.onepush", key, False, where, "unclassified mutating use .%s() of the heap vector (unprovable)" % m)
            else:
                ck.ob("R16.onepush", key, True, where, "non-growing use .%s()" % m, nontrivial=False)
        elif ctx["kind"] in ("assign", "assign_op"):
            ok = "index" in ctx["via"]
            ck.ob("R16.onepush", key, ok and False if not ok else True, where,
                  "element store" if ok else "the heap vector itself is replaced by assignment")
        elif ctx["kind"] == "addr_of_mut":
            ck.ob("R16.onepush", key, False, where, "`&mut` to the heap vector escapes (unprovable)")
        else:
            ck.ob("R16.onepush", key, True, where, "read (%s)" % ctx["kind"], nontrivial=False)
    ck.floor("R16.onepush", "uses of Heap.memory", n_mem, 1)
    # struct literals of Heap (construction) — allowed only with an empty/handed-over vector in new()/From
    for b in fx.hir:
        if b["from_expansion"]:
            continue
        for n, ps in walk_body(b):
            if n.get("k") == "Struct" and n["res"].get("path") == HEAP:
                ok = b["path"] in (HEAP + "::new", "<bytecode::heap::Heap as std::convert::From<std::vec::Vec<bytecode::heap::HeapObject>>>::from")
                ck.ob("R16.onepush", "%s|constructs Heap" % b["path"], ok, loc(n),
                      "Heap constructed in %s" % b["path"])

    # ------------------------------------------------------------ ordering inside allocate
    pos, loops, branch = preorder_index(alloc)
    obj_param = alloc["params"][1]["lid"] if len(alloc["params"]) > 1 and alloc["params"][1].get("k") == "Binding" else None
    size_updates, log_writes, pushes = [], [], []
    for n, ps in walk_body(alloc):
        k = n.get("k")
        if k in ("AssignOp", "Assign") and peel(n["lhs"]).get("k") == "Field" and peel(n["lhs"])["name"] == "size" and peel(n["lhs"]).get("adt") == HEAP:
            size_updates.append((n, ps))
        if k == "FormatArgs" and "heap_log" in user_macros_of(n):
            log_writes.append((n, ps))
        if k == "MethodCall" and n["name"] in GROW and peel(n["recv"]).get("k") == "Field" and peel(n["recv"])["name"] == "memory":
            pushes.append((n, ps))
    ck.ob("R16.onepush", "allocate|one size update", len(size_updates) == 1, loc(alloc),
          "%d update(s) of Heap.size in allocate" % len(size_updates))
    ck.ob("R16.onepush", "allocate|one ALLOCATE record", len(log_writes) == 1, loc(alloc),
          "%d log write(s) in allocate" % len(log_writes))
    ck.ob("R16.onepush", "allocate|one push", len(pushes) == 1, loc(alloc), "%d push(es) in allocate" % len(pushes))
    if len(size_updates) == 1 and len(log_writes) == 1 and len(pushes) == 1:
        su, lw, pu = size_updates[0][0], log_writes[0][0], pushes[0][0]
        # update: size (+)= object.size()
        rhs = su["rhs"]
        def _size_call(e, depth=0):
            for x, _ in walk(e):
                if callee_name(x) == A.get("heapobject.size") and obj_param is not None and mentions_local(x, obj_param):
                    return True
                if depth < 2 and x.get("k") == "Path" and x["res"].get("k") == "Local":
                    for n2, _ in walk_body(alloc):
                        if n2.get("k") == "Block":
                            for st in n2["block"]["stmts"]:
                                if st["k"] == "Let" and st["pat"].get("k") == "Binding" and st["pat"]["lid"] == x["res"]["lid"] and "init" in st and _size_call(st["init"], depth + 1):
                                    return True
            return False
        uses_size_fn = _size_call(rhs)
        # the increment is EXACTLY the shape size: `size += <shape size>` or `size = size + <shape size>` (either order);
        # anything else applied to the old total (rounding, alignment, scaling) makes the increment depend on what was
        # allocated before, not only on the created value's shape
        def _is_old_total(e):
            e = peel(e)
            return e.get("k") == "Field" and e.get("name") == "size" and e.get("adt") == HEAP

        def _is_shape_size(e):
            e = peel(e)
            if e.get("k") in ("Call", "MethodCall"):
                return callee_name(e) == A.get("heapobject.size") and obj_param is not None and mentions_local(e, obj_param)
            if e.get("k") == "Path" and (e.get("res") or {}).get("k") == "Local":
                return _size_call(e)
            return False
        r0 = peel(rhs)
        if su["k"] == "AssignOp":
            cumulative = su["op"] == "AddAssign" and _is_shape_size(r0)
        else:
            cumulative = r0.get("k") == "Binary" and r0.get("op") == "Add" and (
                (_is_old_total(r0["lhs"]) and _is_shape_size(r0["rhs"])) or (_is_old_total(r0["rhs"]) and _is_shape_size(r0["lhs"])))
        ck.ob("R16.onepush", "allocate|size += shape size of the allocated object", uses_size_fn and cumulative, loc(su),
              "size update is %s and %s HeapObject::size(<allocated object>)" % (
                  "old total + shape size, nothing else" if cumulative else "NOT exactly `old total + shape size` (the increment then depends on more than the created value's shape)", "uses" if uses_size_fn else "does NOT use"))
        ck.ob("R16.onepush", "allocate|update before log", pos[id(su)] < pos[id(lw)] and not loops[id(su)] and not branch[id(su)],
              loc(lw), "size update %s the log write" % ("precedes" if pos[id(su)] < pos[id(lw)] else "FOLLOWS"))
        ck.ob("R16.onepush", "allocate|log before push", pos[id(lw)] < pos[id(pu)] and not loops[id(pu)] and not branch[id(pu)],
              loc(pu), "push %s the log write, unconditional=%s" % ("follows" if pos[id(lw)] < pos[id(pu)] else "PRECEDES", not branch[id(pu)]))
        # the only condition guarding the log write is `if let Some(file) = &mut self.log`
        conds = branch[id(lw)]
        ck.ob("R16.onepush", "allocate|log guarded only by log.is_some", len(conds) == 1 and not loops[id(lw)], loc(lw),
              "log write sits under %d branch(es), %d loop(s)" % (len(conds), len(loops[id(lw)])))
        # template and logged value
        tpl = fmt_pieces(lw)
        ck.ob("R16.format", "ALLOCATE record", tpl == S9_ALLOC, loc(lw), "template %r, expected %r" % (tpl, S9_ALLOC))
        from ..census import fmt_live_args
        live = fmt_live_args(lw)
        if len(live) >= 2:
            a1 = peel(lw["args"][live[1]])
            is_size = a1.get("k") == "Field" and a1.get("name") == "size" and a1.get("adt") == HEAP
            ck.ob("R16.onepush", "allocate|logged value is the updated cumulative size", is_size, loc(lw),
                  "second field of the A record is %s" % ("Heap.size read after the update" if is_size else a1.get("k")))
            t0 = fx.ty(lw["args"][0])
            ck.ob("R16.format", "ALLOCATE timestamp type", t0 == "u128", loc(lw), "timestamp type %s" % t0)
        # pushed value is the parameter
        pa = pu["args"][0] if pu["args"] else None
        l = local_of(pa) if pa else None
        ck.ob("R16.onepush", "allocate|pushes the allocated object", bool(l) and l[0] == obj_param, loc(pu),
              "pushed value is %s" % (l[1] if l else "not the parameter"))
        ck.sample({"rule": "R16.onepush", "fn": alloc["path"], "order": ["size update @%s" % loc(su), "log write @%s" % loc(lw), "push @%s" % loc(pu)],
                   "template": tpl})

    # ------------------------------------------------------------ who-may-write the cumulative size
    # the size in an A record is the sum of the shapes of the objects created so far: `Heap.size` is written by
    # `allocate` only (one increment per creation). Any other writer makes a record depend on more than the created
    # value's shape — on allocation history, on what was instantiated first, on a collector …
    n_sz = 0
    for b_, n_, ps_, ctx_ in field_uses(fx, HEAP, "size"):
        if b_["from_expansion"]:
            continue
        n_sz += 1
        if ctx_["kind"] in ("assign", "assign_op", "addr_of_mut") or (ctx_["kind"] in ("recv", "arg") and ctx_.get("mut")):
            okw = b_["path"] == alloc["path"]
            if not okw:
                ck.ob("R16.size", "%s|writes Heap.size" % b_["path"], False, loc(n_),
                      "the cumulative heap size is also written in %s (%s): the size column of the log no longer is the sum of the created objects' shapes" % (b_["path"], ctx_["kind"]))
    ck.ob("R16.size", "Heap.size is written by allocate only", True, loc(alloc), "%d use(s) of Heap.size examined" % n_sz, nontrivial=False)
    # ------------------------------------------------------------ who-may-call allocate
    adid = alloc["did"]
    expect = {"bytecode::interpreter::eval_object", "bytecode::interpreter::eval_array"}
    callers = sorted(shared.effective_callers(fx, cg, adid, expect))
    # the property speaks about what a run of `fml` creates: a function `main` cannot reach (a constructor kept for
    # the unit tests, say) creates nothing during a run, however it is written
    main_reach = cg.reachable(cg.dids_of(A.get("main")))
    if ck.anchor("R16.onepush", "main", main_reach or None):
        unreachable = [c for c in callers if c not in expect and cg.dids_of(c) and not any(d in main_reach for d in cg.dids_of(c))]
        for c in unreachable:
            ck.ob("R16.onepush", "%s|not part of a run" % c, True, loc(alloc), "calls allocate but cannot be reached from main", nontrivial=False)
        callers = [c for c in callers if c not in unreachable]
    ck.ob("R16.onepush", "callers of Heap::allocate", set(callers) == expect, loc(alloc),
          "callers: %s (expected exactly eval_object and eval_array)" % ", ".join(callers))
    for c in callers:
        hb = fx.body(c)
        if not hb:
            continue
        ck.fn(c)
        p2, l2, b2 = preorder_index(hb)
        sites = [n for n, _ in walk_body(hb) if n.get("k") in ("Call", "MethodCall") and callee_name(n) == alloc["path"]]
        ok = len(sites) == 1 and not l2[id(sites[0])]
        if not ok:
            # decided on the handler's paths instead (helpers inlined): every successful path allocates exactly once,
            # outside any loop
            try:
                from . import c05_vm as _V
                exh, pth, errh = _V.handler_paths(fx, c.rsplit("::", 1)[-1])
                oks_h = _V.ok_paths(pth) if pth else []
                per = []
                for ph in oks_h:
                    top = [e for e in ph["eff"] if e["k"] == "alloc" or (e["k"] == "call" and e["args"][0][1].endswith("Heap::allocate"))]
                    nested = [e for e in _V._all_effects(ph["eff"]) if (e["k"] == "alloc" or (e["k"] == "call" and e["args"][0][1].endswith("Heap::allocate")))]
                    per.append(len(top) == 1 and len(nested) == 1)
                if per and all(per):
                    ck.ob("R16.onepush", "%s|allocates exactly once" % c, True, loc(hb), "every successful path of the handler (helpers inlined) allocates exactly once, outside any loop (%d path(s))" % len(per))
                    continue
            except Exception:   # noqa
                pass
        ck.ob("R16.onepush", "%s|allocates exactly once" % c, ok, loc(hb),
              "%d allocate call(s); in loop/closure: %s" % (len(sites), [bool(l2[id(s)]) for s in sites]))
    # primitives never allocate: no HeapObject construction outside the two evaluators' helpers is a C14 matter;
    # here: HeapObject values are created only by from_pointers/new_object/from (ctor census)
    # ------------------------------------------------------------ set_log format
    fmts = [(n, ps) for n, ps in walk_body(set_log) if n.get("k") == "FormatArgs"]
    tpls = [fmt_pieces(n) for n, _ in fmts]
    ck.ob("R16.format", "header then START", tpls == [S9_HEADER, S9_START], loc(set_log),
          "set_log writes %r, expected %r" % (tpls, [S9_HEADER, S9_START]))
    p3, l3, b3 = preorder_index(set_log)
    for n, _ in fmts:
        ck.ob("R16.format", "set_log|%r unconditional" % fmt_pieces(n), not l3[id(n)] and len(b3[id(n)]) <= (1 if "heap_log" in user_macros_of(n) else 0),
              loc(n), "record written %s" % ("unconditionally" if not b3[id(n)] else "under %d branch(es)" % len(b3[id(n)])))
    # the file written is the one stored in Heap.log
    stores = [n for n, _ in walk_body(set_log) if n.get("k") == "Assign" and peel(n["lhs"]).get("k") == "Field" and peel(n["lhs"])["name"] == "log"]
    ck.ob("R16.format", "set_log|stores the log file", len(stores) == 1, loc(set_log), "%d store(s) to Heap.log" % len(stores))
    ck.sample({"rule": "R16.format", "set_log_templates": tpls})
    opens = shared.write_opens(fx, set_log)
    ck.ob("R16.format", "set_log|log file starts empty", len(opens) == 1 and opens[0][1], loc(set_log),
          "log opened with %s (the header must be the first line of the file)" % [o[2] for o in opens])

    # ------------------------------------------------------------ R16.shape
    _shape(ck, fx, cg, size_fn)

    # ------------------------------------------------------------ R16.inert
    n_max = 0
    for b, n, ps, ctx in field_uses(fx, HEAP, "max_size"):
        if b["from_expansion"]:
            continue
        n_max += 1
        ok = ctx["kind"] == "assign"
        ck.ob("R16.inert", "%s|max_size %s" % (b["path"], ctx["kind"]), ok, loc(n),
              "Heap.max_size is %s" % ("written (inert)" if ok else "READ/used (%s): the --heap-size flag can influence execution" % ctx["kind"]))
    ck.floor("R16.inert", "uses of Heap.max_size", n_max, 1)
    n_log = 0
    for b, n, ps, ctx in field_uses(fx, HEAP, "log"):
        if b["from_expansion"]:
            continue
        n_log += 1
        in_logger = ("heap_log" in user_macros_of(n) or ("node" in ctx and "heap_log" in user_macros_of(ctx["node"]))
                     or (b["path"] == set_log["path"] and ctx["kind"] == "assign"))
        ck.ob("R16.inert", "%s|log %s" % (b["path"], ctx["kind"]), in_logger, loc(n),
              "Heap.log used %s" % ("by the log writer" if in_logger else "outside the log writer (%s) — behaviour may depend on --heap-log" % ctx["kind"]))
    ck.floor("R16.inert", "uses of Heap.log", n_log, 1)
    # callers of set_size / set_log: only evaluate_with_memory_config
    for role in ("heap.set_size", "heap.set_log"):
        b = fx.body(A.get(role))
        cs = sorted(shared.effective_callers(fx, cg, b["did"], {A.get("evaluate_mem")}))
        ck.ob("R16.inert", "callers of %s" % role, cs == [A.get("evaluate_mem")], loc(b), "callers (through private helpers): %s" % cs)
    # the CLI number is not used in profile-dependent arithmetic nor anywhere besides set_size
    seeds, body_taint, tparams = shared.cli_taint(fx, cg)
    touched = sorted({fx.hir_by_did[d]["path"] for (d, i) in tparams if d in fx.hir_by_did})
    allowed = {A.get("evaluate_mem"), A.get("heap.set_size")}
    # a private helper that only hands the number (or a closure holding it) on — calls it, passes it as an argument, binds
    # it — never computes with it, compares it or prints it, does not *use* the number
    _, body_taint_all, _ = shared.cli_taint(fx, cg)
    for t in list(touched):
        hb_t = fx.body(t)
        if t in allowed or hb_t is None or hb_t.get("vis") == "Public":
            continue
        tl = body_taint_all.get(hb_t["did"], set())
        used = []
        for n_, ps_ in walk_body(hb_t):
            if n_.get("k") == "Path" and (n_.get("res") or {}).get("k") == "Local" and n_["res"].get("lid") in tl:
                chain_ = [q if isinstance(q, dict) else q[1] for q in ps_ if isinstance(q, dict) or (isinstance(q, tuple) and len(q) == 2 and isinstance(q[1], dict))]
                par = next((q for q in reversed(chain_) if q.get("k") not in ("DropTemps", "Use", "AddrOf", "Block", None)), None)
                pk = (par or {}).get("k")
                if pk not in ("Call", "MethodCall", "Closure", "Struct", "Tup", None):
                    used.append(pk)
        if not used:
            allowed.add(t)
    # private helpers called only from the allowed functions are part of them
    for t in list(touched):
        hb_t = fx.body(t)
        if t not in allowed and hb_t is not None and shared.effective_callers(fx, cg, hb_t["did"], allowed) <= allowed and hb_t.get("vis") != "Public":
            allowed.add(t)
    ck.ob("R16.inert", "flow of the --heap-size number", set(touched) <= allowed, "",
          "functions receiving the CLI number: %s (allowed: evaluate_with_memory_config, Heap::set_size)" % touched)
    ck.floor("R16.inert", "CLI numeric fields found", len(seeds), 2)
    for hb in fx.hir:
        if hb["from_expansion"]:
            continue
        t = (seeds, body_taint.get(hb["did"], set()))
        for n, ps, op, prim in arith_sites(hb):
            cls, why = shared.classify_arith(fx, hb, n, prim, t)
            if cls == "value" and "command-line" in why:
                ck.ob("R16.inert", "%s|%s on CLI number#%d" % (hb["path"], op, shared.ordinal(hb, n)), False, loc(n),
                      "plain `%s` on %s: panics in debug builds for large --heap-size, so exit status/output depend on the flag" % (op, why))
    # control dependence on the flag value inside set_size/evaluate_mem: no If/Match on tainted data
    for path in allowed:
        hb = fx.body(path)
        if not hb:
            continue
        tl = body_taint.get(hb["did"], set())
        for n, ps in walk_body(hb):
            if n.get("k") in ("If", "Match"):
                c = n.get("cond") or n.get("scrut")
                if any(x.get("k") == "Path" and x["res"].get("k") == "Local" and x["res"]["lid"] in tl and x["res"]["name"] != "heap_log" for x, _ in walk(c)):
                    ck.ob("R16.inert", "%s|branch on heap size" % path, False, loc(n), "control flow depends on the --heap-size value")
    # ------------------------------------------------------------ the same facts, decided on what allocate / set_log DO
    sem = _semantic(fx)
    if sem is not None:
        for key, ok, why in sem:
            ck.ob("R16.effects", key, ok, "", why)
        if all(ok for _, ok, _ in sem):
            # the effect-level description holds: it supersedes the shape-level obligations about the same two functions
            # (a macro turned into a function, a helper extracted, `if let Some(log)` written out …)
            def superseded(o):
                if o["ok"]:
                    return False
                k = o["key"]
                if k == "set_log|log file starts empty":
                    return False        # how the file is opened is not part of the effect-level description
                return (o["rule"] in ("R16.onepush", "R16.format") and (k.startswith("allocate|") or k.startswith("set_log|") or k in ("header then START", "ALLOCATE record", "ALLOCATE timestamp type"))) or (
                    o["rule"] == "R16.inert" and "|log " in k and k.startswith((HEAP + "::allocate", HEAP + "::set_log")))
            ck.obligs[:] = [o for o in ck.obligs if not superseded(o)]
    # "one A record per created array/object, in creation order": creation order is evaluation order. For array(n, init)
    # with a compound initializer the array is created first and the initializer values afterwards, once per element
    # (C13's rules on the array arm)
    from . import shared as _sh
    _sh.presuppose(ck, fx, cg, "C13", lambda o: o["rule"] == "R13.arrayrewrite", "R16.order",
                   "arrays are created before their compound initializer runs (creation order = documented evaluation order)", floor=2)


def _semantic(fx):
    """[(key, ok, why)] from symbolic execution of Heap::allocate (with and without a log) and Heap::set_log; None when the
    functions cannot be executed."""
    from ..symex import Executor, Client, State
    from ..symdbg import fmt_term
    a = fx.adts.get(HEAP)
    ab, sb = fx.body(HEAP + "::allocate"), fx.body(HEAP + "::set_log")
    if a is None or ab is None or sb is None:
        return None
    size_path = A.get("heapobject.size")

    class C(Client):
        name = "heap"
        inline_depth = 6

        def no_inline(self, path):
            return path == size_path

    fields = [f["name"] for f in a["variants"][0]["fields"]]

    def run(body, over, args):
        self_t = ("ctor", HEAP, None, tuple((f, over.get(f, ("var", "self." + f))) for f in fields))
        ex = Executor(fx, C())
        return [(s_, o) for s_, o in ex.run_body(body, [self_t] + args, State())]

    def writes_to(effs, target=None):
        out = []
        for e in effs:
            if e["k"] == "call" and "io::" in e["args"][0][1] and "Write" in e["args"][0][1] and e["args"][0][1].rsplit("::", 1)[-1] in ("write_fmt", "write_all", "write", "write_vectored"):
                if target is None or e["args"][1] == target:
                    out.append(e)
        return out

    def template(e):
        x = e["args"][2] if len(e["args"]) > 2 else None
        if x is None:
            return None, ()
        if x[0] == "fmt":
            return "".join(p_[1] if p_[0] == "lit" else "{%d}" % p_[1] for p_ in x[1]), x[2]
        if x[0] == "lit":
            v = x[1]
            return (v.decode("utf-8", "replace") if isinstance(v, (bytes, bytearray)) else str(v)), ()
        return None, ()

    def clocky(effs, t):
        s = fmt_term(t)
        return "SystemTime" in s or "Instant" in s or "elapsed" in s or "duration_since" in s or any(
            e["k"] == "call" and ("SystemTime" in e["args"][0][1] or "UNIX_EPOCH" in fmt_term(e["args"])) and e.get("res") is not None and _m(t, e["res"]) for e in effs)

    def _m(t, sub):
        if t == sub:
            return True
        if isinstance(t, tuple):
            return any(_m(x, sub) for x in t if isinstance(x, tuple))
        return False
    out = []
    try:
        some = run(ab, {"log": ("some", ("var", "FILE"))}, [("var", "object")])
        none = run(ab, {"log": ("none",)}, [("var", "object")])
        setl = run(sb, {}, [("var", "path")])
    except Exception as e:  # noqa
        return None

    def core(effs):
        """the effects that matter for the program: size update, growth of the heap vector"""
        res = []
        for e in effs:
            if e["k"] == "set_field" and e["args"][1] == ("lit", "size"):
                res.append(("size", e["args"][2]))
            elif e["k"] == "call" and e["args"][0][1].endswith("::push") and e["args"][1] == ("var", "self.memory"):
                res.append(("push", e["args"][2]))
            elif e["k"] in ("set_field", "store_index") or (e["k"] == "call" and len(e["args"]) > 1 and e["args"][1] == ("var", "self.memory")):
                res.append(("other", fmt_term(e["args"])[:60]))
        return res
    ok_some = [(s_, o) for s_, o in some if o[0] == "val"]
    ok_none = [(s_, o) for s_, o in none if o[0] == "val"]
    if len(ok_some) != 1 or len(ok_none) != 1:
        out.append(("allocate|one successful path with and without a log", False, "%d / %d successful path(s)" % (len(ok_some), len(ok_none))))
        return out
    (s1, o1), (s0, o0) = ok_some[0], ok_none[0]
    c1 = core(s1.eff)
    sz = ("app", "call:" + size_path, (("var", "object"),))
    want_new = [("app", "add", (("var", "self.size"), sz)), ("app", "add", (sz, ("var", "self.size")))]
    shape_ok = len(c1) == 2 and c1[0][0] == "size" and c1[0][1] in want_new and c1[1] == ("push", ("var", "object"))
    out.append(("allocate|size := size + shape size, then one push of the object", shape_ok, "program-visible effects: %s" % [(k, fmt_term(v)[:70] if isinstance(v, tuple) else v) for k, v in c1]))
    out.append(("allocate|returns the index the object gets", o1[1] == ("ctor", "bytecode::heap::HeapIndex", None, (("0", ("app", "len", (("var", "self.memory"),))),)) or
                _m(o1[1], ("app", "len", (("var", "self.memory"),))), "result %s" % fmt_term(o1[1])[:80]))
    w1 = writes_to(s1.eff, ("var", "FILE"))
    tpl, targs = template(w1[0]) if len(w1) == 1 else (None, ())
    rec_ok = len(w1) == 1 and tpl == S9_ALLOC and len(targs) == 2 and clocky(s1.eff, targs[0]) and shape_ok and targs[1] == c1[0][1]
    out.append(("allocate|exactly one `<ns>,A,<updated size>` record when a log is configured", rec_ok,
                "%d write(s) to the log, template %r, second field is the updated size: %s" % (len(w1), tpl, bool(len(targs) == 2 and shape_ok and targs[1] == c1[0][1]))))
    if len(w1) == 1 and shape_ok:
        idx = {id(e): i for i, e in enumerate(s1.eff)}
        i_size = [i for i, e in enumerate(s1.eff) if e["k"] == "set_field" and e["args"][1] == ("lit", "size")][0]
        i_push = [i for i, e in enumerate(s1.eff) if e["k"] == "call" and e["args"][0][1].endswith("::push") and e["args"][1] == ("var", "self.memory")][0]
        out.append(("allocate|size update, then the record, then the push", i_size < idx[id(w1[0])] < i_push, "effect order %d < %d < %d" % (i_size, idx[id(w1[0])], i_push)))
    out.append(("allocate|without a log nothing is written and the program-visible effects are the same", not writes_to(s0.eff) and core(s0.eff) == c1 and o0 == o1,
                "writes without a log: %d; same size update / push / result: %s" % (len(writes_to(s0.eff)), core(s0.eff) == c1 and o0 == o1)))
    # set_log
    oks = [(s_, o) for s_, o in setl if o[0] == "val"]
    if not oks:
        out.append(("set_log|a successful path", False, "no successful path"))
        return out
    all_ok = True
    detail = ""
    for s2, _o in oks:
        stores = [e for e in s2.eff if e["k"] == "set_field" and e["args"][1] == ("lit", "log")]
        file_t = stores[0]["args"][2] if len(stores) == 1 else None
        while isinstance(file_t, tuple) and file_t and file_t[0] in ("some",):
            file_t = file_t[1]
        ws = writes_to(s2.eff, file_t) if file_t is not None else []
        tpls = [template(w)[0] for w in ws]
        start_clock = len(ws) == 2 and len(template(ws[1])[1]) == 1 and clocky(s2.eff, template(ws[1])[1][0])
        ok2 = len(stores) == 1 and tpls == [S9_HEADER, S9_START] and start_clock and len(writes_to(s2.eff)) == 2
        detail = "stores to Heap.log: %d; writes to that file: %r (expected %r); START carries a clock value: %s" % (len(stores), tpls, [S9_HEADER, S9_START], start_clock)
        if not ok2:
            all_ok = False
            break
    out.append(("set_log|writes the header, then one START record, into the file it stores in Heap.log", all_ok, "%d successful path(s); %s" % (len(oks), detail)))
    return out


def _shape(ck, fx, cg, size_fn):
    """HeapObject::size: pure in the object's shape, strictly positive."""
    reach = cg.reachable([size_fn["did"]])
    impure = []
    for d in reach:
        for cj, site in cg.ext.get(d, []):
            nm = cj.get("def", "")
            if nm.startswith("std::time") or nm.startswith("std::env") or nm.startswith("std::fs") or nm.startswith("std::io"):
                impure.append(nm)
        p = cg.path[d]
        if p.startswith("bytecode::heap::Heap::") or p.startswith("bytecode::state::"):
            impure.append(p)
    ck.ob("R16.shape", "size|pure", not impure, loc(size_fn),
          "reachable set of HeapObject::size: %s; impure callees: %s" % (sorted(cg.path[d] for d in reach), impure or "none"))
    # per variant arm: result contains size_of::<X>() with size(X) > 0
    v = peel(size_fn["value"])
    m = None
    for n, ps in walk_body(size_fn):
        if n.get("k") == "Match" and n.get("src") == "Normal" and not ps[-1:][0:0]:
            m = n
            break
    if not ck.anchor("R16.shape", "match on self in HeapObject::size", m):
        return
    for arm in m["arms"]:
        variant = (arm["pat"].get("res") or {}).get("variant", "?")
        consts = []
        for n, ps in walk(arm["body"]):
            if n.get("k") == "Call" and (callee_def(n) or "").endswith("mem::size_of"):
                t = n["callee"]["gargs"][0]
                sz = (fx.adts.get(t) or {}).get("size")
                consts.append((t, sz))
        pos_const = [c for c in consts if c[1] and c[1] > 0]
        # must be added, not multiplied away: top-level expression of the arm is an Add chain / let-bound header
        ck.ob("R16.shape", "size|%s has a positive constant term" % variant, bool(pos_const), loc(arm["body"]),
              "size_of terms: %s" % consts)
        # reads: only the bound instance's own data (fields/len/length/iter) — no Heap/State access
        bad = [n for n, _ in walk(arm["body"]) if n.get("k") == "Field" and n.get("adt") in (HEAP, "bytecode::state::State")]
        ck.ob("R16.shape", "size|%s reads only the object's own shape" % variant, not bad, loc(arm["body"]),
              "foreign state reads: %d" % len(bad))
    ck.sample({"rule": "R16.shape", "fn": size_fn["path"], "variants": [(a["pat"].get("res") or {}).get("variant") for a in m["arms"]]})
