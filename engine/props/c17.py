"""C17 — disassembly is a faithful, complete rendering of the bytecode file.

R17.sections  Display for Program formats every non-derived field (constant pool, entry, globals, code).
R17.coverage  in every Display arm for ProgramObject (7) and OpCode (17) every field of the variant flows into
              the output; indices are printed for constants, globals and instructions.
R17.injective the token patterns of the 17 opcode renderings, resp. the 7 constant renderings, are pairwise
              non-unifiable; operands are separated by fixed literals; AddressRange renders start and length
              recoverably; one item per line.
R17.names     mnemonics and section headers equal S8.
R17.wiring    the disassemble action prints exactly the loaded program through that Display.
"""
import re

from .. import anchors as A
from ..facts import walk_body, walk, loc, peel, callee_name
from ..census import fmt_pieces, local_of

LEVEL = "other"

S8_OPS = {
    "Literal": "lit {index}", "GetLocal": "get local {index}", "SetLocal": "set local {index}", "GetGlobal": "get global {name}",
    "SetGlobal": "set global {name}", "Object": "object {class}", "Array": "array", "GetField": "get slot {name}", "SetField": "set slot {name}",
    "CallMethod": "call slot {name} {arguments}", "CallFunction": "call {name} {arguments}", "Print": "printf {format} {arguments}",
    "Label": "label {name}", "Jump": "goto {label}", "Branch": "branch {label}", "Return": "return", "Drop": "drop",
}
S8_CONSTS = {
    "Integer": "{0}", "Boolean": "{0}", "Null": "null", "String": "\"{0}\"", "Slot": "slot {name}",
    "Method": "method {name} args:{parameters} locals:{locals} {code}", "Class": "class {0}",
}
S8_SECTIONS = ["Constant Pool:\n", "{constant_pool}", "Entry: {entry}\n", "Globals:\n", "{globals}", "Code:\n", "{code}"]

# operand classes: how a value of that type renders (regex of its Display)
CLASS_RE = {
    "bytecode::program::ConstantPoolIndex": r"#\d+", "bytecode::program::LocalFrameIndex": r"::\d+", "bytecode::program::Arity": r"\d+",
    "bytecode::program::Size": r"\d+", "i32": r"-?\d+", "bool": r"true|false", "bytecode::program::AddressRange": r"\d{4,}-(\d{4,}|∅)",
    "std::string::String": r".*", "joined": r"(#\d+(,#\d+)*)?",
}
NEWTYPE_TEMPLATES = {
    "bytecode::program::ConstantPoolIndex": "#{0}", "bytecode::program::LocalFrameIndex": "::{0}", "bytecode::program::Arity": "{0}", "bytecode::program::Size": "{0}",
}


def arm_template(fx, arm):
    """(template with {field} placeholders, {placeholder: type}, unused fields, wildcard fields)"""
    pat = arm["pat"]
    binds = {}   # lid -> field name
    wild = []
    if pat["k"] == "Struct":
        for f in pat["fields"]:
            sp = f["pat"]
            if sp.get("k") == "Binding":
                binds[sp["lid"]] = f["name"]
            else:
                wild.append(f["name"])
        if pat.get("rest"):
            wild.append("..")
    elif pat["k"] == "TupleStruct":
        for i, sp in enumerate(pat["pats"]):
            if sp.get("k") == "Binding":
                binds[sp["lid"]] = str(i)
            else:
                wild.append(str(i))
    fas = [n for n, ps in walk(arm["body"]) if n.get("k") == "FormatArgs"]
    if not fas:
        # f.write_str("literal") / f.pad("literal")
        lits = [peel(n["args"][0])["lit"]["v"] for n, ps in walk(arm["body"]) if n.get("k") == "MethodCall" and n["name"] in ("write_str", "pad") and n["args"] and
                peel(n["args"][0]).get("k") == "Lit" and peel(n["args"][0])["lit"].get("t") == "str"]
        if len(lits) == 1:
            return lits[0], {}, [binds[l] for l in binds], wild
        return None, {}, [], wild
    # the write!() to the formatter is the last FormatArgs; earlier ones (e.g. per-member to_string) feed locals
    fa = fas[-1]
    tpl = ""
    types = {}
    used = set()
    for p in fa["pieces"]:
        if "lit" in p:
            tpl += p["lit"]
        else:
            a = peel(fa["args"][p["arg"]]) if p["arg"] < len(fa["args"]) else {}
            l = local_of(a)
            if l and l[0] in binds:
                name = binds[l[0]]
                tpl += "{%s}" % name
                types[name] = (fx.ty(a) or "").lstrip("&")
                used.add(l[0])
            elif l:
                # a local computed from bindings (e.g. joined member list)
                src = None
                for n, ps in walk(arm["body"]):
                    if n.get("k") == "Block":
                        for st in n["block"]["stmts"]:
                            if st["k"] == "Let" and st["pat"].get("k") == "Binding" and st["pat"]["lid"] == l[0] and "init" in st:
                                for x, _ in walk(st["init"]):
                                    xl = local_of(x) if x.get("k") == "Path" else None
                                    if xl and xl[0] in binds:
                                        src = xl[0]
                if src is not None:
                    tpl += "{%s}" % binds[src]
                    types[binds[src]] = "joined"
                    used.add(src)
                else:
                    tpl += "{?}"
            else:
                tpl += "{?}"
    unused = [binds[l] for l in binds if l not in used]
    return tpl, types, unused, wild


def variant_templates(fx, body, adt):
    """{variant: (template, {field: type}, unused fields, [])} from the symbolic rendering of a Display impl: for each
    variant the one path that assumes it; None when some variant has no unique rendering (fall back to the arms)"""
    from .. import render as R
    try:
        paths = R.render_paths(fx, body, [("var", "self"), ("var", "f")], ("var", "f"))
    except Exception:
        return None
    out = {}
    for vv in adt["variants"]:
        v = vv["name"]
        mine = [p for p in paths if any(c == ("app", "is_variant", (("var", "self"), ("lit", v))) and val == ("lit", True) for c, val in p["conds"])]
        tpls = set()
        info = None
        for p in mine:
            used = set()
            types = {}

            def name_of(t, v=v, used=used, types=types, vv=vv):
                if isinstance(t, tuple) and t[:2] == ("app", "proj") and t[2][0] == ("var", "self") and t[2][1] == ("lit", v):
                    f = t[2][2][1]
                    used.add(f)
                    types[f] = next((x["ty"] for x in vv["fields"] if x["name"] == f), "").lstrip("&")
                    return f
                return None
            segs = p["segs"]
            tpl = R.template(segs, name_of)
            for sg in segs:
                if sg[0] == "joined":
                    n = name_of(sg[1])
                    if n is not None:
                        types[n] = "joined"
            tpls.add(tpl)
            info = (tpl, types, [f["name"] for f in vv["fields"] if f["name"] not in used], [])
        if len(tpls) != 1 or info is None:
            return None
        out[v] = info
    return out


def tokens(tpl, types):
    """token pattern: list of ('lit', word) / ('class', regex)"""
    out = []
    for w in tpl.split(" "):
        m = re.fullmatch(r"(.*?)\{(\w+)\}(.*)", w)
        if m:
            pre, name, post = m.groups()
            cls = CLASS_RE.get(types.get(name, ""), r".*")
            out.append(("class", re.escape(pre) + "(" + cls + ")" + re.escape(post), pre, post))
        else:
            out.append(("lit", w))
    return out


def unifiable(a, b):
    """can two token patterns render the same line? (conservative: True when unsure)"""
    if len(a) != len(b):
        # a free-text class (string) could contain spaces; only constants have one, guarded by quotes
        if not any(t[0] == "class" and ".*" in t[1] for t in a + b):
            return False
    for x, y in zip(a, b):
        if x[0] == "lit" and y[0] == "lit":
            if x[1] != y[1]:
                return False
        elif x[0] == "lit" or y[0] == "lit":
            l, c = (x, y) if x[0] == "lit" else (y, x)
            if not re.fullmatch(c[1], l[1]):
                return False
        else:
            if disjoint(x[1], y[1]):
                return False
    return True


def disjoint(r1, r2):
    """two operand-class regexes cannot match a common string (decided on a witness set)"""
    wit = ["0", "7", "12", "-3", "true", "false", "null", "#0", "#12", "::0", "::3", "\"x\"", "\"\"", "0000-0003", "0004-∅", "#1,#2", "", "slot", "x"]
    return not any(re.fullmatch(r1, w) and re.fullmatch(r2, w) for w in wit)


def sections_template(fx, body):
    """the listing's template as one string with {field} placeholders (a one-element list), None if not executable"""
    from .. import render as R
    try:
        # a field handed to its own Display impl — `write!(f, "{}", self.x)` or `self.x.fmt(f)` — is one placeholder
        # here; how that impl renders the field is the numbered-lines obligation of its own type
        paths = R.render_paths(fx, body, [("var", "self"), ("var", "f")], ("var", "f"), no_inline=("Display>::fmt",))
    except Exception:
        return None
    if len(paths) != 1:
        return None

    def name_of(t):
        if isinstance(t, tuple) and t[:2] == ("app", "field") and t[2][0] == ("var", "self"):
            return t[2][1][1]
        return None
    tpl = R.template(paths[0]["segs"], name_of)
    return [tpl] if tpl is not None else None


def numbered_lines(fx, body):
    """(ok, why) when the rendering of a newtype over a sequence can be executed: every element, in order, on its own
    line as `<position>: <element>`; (None, …) when it cannot be executed"""
    from .. import render as R
    from ..symdbg import fmt_term
    try:
        paths = R.render_paths(fx, body, [("var", "self"), ("var", "f")], ("var", "f"))
    except Exception as e:  # noqa
        return None, str(e)
    if not paths:
        return None, "no successful path"
    whys = []
    for p in paths:
        segs = p["segs"]
        ok = len(segs) == 1 and segs[0][0] == "each" and not segs[0][4]
        if ok:
            it, passes, elem = segs[0][1], segs[0][2], segs[0][3]
            base_ok = it[0] == "iter" and it[2] == "fwd" and it[3] == ("enumerate",) and it[1] == ("app", "field", (("var", "self"), ("lit", "0")))
            idx = ("sym", elem[1], "index") if elem else None
            want = [("arg", idx, "Display", ""), ("lit", ": "), ("arg", elem, "Display", ""), ("lit", "\n")]
            ok = base_ok and len(passes) == 1 and passes[0]["segs"] == want
        whys.append(ok)
    good = all(whys)
    return good, ("each element of the sequence, forwards, as `<position>: <element>` + newline" if good else
                  "rendering is not `<position>: <element>` per line for every element in order")


def run(ck, fx, cg, tier):
    ck.explanation = (
        "The listing is the Display rendering of the loaded Program. Decided from the format_args templates captured "
        "on the expanded AST and the resolved arms: (sections) every non-derived field of Program is formatted, in "
        "the S8 order with the S8 headers; (coverage) in each of the 7+17 arms every field of the variant is bound "
        "and flows into the output, and the index of every constant, global and instruction is printed; (names) "
        "mnemonics equal S8; (injective) the per-variant token patterns — literal words interleaved with operand "
        "classes whose textual shape is taken from the operand types' own Display templates (#n, ::n, n, true|false, "
        "quoted text, start-end|∅) — are pairwise non-unifiable, so for strings without raw line breaks each line "
        "determines its item; (wiring) the disassemble action prints exactly the loaded program. An actual read-back "
        "needs execution and is not performed.")
    ck.trusted_base = ["rustc resolution/type check", "fml-facts dumper (format_args templates from the expanded AST)", "S8 (listing examples shipped in tests/**/*.bc.txt)"]
    # ---------------------------------------------------------------- per-variant arms
    for role, adt, spec, floor in (("opcode.display", "bytecode::bytecode::OpCode", S8_OPS, 17), ("constant.display", "bytecode::program::ProgramObject", S8_CONSTS, 7)):
        b = fx.body(A.get(role))
        if not ck.anchor("R17.coverage", A.get(role), b):
            continue
        ck.fn(b["path"])
        a = fx.adts.get(adt)
        sym = variant_templates(fx, b, a) if a else None
        ms = [n for n, ps in walk_body(b) if n.get("k") == "Match" and n.get("src") == "Normal"]
        if sym is None and not ck.anchor("R17.coverage", "match on self in " + role, ms or None):
            continue
        m = ms[0] if ms else b
        pats = {}
        seen = 0
        if sym is not None:
            # decided on the rendering itself (every write to the formatter on the variant's path, helpers followed)
            work = [(v, sym[v], b) for v in [vv["name"] for vv in a["variants"]]]
        else:
            work = []
            for arm in m["arms"]:
                v = (arm["pat"].get("res") or {}).get("variant")
                if v is None:
                    ck.ob("R17.coverage", "%s|wildcard arm" % role, False, loc(arm["pat"]), "a wildcard arm renders several variants identically")
                    continue
                work.append((v, arm_template(fx, arm), arm["pat"]))
        for v, (tpl, types, unused, wild), at in work:
            arm = {"pat": at}
            seen += 1
            fields = [f["name"] for vv in a["variants"] if vv["name"] == v for f in vv["fields"]] if a else []
            key = "%s::%s" % (adt.rsplit("::", 1)[1], v)
            cov_ok = tpl is not None and not unused and not wild and "{?}" not in tpl and all(("{%s}" % f) in tpl for f in fields)
            ck.ob("R17.coverage", key, cov_ok, loc(arm["pat"]),
                  "renders `%s`; fields %s all printed" % (tpl, fields) if cov_ok else "renders `%s`; fields %s — not printed: %s%s" % (
                      tpl, fields, [f for f in fields if tpl is None or ("{%s}" % f) not in tpl], (", ignored by pattern: %s" % wild) if wild else ""))
            want = spec.get(v)
            # S8 names fields by their declared names; Method's `parameters` is bound as `arguments` in the code — compare by field
            ck.ob("R17.names", key, tpl == want, loc(arm["pat"]), "`%s`; S8: `%s`" % (tpl, want))
            if tpl is not None:
                pats[v] = tokens(tpl, types)
        ck.floor("R17.coverage", "arms of " + role, seen, floor)
        # pairwise non-unifiable
        names = sorted(pats)
        clashes = []
        for i in range(len(names)):
            for j in range(i + 1, len(names)):
                if unifiable(pats[names[i]], pats[names[j]]):
                    clashes.append((names[i], names[j]))
        ck.ob("R17.injective", "%s renderings pairwise distinguishable" % adt.rsplit("::", 1)[1], not clashes and len(names) == floor, loc(m),
              "%d patterns, %d pairs compared; unifiable pairs: %s" % (len(names), len(names) * (len(names) - 1) // 2, clashes or "none"))
        if len(ck.samples) < 6:
            ck.sample({"rule": "R17.injective", "type": adt.rsplit("::", 1)[1], "patterns": {k: [t[1] for t in v] for k, v in list(pats.items())[:6]}})
    # ---------------------------------------------------------------- operand classes: the newtypes' own Display templates
    for ty, want in NEWTYPE_TEMPLATES.items():
        b = fx.body("<%s as std::fmt::Display>::fmt" % ty)
        if not ck.anchor("R17.injective", "Display for " + ty, b):
            continue
        fas = [fmt_pieces(n) for n, ps in walk_body(b) if n.get("k") == "FormatArgs"]
        ck.ob("R17.injective", "operand class %s" % ty.rsplit("::", 1)[1], fas == [want], loc(b), "renders as `%s`; expected `%s`" % (fas, want))
    b = fx.body("<bytecode::program::AddressRange as std::fmt::Display>::fmt")
    if ck.anchor("R17.injective", "Display for AddressRange", b):
        fas = sorted(fmt_pieces(n) for n, ps in walk_body(b) if n.get("k") == "FormatArgs")
        ck.ob("R17.injective", "AddressRange renders start and length recoverably", fas == sorted(["{0}-∅", "{0}-{1}"]), loc(b), "templates %s (start-end, or start-∅ for an empty range)" % fas)
    # ---------------------------------------------------------------- sections
    b = fx.body(A.get("program.display"))
    if ck.anchor("R17.sections", "Display for Program", b):
        ck.fn(b["path"])
        seq = sections_template(fx, b)
        for n, ps in (walk_body(b) if seq is None else []):
            if seq is None:
                seq = []
            if n.get("k") == "FormatArgs":
                tpl = ""
                for p in n["pieces"]:
                    if "lit" in p:
                        tpl += p["lit"]
                    else:
                        a = peel(n["args"][p["arg"]])
                        tpl += "{%s}" % (a["name"] if a.get("k") == "Field" else "?")
                seq.append(tpl)
        seq = seq or []
        ck.ob("R17.sections", "sections and order", "".join(seq) == "".join(S8_SECTIONS), loc(b), "listing = %s; S8: %s" % (seq, S8_SECTIONS))
        a = fx.adts.get("bytecode::program::Program")
        fields = [f["name"] for f in a["variants"][0]["fields"]] if a else []
        printed = {x for s in seq for x in re.findall(r"\{(\w+)\}", s)}
        missing = [f for f in fields if f not in printed and f != "labels"]
        ck.ob("R17.sections", "every non-derived field is listed", not missing and bool(fields), loc(b), "Program fields %s; printed %s; `labels` is derived from the code (C03 R3.reload); missing: %s" % (fields, sorted(printed), missing or "none"))
    # the entry point: whatever index the file names is what the listing shows — on every path of Entry's rendering
    # exactly the index is written (a path that writes nothing for some *value* of the index — `#0` doubling as "not
    # set" — makes files whose entry method is that constant list without an entry point)
    eb = fx.body("<bytecode::program::Entry as std::fmt::Display>::fmt")
    if ck.anchor("R17.sections", "Display for Entry", eb):
        ck.fn(eb["path"])
        from .. import render as _R
        try:
            eps = _R.render_paths(fx, eb, [("var", "self"), ("var", "f")], ("var", "f"), no_inline=("ConstantPoolIndex as std::fmt::Display>::fmt",))
        except Exception as e:  # noqa
            eps = None
            ck.ob("R17.sections", "the entry point is listed whatever its index", False, loc(eb), "cannot execute Entry's rendering (unprovable): %s" % str(e)[:160])
        if eps is not None:
            def _strip(t):
                while isinstance(t, tuple) and t and (t[0] == "payload" or (t[0] == "app" and t[1] in ("ref", "deref", "clone", "as_ref") and t[2])):
                    t = t[1] if t[0] == "payload" else t[2][0]
                return t
            idx = ("app", "field", (("var", "self"), ("lit", "0")))
            bad = []
            # a path for "the stored Option is None" may write nothing when the loader never stores None: what
            # `from_bytes` returns has `Some(..)` in that field on every successful path (the case is excluded by
            # construction — unlike a case distinction on the index's *value*)
            loader_some = False
            lb = fx.body("<bytecode::program::Entry as bytecode::serializable::Serializable>::from_bytes")
            if lb:
                try:
                    from ..symex import Executor as _Ex, Client as _Cl, State as _St
                    outs = [o for st_, o in _Ex(fx, _Cl()).run_body(lb, [("var", "input")], _St()) if o[0] in ("val", "ret")]
                    loader_some = bool(outs) and all(isinstance(o[1], tuple) and o[1][0] == "ctor" and o[1][3] and isinstance(o[1][3][0][1], tuple) and o[1][3][0][1][0] == "some" for o in outs)
                except Exception:   # noqa
                    loader_some = False
            NONE_CASE = {(("app", "is_some", (idx,)), False), (("app", "is_none", (idx,)), True),
                         (("app", "is_variant", (idx, ("lit", "None"))), True), (("app", "is_variant", (idx, ("lit", "Some"))), False)}
            for p_ in eps:
                segs = p_["segs"]
                if not segs and loader_some and any((c, v == ("lit", True)) in NONE_CASE for c, v in p_["conds"]):
                    continue
                if not (len(segs) == 1 and segs[0][0] == "arg" and _strip(segs[0][1]) == idx and segs[0][3] in ("", None)):
                    from ..symdbg import fmt_term as _ft
                    bad.append("when %s the entry renders as %s" % (" and ".join("%s=%s" % (_ft(c)[:70], _ft(v)) for c, v in p_["conds"]) or "always", [x[:2] if x[0] == "lit" else x[0] for x in segs] or "nothing"))
            ck.ob("R17.sections", "the entry point is listed whatever its index", bool(eps) and not bad, loc(eb),
                  "every path of the rendering writes exactly the index (%d path(s))" % len(eps) if eps and not bad else "; ".join(bad) or "no path")
    # indices printed, one item per line
    for ty in ("ConstantPool", "Globals", "Code"):
        b = fx.body("<bytecode::program::%s as std::fmt::Display>::fmt" % ty)
        if not ck.anchor("R17.coverage", "Display for " + ty, b):
            continue
        okr, whyr = numbered_lines(fx, b)
        if okr is not None:
            ck.ob("R17.coverage", "%s: `<index>: <item>` per line" % ty, okr, loc(b), whyr)
            continue
        fas = [n for n, ps in walk_body(b) if n.get("k") == "FormatArgs"]
        enum = any(n.get("k") == "MethodCall" and n["name"] == "enumerate" for n, ps in walk_body(b))
        ok = len(fas) == 1 and fmt_pieces(fas[0]) == "{0}: {1}\n" and enum
        # first argument is the enumerate index
        ck.ob("R17.coverage", "%s: `<index>: <item>` per line" % ty, ok, loc(b), "template %s, enumerated: %s" % ([fmt_pieces(f) for f in fas], enum))
    # ---------------------------------------------------------------- wiring
    b = fx.body(A.get("cli.disassemble"))
    if ck.anchor("R17.wiring", "disassemble action", b):
        ck.fn(b["path"])
        prog = None
        for n, ps in walk_body(b):
            if n.get("k") == "Block":
                for st in n["block"]["stmts"]:
                    if st["k"] == "Let" and st["pat"].get("k") == "Binding" and "init" in st and any(
                            callee_name(x) == A.get("cli.bc.deserialize") for x, _ in walk(st["init"]) if x.get("k") in ("Call", "MethodCall")):
                        prog = st["pat"]["lid"]
        prints = [n for n, ps in walk_body(b) if n.get("k") == "FormatArgs" and "println" in (n.get("sp", {}).get("ms") or [])]
        ok = prog is not None and len(prints) == 1 and fmt_pieces(prints[0]) == "{0}\n" and local_of(prints[0]["args"][0]) and local_of(prints[0]["args"][0])[0] == prog
        ck.ob("R17.wiring", "prints the loaded program through Display", ok, loc(b), "println!(\"{}\", <program loaded by BCSerializer::deserialize>): %s" % ok)
    # ---------------------------------------------------------------- the program that is listed is the program in the file
    _loader(ck, fx, cg)


def _loader(ck, fx, cg):
    """The listing renders the *loaded* Program; "every constant with its index … as an independent reader decodes
    from the file" therefore presupposes that loading keeps every constant, global, instruction and the entry at its
    file position. Those are C04's reader obligations (R4.reader: per-kind layouts, program frame, pool integrity);
    they are evaluated here as one presupposition."""
    from ..core import Check, load_known
    from . import c04
    known = load_known()
    sub = Check("C04", ck.tier, ck.seed)
    try:
        c04.run(sub, fx, cg, "quick")
    except Exception as e:  # noqa
        ck.ob("R17.loader", "reader obligations", False, "", "C04's reader rules could not be evaluated: %s: %s" % (type(e).__name__, e))
        return
    # (R4.source: the bytes the loader is given are the file's bytes — nobody else reads, peeks or skips on that reader)
    rd = [o for o in sub.obligs if o["rule"].startswith("R4.reader") or o["rule"] == "R4.source"]
    bad = [o for o in rd if not o["ok"] and ("C04", "%s|%s" % (o["rule"], o["key"])) not in known]
    ck.ob("R17.loader", "the listed program is the program in the file", not bad, bad[0]["where"] if bad else "",
          "%d reader obligation(s) hold (every constant / global / instruction is loaded at its file position)" % len(rd) if not bad else
          "%d reader obligation(s) violated, first: %s — %s" % (len(bad), bad[0]["key"], bad[0]["detail"][:220]))
    ck.floor("R17.loader", "reader obligations evaluated", len(rd), 20)
    # … and keeps every instruction and label it read (C03's loader rules: code appended as read, pool one-to-one, labels
    # derived by the shared function, no refusal beyond decoding)
    from . import shared as _sh2
    _sh2.presuppose(ck, fx, cg, "C03", lambda o: o["rule"] == "R3.reload", "R17.loader", "the loader keeps every instruction and label it read", floor=5)
    from . import shared as _sh
    okd, whered, whyd = _sh.bc_deserialize_plain(fx, A)
    if ck.anchor("R17.loader", "BCSerializer::deserialize", True if okd is not None else None):
        ck.ob("R17.loader", "the bytecode deserializer hands the reader untouched to Program::from_bytes", okd is True, whered, whyd)
