"""Byte-layout extraction (writer and reader) and the S3 reference grammar (shared by C03 / C04)."""
from .. import anchors as A
from ..symex import lit, TRUE, FALSE, UNIT
from ..symdbg import fmt_term
from ..layout_scheme import run
from ..compile_scheme import variant_fields

PO = "bytecode::program::ProgramObject"
OP = "bytecode::bytecode::OpCode"

# S3 — independent reference (C04's statement + Feeny opcode numbering)
S3_CONST = {
    "Integer": (0x00, [("i32", "0")]),
    "Null": (0x01, []),
    "String": (0x02, [("utf8", "0")]),
    "Method": (0x03, [("u16", "name"), ("u8", "parameters"), ("u16", "locals"), ("code", "code")]),
    "Slot": (0x04, [("u16", "name")]),
    "Class": (0x05, [("u16vec", "0")]),
    "Boolean": (0x06, [("bool", "0")]),
}
S3_OP = {
    "Label": (0x00, [("u16", "name")]), "Literal": (0x01, [("u16", "index")]),
    "Print": (0x02, [("u16", "format"), ("u8", "arguments")]), "Array": (0x03, []),
    "Object": (0x04, [("u16", "class")]), "GetField": (0x05, [("u16", "name")]), "SetField": (0x06, [("u16", "name")]),
    "CallMethod": (0x07, [("u16", "name"), ("u8", "arguments")]), "CallFunction": (0x08, [("u16", "name"), ("u8", "arguments")]),
    "SetLocal": (0x09, [("u16", "index")]), "GetLocal": (0x0A, [("u16", "index")]),
    "SetGlobal": (0x0B, [("u16", "name")]), "GetGlobal": (0x0C, [("u16", "name")]),
    "Branch": (0x0D, [("u16", "label")]), "Jump": (0x0E, [("u16", "label")]),
    "Return": (0x0F, []), "Drop": (0x10, []),
}
WIDTH = {"u8": 1, "u16": 2, "u32": 4, "i32": 4, "i8": 1, "i16": 2, "u64": 8, "i64": 8}

_cache = {}


def mentions(t, sub):
    if t == sub:
        return True
    if isinstance(t, tuple):
        return any(mentions(x, sub) for x in t if isinstance(x, tuple))
    return False


def _has_head(t, head):
    if isinstance(t, tuple):
        if t and t[0] == "app" and t[1] == head:
            return True
        return any(_has_head(x, head) for x in t if isinstance(x, tuple))
    return False


REORDERING = ("collect_into", "reversed", "sorted", "dedup")


def seq_problems(term):
    """fields of a constructed value whose sequence went through a collection / adaptor that does not keep the
    order and multiplicity of its elements"""
    out = []
    if isinstance(term, tuple) and term and term[0] == "ctor":
        for k, v in term[3]:
            bad = [h for h in REORDERING if _has_head(v, h)]
            if bad:
                out.append("the sequence for `%s` passes through %s: order / multiplicity of its elements is not preserved" % (k, "/".join(bad)))
    return out


def pool_problems(path):
    """Does the loaded constant pool hold the constants of the file one-to-one and in file order?
    Accepted: the pool is `(0..n).map(|_| read constant).collect()`, or a vector that every iteration of the reading
    loop pushes the constant it read onto, exactly once. Anything else (conditional insertion, find-or-insert,
    insertion at an index) is reported: indices in instructions, classes, globals and the entry refer to file positions."""
    out = path["out"][1]
    if out[0] != "ctor":
        return ["no loaded program"]
    cp = dict(out[3]).get("constant_pool")
    if cp is None:
        return ["the loaded program has no constant_pool field"]
    inner = cp
    while inner[0] == "ctor" and len(inner[3]) == 1:
        inner = inner[3][0][1]
    loops = [e for e in path["eff"] if e["k"] == "foreach" and any(x["k"] == "sub_read" and x["args"][0] == lit("constant") for q in e.get("paths", []) for x in q["eff"])]
    if len(loops) != 1:
        return ["%d loops read constants (expected one)" % len(loops)]
    lp = loops[0]
    it = lp["args"][0]
    if not (it[0] == "iter" and is_forward(it) and it[1][0] == "ctor" and (it[1][1] or "").endswith("Range")):
        return ["the constants are not read by a forward loop over 0..count"]
    if inner[0] == "app" and inner[1] == "collected":
        if inner[2][0] != lit(lp.get("loop")):
            return ["the pool is collected from another loop than the one that reads the constants"]
        if lp.get("filtered") or tuple(lp.get("pipeline") or ()) != ("map",):
            return ["the constants read pass through %s before they are collected" % (list(lp.get("pipeline") or ()),)]
        for qi, q in enumerate(lp["paths"]):
            reads = [x["res"] for x in q["eff"] if x["k"] == "sub_read"]
            yielded = q["out"][1] if q["out"][0] == "val" else None
            if lp.get("pushes_into") is not None:
                yielded = lp["results"][qi] if qi < len(lp.get("results", [])) else None     # a push loop: what was pushed
            if len(reads) != 1 or yielded != reads[0]:
                return ["an iteration does not yield exactly the constant it read"]
        return []
    if inner[0] == "obj":
        for q in lp["paths"]:
            reads = [x["res"] for x in q["eff"] if x["k"] == "sub_read"]
            pushes = [x for x in q["eff"] if x["k"] == "call" and x["args"][0][1].endswith("::push") and x["args"][1] == inner]
            others = [x for x in q["eff"] if x["k"] == "call" and len(x["args"]) > 1 and x["args"][1] == inner and not x["args"][0][1].endswith(("::push", "::len", "::get", "::iter"))
                      and ("Vec" in x["args"][0][1] or "slice" in x["args"][0][1])]
            if len(reads) != 1 or len(pushes) != 1 or pushes[0]["args"][2] != reads[0] or others:
                return ["on some iteration the constant read is not appended to the pool exactly once (%d read, %d push%s): equal or skipped constants shift every later index" % (
                    len(reads), len(pushes), ", other mutation" if others else "")]
        return []
    return ["cannot relate the pool (%s) to the constants read" % (inner[0],)]


def strip_cast(t):
    while isinstance(t, tuple) and t and t[0] == "app" and t[1] == "cast":
        t = t[2][1]
    return t


def is_ok(p):
    o = p["out"]
    return o[0] == "val" and isinstance(o[1], tuple) and o[1][0] in ("ok", "ctor", "fall", "sym") or (o[0] == "val" and o[1] == UNIT)


# ----------------------------------------------------------------------------------- writer

def resume_loop(e):
    """A `loop` effect that is std's write_all written out by hand: every continuing iteration performs exactly one
    `write(w, buf)` on the loop variable `buf` and either continues with `buf[n..]` for the returned count n (the write
    succeeded) or with `buf` unchanged (it failed: a retry, e.g. on Interrupted); the loop is left normally — `break` or
    `return Ok(..)` — only when `buf` is empty, without writing. It delivers the initial `buf` completely:
    (sink, initial buffer) or None."""
    if e.get("k") != "loop":
        return None
    init = e.get("init") or {}
    cont = [p for p in e.get("paths", []) if p["out"][0] in ("val", "cont")]
    leave = [p for p in e.get("paths", []) if p["out"][0] == "brk"]
    leave += [p for p in e.get("exits", []) if p["out"][0] == "ret" and isinstance(p["out"][1], tuple) and p["out"][1] and p["out"][1][0] == "ok"]
    found = None
    advancing = 0
    for p in cont:
        ws = [x for x in p["eff"] if x["k"] == "call" and x["args"][0][1].startswith("std::io::Write::")]
        if len(ws) != 1 or ws[0]["args"][0][1] != "std::io::Write::write":
            return None
        buf = ws[0]["args"][2]
        if buf not in init:
            return None
        nxt = (p.get("next") or {}).get(buf)
        want = ("app", "index", (buf, ("ctor", "std::ops::RangeFrom", None, (("start", ("payload", ws[0]["res"])),))))
        res = ws[0]["res"]
        failed = any((x["k"] == "assume_fail" and x["args"][0] == res) or
                     (x["k"] == "assume" and x["args"][0] == ("app", "is_ok", (res,)) and x["args"][1] == lit(False)) for x in p["eff"])
        if nxt == want and not failed:
            advancing += 1
        elif nxt == buf and failed:
            pass            # nothing was written: try again
        else:
            return None
        if found is not None and found != (ws[0]["args"][1], buf):
            return None
        found = (ws[0]["args"][1], buf)
    if found is None or not advancing or not leave:
        return None
    sink, buf = found
    empty = ("app", "is_empty", (buf,))
    for p in leave:
        if any(x["k"] == "call" and x["args"][0][1].startswith("std::io::Write::") for x in p["eff"]):
            return None
        conds = [(x["args"][0], x["args"][1]) for x in p["eff"] if x["k"] == "assume"]
        if not any((c == empty and v == lit(True)) or (c == ("app", "not", (empty,)) and v == lit(False)) for c, v in conds):
            return None
    return sink, init[buf]


def settle_partial_writes(effs):
    """Rewrite provably resumed partial writes into the complete write they amount to (so that the layout is read off
    what reaches the sink): a recognised resume loop becomes write_all(initial buffer); a straight-line
    `n = write(S)` followed by the writes that spell S[n..] (c08_account) becomes write_all(S)."""
    from . import c08_account as AC
    out = []
    for e in effs:
        if e["k"] == "loop":
            r = resume_loop(e)
            if r is not None and e.get("taken_exit"):
                # left through `return Ok(..)`: only the exit that found the buffer empty completes the write
                lvs = set((e.get("init") or {}).keys())
                nxt_assumes = []
                for x in effs[len(out) + 1:]:
                    if x["k"] == "assume":
                        nxt_assumes.append(x)
                    else:
                        break
                took_empty = any(x["args"][0][0] == "app" and x["args"][0][1] == "is_empty" and x["args"][0][2][0] in lvs and x["args"][1] == lit(True) for x in nxt_assumes)
                if not took_empty:
                    r = None
            if r is not None:
                out.append({"k": "call", "args": (lit("std::io::Write::write_all"), r[0], r[1]), "res": None, "at": e["at"], "settled": "resume loop"})
                continue
        out.append(e)
    if any(e["k"] == "call" and e["args"][0][1] in AC.PARTIAL for e in out) and AC.account_path(out) is None:
        res = []
        owed = 0
        for e in out:
            if e["k"] == "call" and e["args"][0][1] in AC.PARTIAL:
                parts = AC._parts(e["args"][2])
                for p_ in parts:
                    res.append({"k": "call", "args": (lit("std::io::Write::write_all"), e["args"][1], p_), "res": e.get("res"), "at": e["at"], "settled": "accounted"})
                owed = "pending"
                continue
            if owed == "pending" and e["k"] == "call" and e["args"][0][1] in AC.COMPLETE:
                # part of the owed remainder: already represented by the settled write above
                seg = AC._segment(e["args"][2])
                if seg is not None and any(seg[0] == AC._strip(x["args"][2]) for x in res if x.get("settled") == "accounted"):
                    continue
            res.append(e)
        return res
    return out


def w_items(effs):
    """effects → write items"""
    out = []
    effs = settle_partial_writes(effs)
    for e in effs:
        k = e["k"]
        if k == "call" and e["args"][0][1] in ("std::io::Write::write_all", "std::io::Write::write"):
            x = e["args"][2]
            complete = e["args"][0][1].endswith("write_all")
            if x[0] == "app" and x[1] == "array" and len(x[2]) == 1:
                out.append(("w", "u8", x[2][0], e["at"], complete))
            elif x[0] == "app" and x[1] in ("to_le_bytes", "to_be_bytes", "to_ne_bytes"):
                out.append(("w", x[2][0][1] + x[1][3:5], x[2][1], e["at"], complete))
            else:
                out.append(("w", "raw", x, e["at"], complete))
        elif k == "call" and e["args"][0][1].startswith("std::io::Write::"):
            out.append(("w", "other:" + e["args"][0][1].rsplit("::", 1)[-1], None, e["at"], True))
        elif k == "foreach" and not e.get("taken_exit"):
            bodies = [w_items(p["eff"]) for p in e.get("paths", [])]
            if any(bodies):   # loops that write nothing (building a slice, mapping indices) are not layout
                out.append(("each", e["args"][0], bodies, e, e["at"]))
        elif k == "sub_write":
            out.append(("sub", e["args"][0][1], e["args"][1], e["at"]))
    return out


def is_forward(t):
    """effective orientation of an iterator term: every nested `iter(.., rev, ..)` / reversed(..) on the way down to
    the underlying sequence flips it; anything opaque in between makes the answer False (not provably forward)."""
    flips = 0
    while isinstance(t, tuple) and t:
        if t[0] == "iter":
            if t[2] == "rev":
                flips += 1
            elif t[2] != "fwd":
                return False
            if any(isinstance(f, tuple) and f and f[0] in ("rev",) or f == "rev" for f in t[3]):
                flips += 1
            t = t[1]
        elif t[0] == "app" and t[1] == "map_of":
            t = t[2][0]
        elif t[0] == "app" and t[1] == "reversed":
            flips += 1
            t = t[2][0]
        elif t[0] == "app" and t[1] in ("collect_into", "sorted", "dedup"):
            return False
        else:
            break
    return flips % 2 == 0


def _seq_base(t):
    """underlying sequence of an iterator / mapped / collected term"""
    while True:
        if t[0] == "iter":
            t = t[1]
        elif t[0] == "app" and t[1] in ("map_of", "reversed"):
            t = t[2][0]
        else:
            return t


def parse_writer(items, loops, self_fields):
    """[(prim, source-field, detail)] + problems. self_fields: {field name: term}"""
    fields = []
    problems = []
    i = 0

    def src_of(v):
        v = strip_cast(v)
        for n, t in self_fields.items():
            if mentions(v, t):
                return n
        return None

    while i < len(items):
        it = items[i]
        if it[0] == "w":
            kind, v = it[1], it[2]
            nxt = items[i + 1] if i + 1 < len(items) else None
            vv = strip_cast(v) if v is not None else None
            is_len = vv is not None and vv[0] == "app" and vv[1] in ("len", "count_of")
            if is_len and nxt is not None:
                counted = vv[2][0] if vv[1] == "len" else None
                if nxt[0] == "w" and nxt[1] == "raw":
                    # length-prefixed bytes
                    same = counted is not None and counted == nxt[2]
                    is_bytes = nxt[2][0] == "app" and nxt[2][1] == "bytes" or (nxt[2][0] == "iter" and nxt[2][1][0] == "app" and nxt[2][1][1] == "bytes")
                    # `len()` of the very value handed to write_all is its length in bytes (str / String / [u8] / Vec<u8> all
                    # measure bytes); a character count would be count_of(chars(..)) or the len of another sequence
                    fields.append(("lenbytes:" + kind, src_of(nxt[2]), {"len_is_byte_len": same and (is_bytes or vv[1] == "len"), "len_term": fmt_term(vv), "at": it[3]}))
                    i += 2
                    continue
                if nxt[0] == "each":
                    base = _seq_base(nxt[1])
                    cbase = _seq_base(counted) if counted is not None else None
                    lp = nxt[3]
                    it_t = nxt[1]
                    fwd = it_t[0] == "iter" and is_forward(it_t)
                    bodies = [b for b in nxt[2]]
                    elem_kind = None
                    if len(bodies) == 1 and len(bodies[0]) == 1:
                        b0 = bodies[0][0]
                        if b0[0] == "w":
                            elem_kind = b0[1]
                        elif b0[0] == "sub":
                            elem_kind = "sub:" + b0[1]
                    same = cbase is not None and cbase == base
                    fields.append(("counted:%s:%s" % (kind, elem_kind), src_of(base) or src_of(counted), {"count_matches_sequence": same, "forward": fwd, "base": fmt_term(base)[:120], "at": it[3]}))
                    i += 2
                    continue
            # `value as u8` / `u8::from(value)` of the payload itself (From conversions are transparent in the model):
            # false ↦ 0, true ↦ 1 by the language / std definition
            bool_cast = v is not None and any(strip_cast(v) == t for t in self_fields.values())
            fields.append((kind, src_of(v) if v is not None else None, {"value": fmt_term(v) if v is not None else None, "at": it[3], "lit": v[1] if v is not None and v[0] == "lit" else None,
                                                                          "bool_cast": bool_cast}))
            i += 1
            continue
        if it[0] == "each":
            fields.append(("loop", None, {"at": it[4], "iter": fmt_term(it[1])[:100], "bodies": [[x[:3] for x in b] for b in it[2]]}))
            i += 1
            continue
        if it[0] == "sub":
            fields.append(("sub:" + it[1], None, {"arg": fmt_term(it[2])[:80], "at": it[3]}))
            i += 1
            continue
        i += 1
    return fields, problems


def writer_variant(fx, role, adt, variant):
    """Layout written for self = adt::variant — list of per-path field lists."""
    key = ("w", id(fx), role, variant)
    if key in _cache:
        return _cache[key]
    fields = variant_fields(fx, adt, variant) or []
    self_fields = {f: ("var", "self." + f) for f in fields}
    self_t = ("ctor", adt, variant, tuple((f, self_fields[f]) for f in fields))
    args = [self_t, ("var", "sink")] + ([("var", "code")] if role == "constant.serialize" else [])
    try:
        ex, paths = run(fx, A.get(role), args)
    except Exception as e:
        _cache[key] = (None, "%s: %s" % (type(e).__name__, e))
        return _cache[key]
    if paths is None:
        _cache[key] = (None, "anchor missing")
        return _cache[key]
    out = []
    for p in paths:
        o = p["out"]
        # success: an explicit Ok(..), or the last write's own Result handed back (Ok exactly when that write succeeded)
        handed_back = o[0] == "val" and isinstance(o[1], tuple) and o[1][0] == "fall" and any(
            e.get("res") == o[1] and e["k"] in ("call", "sub_write") for e in p["eff"])
        if not (o[0] == "val" and isinstance(o[1], tuple) and (o[1][0] == "ok" or handed_back)):
            continue
        items = w_items(p["eff"])
        fl, probs = parse_writer(items, None, self_fields)
        assumes = [(fmt_term(e["args"][0]), e["args"][1] == TRUE) for e in p["eff"] if e["k"] == "assume"]
        out.append({"fields": fl, "assumes": assumes, "items": items})
    _cache[key] = (out, None)
    return _cache[key]


def norm_prim(kind):
    """writer primitive kind → (S3 primitive, little-endian?)"""
    if kind in ("u8",):
        return "u8", True
    if kind.endswith("le") or kind.endswith("be") or kind.endswith("ne"):
        return kind[:-2], kind.endswith("le")
    return kind, True


def check_writer_variant(spec, layouts, variant):
    """compare the writer's per-path field lists with S3 (tag + fields). → list of problems"""
    tag, want = spec
    problems = []
    if not layouts:
        return ["no successful path writes this variant"]
    is_bool = [w for w in want if w[0] == "bool"]
    for L in layouts:
        fl = L["fields"]
        if not fl:
            problems.append("nothing is written")
            continue
        t0 = fl[0]
        if not (t0[0] == "u8" and t0[2].get("lit") == tag):
            problems.append("tag byte is %s (%s), S3 says 0x%02X" % (t0[2].get("value"), t0[0], tag))
        rest = fl[1:]
        if len(rest) != len(want):
            problems.append("writes %d field(s) %s after the tag, S3 has %d %s" % (len(rest), [(f[0], f[1]) for f in rest], len(want), want))
            continue
        for (kind, src, d), (wp, wf) in zip(rest, want):
            if wp in ("u8", "u16", "u32", "i32"):
                p, le = norm_prim(kind)
                if p != wp:
                    problems.append("field `%s` is written as %s, S3 says %s" % (wf, kind, wp))
                elif not le and WIDTH.get(p, 1) > 1:
                    problems.append("field `%s` is written big-endian" % wf)
                if src != wf:
                    problems.append("position of `%s` holds `%s` (field order differs from S3)" % (wf, src))
            elif wp == "bool":
                if kind == "u8" and d.get("bool_cast"):
                    pass        # `value as u8`: false ↦ 0, true ↦ 1 by the language definition
                elif kind != "u8" or d.get("lit") not in (0, 1):
                    problems.append("boolean is not written as a single byte 0/1 (%s %s)" % (kind, d.get("value")))
                else:
                    # polarity: path assuming the payload true writes 1
                    pol = [v for t, v in L["assumes"] if "self.0" in t and "is_variant" not in t]
                    if pol and ((d["lit"] == 1) != pol[-1]):
                        problems.append("boolean polarity inverted (true written as %d)" % d["lit"])
            elif wp == "utf8":
                if not kind.startswith("lenbytes:"):
                    problems.append("string is not written as length + bytes (%s)" % kind)
                else:
                    p, le = norm_prim(kind.split(":", 1)[1])
                    if p != "u32" or not le:
                        problems.append("string length is written as %s, S3 says u32 little-endian" % kind.split(":", 1)[1])
                    if not d.get("len_is_byte_len"):
                        problems.append("string length is %s, S3 says the length in BYTES of the UTF-8 encoding that follows" % d.get("len_term"))
                    if src != wf:
                        problems.append("string bytes do not come from the payload")
            elif wp in ("u16vec", "code"):
                want_elem = "u16le" if wp == "u16vec" else "sub:opcode"
                want_count = "u16" if wp == "u16vec" else "u32"
                if not kind.startswith("counted:"):
                    problems.append("`%s` is not written as count + elements (%s)" % (wf, kind))
                else:
                    _, ck_, ek = kind.split(":", 2)
                    p, le = norm_prim(ck_)
                    if p != want_count or not le:
                        problems.append("element count of `%s` is written as %s, S3 says %s little-endian" % (wf, ck_, want_count))
                    if ek != want_elem:
                        problems.append("elements of `%s` are written as %s, S3 says %s" % (wf, ek, want_elem))
                    if not d.get("count_matches_sequence"):
                        problems.append("the count written for `%s` is not the length of the sequence that follows" % wf)
                    if not d.get("forward"):
                        problems.append("elements of `%s` are written in reverse" % wf)
                    if src != wf:
                        problems.append("elements of `%s` come from `%s`" % (wf, src))
    if is_bool:
        lits = sorted({L["fields"][1][2].get("lit") for L in layouts if len(L["fields"]) > 1}, key=repr)
        if any(len(L["fields"]) > 1 and L["fields"][1][2].get("bool_cast") for L in layouts):
            pass
        elif lits != [0, 1]:
            problems.append("boolean values written: %s, expected both 0 and 1" % lits)
    return sorted(set(problems))


# ----------------------------------------------------------------------------------- reader

def loop_count(rng):
    """the number of iterations of a loop over `0..n` or over the elements of `vec![x; n]`: the term n, else None"""
    if rng[0] == "iter" and rng[1][0] == "ctor":
        f = dict(rng[1][3])
        if f.get("start") == lit(0):
            return f.get("end")
    if rng[0] == "iter" and rng[1][0] == "app" and rng[1][1] == "vec_repeat" and len(rng[1][2]) == 2:
        return rng[1][2][1]
    return None


def r_items(effs):
    out = []
    for e in effs:
        k = e["k"]
        if k == "read":
            out.append(("r", e["args"][1][1], e["args"][2], e["at"]))
        elif k == "foreach" and not e.get("taken_exit"):
            bodies = [r_items(p["eff"]) for p in e.get("paths", [])]
            if any(any(x[0] in ("r", "sub") for x in b) for b in bodies):   # loops that read nothing are not layout
                out.append(("each", e["args"][0], bodies, e, e["at"]))
        elif k == "sub_read":
            out.append(("sub", e["args"][0][1], e.get("res"), e["at"]))
        elif k == "store_index":
            out.append(("store", e["args"][0], e["args"][1], e["args"][2], e["at"]))
        elif k == "call" and e["args"][0][1].endswith("::push"):
            out.append(("push", e["args"][1], e["args"][2], e["at"]))
        elif k == "call" and e["args"][0][1].endswith("::extend"):
            out.append(("extend", e["args"][1], e["args"][2], e["at"]))
    return out


def decode_of(t, sym):
    """how `sym` (bytes read) is decoded inside term t: ('u16', 'le') …"""
    if isinstance(t, tuple):
        if t and t[0] == "app" and t[1] in ("from_le_bytes", "from_be_bytes", "from_ne_bytes") and t[2][1] == sym:
            return (t[2][0][1], t[1][5:7])
        if t and t[0] == "app" and t[1] == "index" and t[2][0] == sym and t[2][1] == lit(0):
            return ("u8", "le")          # `let [byte] = buf` / `buf[0]` of a one-byte read: the byte itself
        for x in t:
            if isinstance(x, tuple):
                r = decode_of(x, sym)
                if r:
                    return r
    return None


def wrapper_of(t, sym):
    """None when the field holds the decoded bytes as they are (through newtype constructors / widening casts /
    Some/Ok only); otherwise the name of the first operation the decoded value passes through."""
    while isinstance(t, tuple) and t:
        if t[0] == "ctor" and len(t[3]) == 1:
            t = t[3][0][1]
        elif t[0] in ("some", "ok") and len(t) == 2:
            t = t[1]
        elif t[0] == "app" and t[1] == "cast" and len(t[2]) == 2:
            t = t[2][1]
        elif t[0] == "app" and t[1] in ("from_le_bytes", "from_be_bytes", "from_ne_bytes") and t[2][1] == sym:
            return None
        elif t[0] == "app" and t[1] == "index" and t[2][0] == sym and t[2][1] == lit(0):
            return None
        elif t[0] == "app":
            return t[1]
        else:
            return t[0]
    return "?"


def reader_variants(fx, role, adt):
    """{tag literal: [path layouts]} for the reader of constants / opcodes"""
    key = ("r", id(fx), role)
    if key in _cache:
        return _cache[key]
    args = [("var", "input")] + ([("var", "code")] if role == "constant.from_bytes" else [])
    try:
        ex, paths = run(fx, A.get(role), args)
    except Exception as e:
        _cache[key] = (None, "%s: %s" % (type(e).__name__, e))
        return _cache[key]
    if paths is None:
        _cache[key] = (None, "anchor missing")
        return _cache[key]
    out = {}
    for p in paths:
        o = p["out"]
        if not (o[0] == "val" and o[1][0] == "ctor" and o[1][1] == adt):
            continue
        items = r_items(p["eff"])
        if not items or items[0][0] != "r":
            continue
        tag_sym = items[0][2]
        tag = None
        tag_dec = None
        for e in p["eff"]:
            if e["k"] == "assume" and e["args"][1] == TRUE and e["args"][0][0] == "app" and e["args"][0][1] == "eq":
                a, b = e["args"][0][2]
                if mentions(a, tag_sym) and b[0] == "lit":
                    tag = b[1]
                    tag_dec = decode_of(a, tag_sym)
        out.setdefault(tag, []).append({"variant": o[1][2], "term": o[1], "items": items, "tag_width": items[0][1], "tag_dec": tag_dec, "eff": p["eff"]})
    spec = S3_CONST if adt == PO else S3_OP
    want_tags = {t for t, _ in spec.values()}
    if None in out or not want_tags <= set(out):
        # the decoder is not one `match tag { literal => .. }`: decide it tag by tag instead — the first byte read is fixed
        # to each value in turn, so every test on it (ranges, ==, nested matches, tables) evaluates concretely
        out2 = {}
        for t in sorted(want_tags | set(range(0, max(want_tags) + 3))):
            try:
                ex, paths_t = run(fx, A.get(role), args, first_byte=t)
            except Exception as e:
                continue
            for p in paths_t or []:
                o = p["out"]
                if not (o[0] == "val" and o[1][0] == "ctor" and o[1][1] == adt):
                    continue
                items = r_items(p["eff"])
                if not items or items[0][0] != "r" or items[0][1] != 1:
                    continue
                out2.setdefault(t, []).append({"variant": o[1][2], "term": o[1], "items": items, "tag_width": 1, "tag_dec": ("u8", "le"), "eff": p["eff"], "concrete_tag": True})
        if out2:
            out = out2
    _cache[key] = (out, None)
    return _cache[key]


def parse_reader(L):
    """field list [(prim, ctor-field, detail)] of one reader path (after the tag)"""
    items = L["items"][1:]
    term = L["term"]
    ctor_fields = dict(term[3])
    fields = []
    i = 0

    def dst_of(sym):
        for n, t in ctor_fields.items():
            if mentions(t, sym):
                return n, decode_of(t, sym), wrapper_of(t, sym)
        return None, None, None

    while i < len(items):
        it = items[i]
        if it[0] == "r":
            n, sym = it[1], it[2]
            nxt = items[i + 1] if i + 1 < len(items) else None
            if nxt is not None and nxt[0] == "each":
                # count-prefixed sequence
                rng = nxt[1]
                end = None
                if rng[0] == "iter" and rng[1][0] == "ctor":
                    f = dict(rng[1][3])
                    if f.get("start") == lit(0):
                        end = f.get("end")
                elif rng[0] == "iter" and rng[1][0] == "app" and rng[1][1] == "vec_repeat" and len(rng[1][2]) == 2:
                    end = rng[1][2][1]          # one visit per element of `vec![x; n]`
                cnt_dec = decode_of(end, sym) if end is not None else None
                bodies = nxt[2]
                elem = None
                elem_dec = None
                in_order = None
                if len(bodies) == 1:
                    b = bodies[0]
                    reads = [x for x in b if x[0] in ("r", "sub")]
                    if len(reads) == 1:
                        if reads[0][0] == "r":
                            elem = "r%d" % reads[0][1]
                            st = [x for x in b if x[0] == "store"]
                            if len(st) == 1:
                                elem_dec = decode_of(st[0][3], reads[0][2])
                                in_order = st[0][2] == nxt[3]["elem"]
                            elif not st and nxt[3].get("driver") == "collect" and not nxt[3].get("filtered") and len(nxt[3].get("results") or []) == 1:
                                # `(0..n).map(|_| read element).collect()` / a push loop: what each iteration yields is stored, in order
                                elem_dec = decode_of(nxt[3]["results"][0], reads[0][2])
                                in_order = elem_dec is not None
                        else:
                            elem = "sub:" + reads[0][1]
                            pu = [x for x in b if x[0] == "push"]
                            in_order = len(pu) == 1 and pu[0][2] == reads[0][2]
                fwd = rng[0] == "iter" and is_forward(rng)
                # destination: which ctor field receives the sequence
                dst = None
                after = items[i + 2] if i + 2 < len(items) else None
                fields.append(("counted", None, {"count_wrapped": (wrapper_of(end, sym) if end is not None else None), "count_bytes": n, "count_dec": cnt_dec, "elem": elem, "elem_dec": elem_dec, "in_order": in_order, "forward": fwd, "at": it[3]}))
                i += 2
                if after is not None and after[0] == "extend":
                    i += 1
                continue
            dst, dec, wrapped = dst_of(sym)
            fields.append(("prim", dst, {"bytes": n, "dec": dec, "wrapped": wrapped, "at": it[3]}))
            i += 1
            continue
        i += 1
    return fields


def check_reader_variant(spec, variant, layouts):
    tag, want = spec
    problems = []
    Ls = [L for L in layouts if L["variant"] == variant]
    if not Ls:
        return ["no reader path builds this variant for tag 0x%02X" % tag]
    for L in Ls:
        if L["tag_width"] != 1:
            problems.append("tag is read as %d bytes" % L["tag_width"])
        fl = parse_reader(L)
        if variant == "Boolean":
            # one byte, 0 → false, 1 → true
            if len(fl) != 1 or fl[0][0] != "prim" or fl[0][2]["bytes"] != 1:
                problems.append("boolean payload is not one byte")
            continue
        if len(fl) != len(want):
            problems.append("reads %d field(s) after the tag, S3 has %d %s" % (len(fl), len(want), want))
            continue
        for (kind, dst, d), (wp, wf) in zip(fl, want):
            if wp in ("u8", "u16", "u32", "i32"):
                if kind != "prim":
                    problems.append("field `%s` is read as a sequence" % wf)
                    continue
                if d["bytes"] != WIDTH[wp]:
                    problems.append("field `%s` is read as %d byte(s), S3 says %s" % (wf, d["bytes"], wp))
                dec = d["dec"]
                if dec is None or dec[0] != wp or (dec[1] != "le" and WIDTH[wp] > 1):
                    problems.append("field `%s` is decoded as %s, S3 says %s little-endian" % (wf, dec, wp))
                if dec and WIDTH.get(dec[0]) != d["bytes"]:
                    problems.append("field `%s`: %d byte(s) read but decoded as %s" % (wf, d["bytes"], dec[0]))
                if dst != wf:
                    problems.append("the %s read at the position of `%s` ends up in `%s` (field order differs from S3)" % (wp, wf, dst))
                elif dec is not None and d.get("wrapped"):
                    problems.append("the value decoded for `%s` passes through `%s` before it is stored: the field does not hold the number in the file" % (wf, d["wrapped"]))
            elif wp in ("utf8", "u16vec", "code"):
                want_count = {"utf8": ("u32", 4), "u16vec": ("u16", 2), "code": ("u32", 4)}[wp]
                want_elem = {"utf8": "r1", "u16vec": "r2", "code": "sub:opcode"}[wp]
                if kind != "counted":
                    problems.append("`%s` is not read as count + elements" % wf)
                    continue
                if d["count_bytes"] != want_count[1] or not d["count_dec"] or d["count_dec"][0] != want_count[0] or d["count_dec"][1] != "le":
                    problems.append("count of `%s` is read as %s/%d byte(s), S3 says %s little-endian" % (wf, d["count_dec"], d["count_bytes"], want_count[0]))
                if d.get("count_wrapped"):
                    problems.append("the number of elements of `%s` that are read is the file's count passed through `%s`, not the count itself: a file with more elements is not read to the end of the sequence" % (wf, d["count_wrapped"]))
                if d["elem"] != want_elem:
                    problems.append("elements of `%s` are read as %s, S3 says %s" % (wf, d["elem"], want_elem))
                if wp == "u16vec" and d["elem_dec"] != ("u16", "le"):
                    problems.append("elements of `%s` decoded as %s" % (wf, d["elem_dec"]))
                if wp == "utf8" and d["elem_dec"] and d["elem_dec"][0] != "u8":
                    problems.append("string bytes decoded as %s" % (d["elem_dec"],))
                if not d["in_order"] or not d["forward"]:
                    problems.append("elements of `%s` are not stored in the order read" % wf)
                ft = dict(L["term"][3]).get(wf)
                if ft is not None:
                    bad = [h for h in ("collect_into", "reversed", "sorted", "dedup") if _has_head(ft, h)]
                    if bad:
                        problems.append("the sequence read for `%s` passes through %s before it is stored: order / multiplicity of the elements in the file is not preserved" % (
                            wf, "/".join(bad)))
    return sorted(set(problems))
