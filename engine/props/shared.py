"""Rules shared by several properties (taint of CLI numerics, arithmetic classification, …)."""
import os
import tomllib

from .. import facts as F
from ..facts import walk_body, walk, peel, callee_def, loc, callee_name
from ..census import INT_TYPES, local_of


def ordinal(hb, node):
    """ordinal position of `node` among nodes of the same kind+name in its body (stable key part)"""
    def sig(n):
        return (n.get("k"), n.get("name") or (n.get("callee") or {}).get("def") or n.get("op"))
    s = sig(node)
    i = 0
    for n, _ in walk_body(hb):
        if n is node:
            return i
        if sig(n) == s:
            i += 1
    return i


# --------------------------------------------------------------------------- CLI taint

_taint_cache = {}


def _cli_int_fields(fx):
    """(adt, field) of integer-typed fields of the clap argument structs."""
    out = set()
    for path, adt in fx.adts.items():
        if not adt.get("in_src"):
            continue
        derives_clap = any(imp.get("self_adt") == path and (imp.get("trait") or "").startswith("clap::")
                           for imp in fx.impls)
        if not derives_clap:
            continue
        for v in adt["variants"]:
            for f in v["fields"]:
                if f["ty"] in INT_TYPES:
                    out.add((path, f["name"]))
    return out


def _compute_taint(fx, cg):
    seeds = _cli_int_fields(fx)
    tainted_params = set()  # (did, index)
    body_taint = {}         # did -> set(lid)

    def expr_tainted(n, tl):
        for x, _ in walk(n):
            if x.get("k") == "Field" and (x.get("adt"), x.get("name")) in seeds:
                return True
            if x.get("k") == "Path" and x["res"].get("k") == "Local" and x["res"]["lid"] in tl:
                return True
        return False

    changed = True
    rounds = 0
    while changed and rounds < 20:
        changed = False
        rounds += 1
        for hb in fx.hir:
            if hb["from_expansion"]:
                continue
            did = hb["did"]
            tl = set(body_taint.get(did, ()))
            for i, p in enumerate(hb["params"]):
                if (did, i) in tainted_params and p.get("k") == "Binding":
                    tl.add(p["lid"])
            # forward pass: let-bindings of tainted expressions
            for n, ps in walk_body(hb):
                if n.get("k") == "Block":
                    for st in n["block"]["stmts"]:
                        if st["k"] == "Let" and "init" in st and st["pat"].get("k") == "Binding":
                            if expr_tainted(st["init"], tl):
                                tl.add(st["pat"]["lid"])
                if n.get("k") in ("Call", "MethodCall") and n.get("callee"):
                    c = n["callee"]
                    tgt = c.get("inst_did") if c.get("inst_local") else (c.get("did") if c.get("local") else None)
                    if not tgt:
                        continue
                    args = ([n["recv"]] if n["k"] == "MethodCall" else []) + n["args"]
                    for i, a in enumerate(args):
                        if expr_tainted(a, tl) and (tgt, i) not in tainted_params:
                            tainted_params.add((tgt, i))
                            changed = True
            if tl != body_taint.get(did, set()):
                body_taint[did] = tl
                changed = True
    return seeds, body_taint, tainted_params


def cli_taint(fx, cg):
    key = id(fx)
    if key not in _taint_cache:
        _taint_cache[key] = _compute_taint(fx, cg)
    return _taint_cache[key]


def cli_tainted_locals(fx, cg, hb):
    seeds, body_taint, _ = cli_taint(fx, cg)
    return seeds, body_taint.get(hb["did"], set())


def classify_arith(fx, hb, n, prim, tainted):
    """-> ("value", why) when the operation's operands are FML values / CLI numerics;
    otherwise (exempt class, why)."""
    seeds, tl = tainted
    operands = [n.get("lhs"), n.get("rhs"), n.get("e")]
    for o in operands:
        if o is None:
            continue
        for x, _ in walk(o):
            if x.get("k") == "Field" and (x.get("adt"), x.get("name")) in seeds:
                return "value", "the command-line number `%s`" % x["name"]
            if x.get("k") == "Path" and x["res"].get("k") == "Local" and x["res"]["lid"] in tl:
                return "value", "`%s`, which carries a command-line number" % x["res"]["name"]
    if prim == "i32":
        return "value", "i32 operands (FML integer payloads)"
    if prim in ("i8", "i16", "i64", "i128", "isize"):
        return "value", "%s operands (signed values)" % prim
    why = "%s arithmetic on " % prim
    srcs = []
    for o in operands:
        if o is None:
            continue
        o = peel(o)
        if o.get("k") == "Lit":
            srcs.append("a constant")
        elif o.get("k") == "MethodCall":
            srcs.append("." + o["name"] + "()")
        elif o.get("k") == "Field":
            srcs.append("field `%s`" % o["name"])
        elif o.get("k") == "Path" and o["res"].get("k") == "Local":
            srcs.append("`%s`" % o["res"]["name"])
        else:
            srcs.append(o.get("k", "?"))
    return "index/length/counter", why + " and ".join(srcs) + " (bounded by allocated memory / collection sizes)"


# --------------------------------------------------------------------------- Cargo profile


def cargo_toml():
    p = os.path.join(F.REPO, "Cargo.toml")
    with open(p, "rb") as f:
        return tomllib.load(f)


def cargo_profile_neutral():
    t = cargo_toml()
    prof = t.get("profile", {})
    bad = []
    for name, p in prof.items():
        if isinstance(p, dict) and p.get("panic") == "abort":
            bad.append("[profile.%s] panic = \"abort\"" % name)
    if bad:
        return False, "?", "; ".join(bad)
    return True, "Cargo.toml", "no profile sets panic=abort (profiles: %s)" % (", ".join(prof) or "defaults")


def cargo_profiles_agree():
    """(ok, detail): the dev and release profiles agree on the settings that change what a *failing* run prints:
    panic strategy (abort skips the exit-time flush of stdout and changes the exit status)."""
    t = cargo_toml()
    prof = t.get("profile", {})

    def setting(name, key, default, seen=()):
        p = prof.get(name, {})
        if key in p:
            return p[key]
        inh = p.get("inherits")
        if inh and inh not in seen:
            return setting(inh, key, default, seen + (name,))
        return default
    diffs = []
    names = sorted(set(prof) | {"dev", "release"})
    vals = {n: setting(n, "panic", "unwind") for n in names if n in ("dev", "release") or "inherits" in prof.get(n, {})}
    if len(set(vals.values())) > 1:
        diffs.append("panic strategy differs between profiles: %s" % vals)
    return not diffs, "; ".join(diffs) or "profiles agree on the panic strategy (%s)" % vals


# --------------------------------------------------------------------------- Result discipline

RESULT = "std::result::Result"
BAD_USES = {"discarded", "discard_method", "unused_binding"}


def _is_result(fx, n):
    t = fx.ty(n) or ""
    return t.startswith("std::result::Result<")


def _pat_covers_err(p):
    k = p.get("k")
    if k in ("Wild", "Binding"):
        return True
    if k == "TupleStruct" or k == "Struct" or k == "Path":
        return (p.get("res") or {}).get("variant") == "Err"
    if k == "Or":
        return any(_pat_covers_err(x) for x in p["pats"])
    if k == "Ref":
        return _pat_covers_err(p["pat"])
    return False


def _pat_is_ok(p):
    k = p.get("k")
    if k in ("TupleStruct", "Struct", "Path"):
        return (p.get("res") or {}).get("variant") == "Ok"
    if k == "Ref":
        return _pat_is_ok(p["pat"])
    return False


def _is_failing_value(fx, b):
    """The expression cannot complete normally with a success value: it diverges, or it is an
    `Err(..)`, or a fallible expression other than a literal `Ok(..)`."""
    b0 = peel(b)
    t = fx.ty(b0) or fx.ty(b) or ""
    if t == "!":
        return _diverges_failing(fx, b0)
    if b0.get("k") == "Block":
        blk = b0["block"]
        if "expr" in blk:
            return _is_failing_value(fx, blk["expr"])
        # block without tail: diverges if last stmt is a never-typed expression
        if blk["stmts"]:
            last = blk["stmts"][-1]
            if last["k"] in ("Semi", "Expr"):
                return (fx.ty(last["e"]) or "") == "!"
        return False
    if b0.get("k") == "Call" and (b0.get("ctor") or {}).get("variant") == "Err":
        return True
    if b0.get("k") == "Call" and (b0.get("ctor") or {}).get("variant") == "Ok":
        return False
    if b0.get("k") == "Ret":
        return "e" in b0 and _is_failing_value(fx, b0["e"])
    if b0.get("k") in ("Break", "Continue"):
        return False
    if t.startswith("std::result::Result<"):
        return True  # some other fallible expression (propagates what it got)
    return False


def _diverges_failing(fx, b):
    """A never-typed expression: it fails unless it leaves through `return <success>`, break or continue."""
    def rec(n):
        k = n.get("k")
        if k == "Closure":
            return True
        if k == "Ret":
            return "e" in n and _is_failing_value(fx, n["e"])
        if k in ("Break", "Continue"):
            return False
        from ..facts import children
        return all(rec(c) for _, c in children(n))
    return rec(b)


def _is_interrupted_retry(arm):
    """`Err(ref e) if e.kind() == ErrorKind::Interrupted => continue` (or an empty body at the end of the loop body)"""
    from ..facts import walk
    g = arm.get("guard")
    if g is None:
        return False
    mentions = any((x.get("k") == "Path" and ((x.get("res") or {}).get("variant") == "Interrupted" or str((x.get("res") or {}).get("path", "")).endswith("ErrorKind::Interrupted")))
                   for x, _ in walk(g))
    kind_call = any(x.get("k") == "MethodCall" and x.get("name") == "kind" for x, _ in walk(g))
    body = peel(arm["body"])
    if body.get("k") == "Block" and not body["block"]["stmts"] and "expr" in body["block"]:
        body = peel(body["block"]["expr"])
    is_continue = body.get("k") == "Continue" or (body.get("k") == "Block" and not body["block"]["stmts"] and "expr" not in body["block"]) or (body.get("k") == "Tup" and not body.get("elems"))
    return mentions and kind_call and is_continue


def swallowing_arms(fx, use):
    """For a `matched` use of a Result: the arms / branches that turn Err into normal completion."""
    n = use.node
    out = []
    if n.get("k") == "Match":
        for arm in n["arms"]:
            if _pat_covers_err(arm["pat"]) and not _is_failing_value(fx, arm["body"]):
                if _is_interrupted_retry(arm):
                    continue      # std's own idiom: an interrupted call did nothing and is simply issued again
                out.append((arm, "arm `%s` completes normally on Err" % (arm["pat"].get("k"))))
    elif n.get("k") == "Let":  # `if let` / `while let` — parents decide
        pat = n["pat"]
        if _pat_is_ok(pat):
            out.append((n, "`if let Ok(..)`/`while let Ok(..)` ignores the Err case"))
    elif n.get("k") == "Let" or "pat" in n:
        pass
    return out


def result_discipline(ck, fx, hb, rule, keyfn=None):
    """One obligation per fallible call in the body: its Result is propagated / checked / handled.
    Returns the number of Result-typed expressions examined."""
    from ..valueflow import final_uses
    value = hb["value"]
    examined = 0
    for n, ps in walk_body(hb):
        if not _is_result(fx, n):
            continue
        examined += 1
        k = n.get("k")
        uses = final_uses(n, ps, value)
        bad = [u for u in uses if u.kind in BAD_USES]
        detail_bad = ["%s" % (u.detail or u.kind) for u in bad]
        for u in uses:
            if u.kind == "matched":
                # `if let Ok(x) = r {..} else {failing}` is fine: look at the If that owns the Let
                sw = swallowing_arms(fx, u)
                if sw and u.node.get("k") == "Let":
                    owner = _owning_if(hb, u.node)
                    if owner is not None and "else" in owner and _is_failing_value(fx, owner["else"]):
                        sw = []
                for arm, why in sw:
                    detail_bad.append(why)
        if detail_bad or k in ("MethodCall", "Call"):
            short = ("." + n["name"]) if k == "MethodCall" else ((n.get("callee") or {}).get("name") or (n.get("ctor") or {}).get("variant") or k)
            key = "%s|%s#%d" % (hb["path"], short, ordinal(hb, n))
            ck.ob(rule, key, not detail_bad, loc(n),
                  ("Result consumed by " + ", ".join(sorted({u.kind for u in uses}))) if not detail_bad else
                  ("failure is lost: " + "; ".join(detail_bad)))
    return examined


def _owning_if(hb, let_node):
    for n, ps in walk_body(hb):
        if n.get("k") == "If":
            for x, _ in walk(n["cond"]):
                if x is let_node:
                    return n
    return None


# --------------------------------------------------------------------------- how output files are opened

def write_opens(fx, hb):
    """(node, verdict, why) for every call in the body that opens a file for writing.
    verdict True = the file is created/truncated (File::create, create_new, or OpenOptions with truncate(true))."""
    out = []
    for n, ps in walk_body(hb):
        if n.get("k") not in ("Call", "MethodCall") or not n.get("callee"):
            continue
        cd = (n["callee"].get("def") or "")
        if cd == "std::fs::File::create" or cd == "std::fs::File::create_new":
            out.append((n, True, cd))
        elif cd in ("std::fs::OpenOptions::open", "std::fs::File::options"):
            if cd.endswith("::options"):
                continue
            # walk the builder chain
            chain = []
            x = n
            while x.get("k") == "MethodCall":
                chain.append((x["name"], x["args"]))
                x = peel(x["recv"])
            names = {c[0]: c[1] for c in chain}

            def flag(name):
                a = names.get(name)
                return bool(a) and peel(a[0]).get("k") == "Lit" and peel(a[0])["lit"].get("v") is True
            writes = flag("write") or flag("append") or flag("create") or flag("create_new")
            if not writes:
                continue
            ok = flag("truncate") or flag("create_new")
            out.append((n, ok, "OpenOptions{%s}" % ", ".join(sorted(k for k in names if k not in ("open",)))))
        elif cd == "std::fs::write":
            out.append((n, True, cd))
    return out


# --------------------------------------------------------------------------- chunk-wise text decoding

DECODERS = ("std::string::String::from_utf8_lossy", "std::string::String::from_utf8", "std::str::from_utf8", "core::str::from_utf8",
            "std::string::String::from_utf8_unchecked", "std::str::from_utf8_unchecked", "core::str::from_utf8_unchecked",
            "std::string::String::from_utf8_lossy_owned", "std::string::String::from_utf16", "std::string::String::from_utf16_lossy",
            "core::str::converts::from_utf8", "core::str::converts::from_utf8_unchecked", "core::str::<impl str>::from_utf8",
            "core::str::<impl str>::from_utf8_unchecked", "std::str::<impl str>::from_utf8")
PARTIAL_READS = ("std::io::Read::read", "std::io::BufRead::fill_buf", "std::io::Read::read_vectored", "std::io::Read::read_buf")


def chunked_decodes(fx, hb):
    """bytes→text decoding calls applied to a piece of the input rather than to all of it: the call sits inside a
    loop, or in a body that obtains its bytes through a partial-read API (read / fill_buf). A multi-byte character
    that straddles two pieces is then decoded wrongly (replaced, or rejected) although the whole input is valid."""
    partial = [n for n, ps in walk_body(hb) if n.get("k") in ("Call", "MethodCall") and n.get("callee") and (n["callee"].get("def") or "") in PARTIAL_READS]
    out = []
    for n, ps in walk_body(hb):
        if n.get("k") not in ("Call", "MethodCall") or not n.get("callee"):
            continue
        cd = n["callee"].get("def") or ""
        if cd not in DECODERS:
            continue
        in_loop = any(p.get("k") == "Loop" for role, p in ps)
        if in_loop or partial:
            out.append((n, cd, "inside a loop" if in_loop else "after a partial read (%s)" % (partial[0]["callee"].get("def"))))
    return out


# --------------------------------------------------------------------------- transparent input readers

TRANSPARENT_WRAPPERS = ("std::boxed::Box::<T>::new", "std::io::BufReader::<R>::new", "std::io::BufReader::<R>::with_capacity")
RAW_SOURCES_TY = ("std::fs::File", "std::io::Stdin", "std::io::StdinLock")
WHOLE_READS = ("std::fs::read",)


def reader_transparency(fx, adt="NamedSource", field="source"):
    """[(where, ok, why)] for every place that builds the CLI's input reader: what is stored in `adt.field` must be
    the file / stdin itself under byte-transparent wrappers (Box, BufReader), or a Cursor over the bytes exactly as
    they were read (fs::read / read_to_end into a vector nothing else touches). Any other expression may change the
    bytes before the bytecode loader / the parser sees them."""
    from ..facts import walk
    out = []
    for hb in fx.hir:
        if hb["from_expansion"]:
            continue
        for n, ps in walk_body(hb):
            if n.get("k") == "Struct" and (n.get("res") or {}).get("path") == adt:
                for f in n["fields"]:
                    if f["name"] != field:
                        continue
                    ok, why = _transparent(fx, hb, f["e"])
                    out.append((hb["path"], loc(n), ok, why))
            if n.get("k") == "Assign" and peel(n["lhs"]).get("k") == "Field" and peel(n["lhs"])["name"] == field and peel(n["lhs"]).get("adt") == adt:
                ok, why = _transparent(fx, hb, n["rhs"])
                out.append((hb["path"], loc(n), ok, why))
    return out


def _transparent(fx, hb, e):
    e = peel(e)
    while e.get("k") in ("Cast", "Use", "DropTemps", "Type"):
        e = peel(e["e"])
    k = e.get("k")
    if k == "Call":
        cd = (e.get("callee") or {}).get("def") or ""
        if cd in TRANSPARENT_WRAPPERS:
            return _transparent(fx, hb, e["args"][-1])
        if cd in ("std::io::Cursor::<T>::new",):
            return _raw_bytes(fx, hb, e["args"][0])
        if cd in ("std::io::stdin", "std::fs::File::open"):
            return True, cd
        return False, "built by %s" % (cd or "an unresolved call")
    ty = fx.ty(e) or ""
    if k == "Path" and e["res"].get("k") == "Local" and ty.startswith(RAW_SOURCES_TY):
        return True, "a %s" % ty
    if k == "Path" and e["res"].get("k") == "Local":
        lid = e["res"]["lid"]
        uses = [n for n, _ in walk_body(hb) if n.get("k") == "Path" and (n.get("res") or {}).get("k") == "Local" and n["res"].get("lid") == lid]
        if len(uses) != 1:
            return False, "a reader (`%s`) that is used %d more time(s) before it is stored — anything that reads, peeks or consumes from it changes what the stage sees" % (
                e["res"].get("name"), len(uses) - 1)
        # a parameter of a (constructor) function: what every caller passes
        pidx = [i for i, p in enumerate(hb.get("params", [])) if p.get("k") == "Binding" and p.get("lid") == lid]
        if pidx:
            sites = []
            for cb in fx.hir:
                if cb["from_expansion"]:
                    continue
                for n, _ in walk_body(cb):
                    if n.get("k") == "Call" and (n.get("callee") or {}).get("did") == hb["did"] and len(n["args"]) > pidx[0]:
                        sites.append((cb, n["args"][pidx[0]]))
            if not sites:
                return False, "a parameter of %s, which nothing calls" % hb["path"]
            for cb, a in sites:
                okc, whyc = _transparent(fx, cb, a)
                if not okc:
                    return False, "passed in by %s: %s" % (cb["path"], whyc)
            return True, "passed in by %d caller(s), each time the file / stdin under Box / BufReader" % len(sites)
        # a local bound once to a transparent expression
        for n, _ in walk_body(hb):
            if n.get("k") == "Block":
                for st in n["block"]["stmts"]:
                    if st["k"] == "Let" and st["pat"].get("k") == "Binding" and st["pat"].get("lid") == lid and "init" in st:
                        return _transparent(fx, hb, st["init"])
    if k == "MethodCall":
        cd = (e.get("callee") or {}).get("def") or ""
        if cd in ("std::io::Stdin::lock",):
            return _transparent(fx, hb, e["recv"])
        return False, "built by %s" % (cd or e.get("name"))
    return False, "an expression of type %s that is not the file / stdin under Box / BufReader" % (ty or "?")


def _raw_bytes(fx, hb, e):
    """the bytes under a Cursor are exactly what was read"""
    e = peel(e)
    if e.get("k") in ("Call", "MethodCall"):
        cd = (e.get("callee") or {}).get("def") or ""
        if cd in WHOLE_READS:
            return True, "Cursor over %s" % cd
        # `fs::read(p)?` / `.expect()` around it
        if e.get("k") == "MethodCall" and e["name"] in ("expect", "unwrap"):
            return _raw_bytes(fx, hb, e["recv"])
        return False, "Cursor over the result of %s" % (cd or e.get("name"))
    if e.get("k") == "Match" and e.get("src") == "TryDesugar":
        inner = peel(e["scrut"])
        if inner.get("k") == "Call" and inner.get("args"):
            return _raw_bytes(fx, hb, inner["args"][0])
    if e.get("k") == "Path" and e["res"].get("k") == "Local":
        lid = e["res"]["lid"]
        others = []
        filled = False
        for n, ps in walk_body(hb):
            if n.get("k") == "Path" and n["res"].get("k") == "Local" and n["res"]["lid"] == lid and n is not e:
                call = None
                for role, p in reversed(ps):
                    if p.get("k") in ("Call", "MethodCall"):
                        call = p
                        break
                    if p.get("k") in ("Block", "Closure"):
                        break
                cd = ((call or {}).get("callee") or {}).get("def") or ""
                if cd == "std::io::Read::read_to_end":
                    filled = True
                else:
                    others.append(cd or (call or {}).get("name") or "use")
        if filled and not others:
            return True, "Cursor over the vector filled by read_to_end"
        return False, "Cursor over a vector that is %s" % ("also used by %s" % others if others else "not filled by read_to_end")
    return False, "Cursor over a computed value"


# --------------------------------------------------------------------------- the loader is handed the reader untouched

def bc_deserialize_plain(fx, A):
    """(ok, where, why): the BYTES deserializer is a thin forwarder — its only call is Program::from_bytes, on the reader
    it was given; nothing else looks at (or skips over) input bytes first."""
    b = fx.body(A.get("cli.bc.deserialize"))
    if b is None:
        return None, "", "anchor missing"
    calls = []
    for n, ps in walk_body(b):
        if n.get("k") in ("Call", "MethodCall") and n.get("callee"):
            cn = callee_name(n) or ""
            if cn.startswith(("core::panicking", "std::rt::", "core::fmt", "std::fmt")) or "unimplemented" in cn or "panic" in cn:
                continue
            calls.append((cn, n))
    fb = A.get("program.from_bytes")
    ok = len(calls) == 1 and calls[0][0] == fb
    why = "calls: %s" % [c for c, _ in calls]
    if ok:
        # the reader argument is the function's own parameter
        n = calls[0][1]
        arg = peel(n["args"][-1]) if n.get("args") else {}
        while arg.get("k") in ("AddrOf", "Unary"):
            arg = peel(arg["e"])
        params = set()
        for q in b["params"]:
            if q.get("k") == "Binding":
                params.add(q["lid"])
        ok = arg.get("k") == "Path" and (arg.get("res") or {}).get("k") == "Local" and arg["res"]["lid"] in params
        why = "Program::from_bytes is applied to %s" % ("the reader it was given" if ok else "something other than the given reader")
    return ok, loc(b), why


# --------------------------------------------------------------------------- the parser's AST constructors are plain

CTOR_VARIANT = {
    "integer": "Integer", "boolean": "Boolean", "null": "Null", "variable": "Variable", "array": "Array", "object": "Object",
    "access_variable": "AccessVariable", "access_field": "AccessField", "access_array": "AccessArray",
    "assign_variable": "AssignVariable", "assign_field": "AssignField", "assign_array": "AssignArray",
    "function": "Function", "operator": "Function", "call_function": "CallFunction", "call_method": "CallMethod",
    "call_operator": "CallMethod", "operation": "CallMethod", "top": "Top", "block": "Block", "loop_de_loop": "Loop",
    "conditional": "Conditional", "print": "Print",
}


def ast_constructors(fx, only=None):
    """[(ctor fn, ok, why)] — every `AST::<ctor>(..)` helper the grammar's actions call returns, on every path, a node of
    the kind its name says, built from its parameters (no case analysis on the children, no node dropped or replaced):
    `begin .. end` is always a Block, `a op b` always a method call, an `if` always a Conditional."""
    from ..compile_scheme import run_function
    out = []
    for name, variant in sorted(CTOR_VARIANT.items()):
        if only is not None and name not in only:
            continue
        path = "parser::AST::" + name
        b = fx.body(path)
        if b is None:
            continue          # constructor not present in this tree (nothing to check)
        args = [("var", q.get("name") or "p%d" % i) for i, q in enumerate(b["params"])]
        try:
            ex, paths = run_function(fx, path, args)
        except Exception as e:  # noqa
            out.append((name, False, "cannot execute symbolically (unprovable): %s" % str(e)[:100]))
            continue
        vals = [p["out"][1] for p in paths if p["out"][0] == "val"]
        if not vals:
            out.append((name, False, "no normal path"))
            continue
        bad = [v for v in vals if not (isinstance(v, tuple) and v and v[0] == "ctor" and v[1] == "parser::AST" and v[2] == variant)]
        if bad:
            v = bad[0]
            what = "AST::%s" % v[2] if isinstance(v, tuple) and v and v[0] == "ctor" else "one of its own arguments / another value"
            out.append((name, False, "%d of %d path(s) do not build AST::%s (e.g. %s): the parser drops or replaces the node, so the tree is not the one the source denotes" % (
                len(bad), len(vals), variant, what)))
            continue
        out.append((name, True, "%d path(s), each builds AST::%s from the arguments" % (len(vals), variant)))
    return out


# --------------------------------------------------------------------------- presuppositions taken from a sibling rule set

def presuppose(ck, fx, cg, sibling, pick, rule, title, floor=1):
    """Evaluate the sibling property's rule set and report the obligations selected by `pick(oblig)` as ONE obligation of
    this property (a structural fact this property's statement rests on)."""
    import importlib
    from ..core import Check, load_known
    known = load_known()
    mod = importlib.import_module("engine.props.%s" % sibling.lower())
    sub = Check(sibling, ck.tier, ck.seed)
    try:
        mod.run(sub, fx, cg, "quick")
    except Exception as e:  # noqa
        ck.ob(rule, title, False, "", "%s's rules could not be evaluated: %s: %s" % (sibling, type(e).__name__, e))
        return
    sel = [o for o in sub.obligs if pick(o)]
    bad = [o for o in sel if not o["ok"] and (sibling, "%s|%s" % (o["rule"], o["key"])) not in known]
    ck.ob(rule, title, not bad, bad[0]["where"] if bad else "",
          "%d obligation(s) of %s hold" % (len(sel), sibling) if not bad else
          "%d obligation(s) of %s violated, first: %s %s — %s" % (len(bad), sibling, bad[0]["rule"], bad[0]["key"], bad[0]["detail"][:220]))
    ck.floor(rule, "%s obligations evaluated for `%s`" % (sibling, title), len(sel), floor)


def fn_at(fx, at):
    """the local function whose body contains source position `file:line` (closures belong to their function)"""
    try:
        f, l = at.rsplit(":", 1)[0], int(at.rsplit(":", 1)[1])
    except (ValueError, IndexError, AttributeError):
        try:
            f, l, _ = at.rsplit(":", 2)
            l = int(l)
        except Exception:
            return None
    best = None
    for hb in fx.hir_by_did.values():
        sp = hb.get("span") or {}
        if sp.get("f") == f and sp.get("l", 10 ** 9) <= l and hb.get("dk") in ("Fn", "AssocFn"):
            if best is None or sp["l"] > best["span"]["l"]:
                best = hb
    return best


def effective_callers(fx, cg, did, roots, depth=3):
    """who calls `did`, looking *through* private helper functions: a caller that is not one of `roots` and is a private
    (non-`pub`) function of the crate is replaced by its own callers (up to `depth` levels). Extracting
    `fn allocate_and_push(..)` out of two handlers leaves the effective callers what they were."""
    out = set()
    seen = set()

    def up(d, k):
        for c in cg.callers_of(d):
            p = cg.path[c]
            if "::{closure#" in p:
                # a closure calls on behalf of the function it is written in
                parent = p.split("::{closure#", 1)[0]
                pd = [x for x in cg.dids_of(parent)] if hasattr(cg, "dids_of") else []
                if parent in roots or not pd:
                    out.add(parent)
                    continue
                c = pd[0]
                p = parent
            hb = fx.hir_by_did.get(c)
            private = hb is not None and hb.get("vis") not in ("Public",) and hb.get("dk") in ("Fn", "AssocFn") and not hb.get("from_expansion")
            if p in roots or not private or k == 0 or c in seen:
                out.add(p)
            else:
                seen.add(c)
                before = len(out)
                up(c, k - 1)
                if len(out) == before and not cg.callers_of(c):
                    out.add(p)      # an uncalled helper stays visible
    up(did, depth)
    return out


def partial_source_readers(fx, adt="NamedSource", field="source"):
    """[(function, where, ok, why)] — who reads from the CLI's input besides its consumer: the reader stored in
    `adt.field` may be touched by the forwarding `Read` / `BufRead` impls of the type (checked to be plain forwards
    elsewhere) and by whole-input reads (`read_to_string`, `read_to_end`). Any other function that reads, peeks
    (`fill_buf`), consumes or seeks it takes bytes away from the stage that is meant to see them — on a throw-away second
    handle of stdin whatever it buffers is lost."""
    from ..census import field_uses
    out = []
    for b, n, ps, ctx in field_uses(fx, adt, field):
        if b["from_expansion"]:
            continue
        if not (ctx["kind"] in ("recv", "arg", "addr_of_mut") and ctx.get("mut")):
            continue
        m = ctx.get("method") or ctx["kind"]
        in_forwarder = b["path"].startswith("<%s as std::io::Read>::" % adt) or b["path"].startswith("<%s as std::io::BufRead>::" % adt)
        whole = m in ("read_to_string", "read_to_end")
        ok = in_forwarder or whole
        out.append((b["path"], loc(n), ok, ("forwarding impl" if in_forwarder else "whole-input read .%s()" % m) if ok else
                    "`.%s()` on the input outside the forwarding impls: it reads / peeks bytes the consumer of this input will not see again" % m))
    return out
