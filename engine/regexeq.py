"""Regular-language equivalence of lexer regexes over an abstract alphabet (E4).

The alphabet is partitioned into representative characters; every regex atom (literal, class,
escape, dot) denotes a set of representatives. Regexes are compiled to NFAs (Thompson), made
deterministic by subset construction and compared by product reachability. No regex engine runs
on program input; this decides language equality of two patterns over the abstraction."""

REPS = ["*", "/", "\n", "\r", '"', "\\", "~", "n", "t", "r", "0", "9", "a", "Z", "_", "-", " ", "\t", "#", ".", "é", "e", "E", "+", "(", "=", "'",
        "\x0c",        # the ASCII white space other than space/tab/CR/LF (form feed, vertical tab)
        "\u00a0"]      # white space outside ASCII (NEL, NBSP, U+2028, U+3000 …): `\s` is Unicode White_Space in the lexer's regex dialect
WS = {" ", "\t", "\n", "\r", "\x0c", "\u00a0"}
DIGITS = {"0", "9"}
LOWER = {"n", "t", "r", "a", "e"}
UPPER = {"Z", "E"}


def class_of_range(lo, hi):
    out = set()
    for r in REPS:
        if r in DIGITS and lo <= "0" and hi >= "9":
            out.add(r)
        elif r in LOWER and lo <= "a" and hi >= "z":
            out.add(r)
        elif r in UPPER and lo <= "A" and hi >= "Z":
            out.add(r)
        elif len(r) == 1 and lo <= r <= hi and (lo, hi) not in (("0", "9"), ("a", "z"), ("A", "Z")):
            out.add(r)
    return out


class P:
    def __init__(self, s):
        self.s = s
        self.i = 0

    def peek(self):
        return self.s[self.i] if self.i < len(self.s) else None

    def eat(self):
        c = self.s[self.i]
        self.i += 1
        return c

    def parse(self):
        r = self.alt()
        if self.i != len(self.s):
            raise ValueError("trailing regex input at %d in %r" % (self.i, self.s))
        return r

    def alt(self):
        branches = [self.concat()]
        while self.peek() == "|":
            self.eat()
            branches.append(self.concat())
        return ("alt", branches) if len(branches) > 1 else branches[0]

    def concat(self):
        items = []
        while self.peek() is not None and self.peek() not in "|)":
            items.append(self.repeat())
        return ("cat", items)

    def repeat(self):
        a = self.atom()
        while self.peek() in ("*", "+", "?"):
            op = self.eat()
            a = ({"*": "star", "+": "plus", "?": "opt"}[op], a)
        return a

    def escape(self):
        c = self.eat()
        if c == "s":
            return set(WS)
        if c == "d":
            return set(DIGITS)
        if c == "w":
            return set(DIGITS) | LOWER | UPPER | {"_"}
        m = {"n": "\n", "r": "\r", "t": "\t"}
        return {m.get(c, c)}

    def atom(self):
        c = self.eat()
        if c == "(":
            if self.s.startswith("?:", self.i):
                self.i += 2
            r = self.alt()
            if self.eat() != ")":
                raise ValueError("unbalanced group")
            return r
        if c == "[":
            neg = False
            if self.peek() == "^":
                neg = True
                self.eat()
            members = set()
            first = True
            while self.peek() != "]" or first:
                first = False
                ch = self.eat()
                if ch == "\\":
                    members |= self.escape()
                    continue
                if self.peek() == "-" and self.i + 1 < len(self.s) and self.s[self.i + 1] != "]":
                    self.eat()
                    hi = self.eat()
                    members |= class_of_range(ch, hi)
                else:
                    members.add(ch)
            self.eat()
            if neg:
                members = set(REPS) - members
            return ("set", frozenset(m for m in members if m in REPS))
        if c == ".":
            return ("set", frozenset(set(REPS) - {"\n"}))
        if c == "\\":
            return ("set", frozenset(x for x in self.escape() if x in REPS))
        if c not in REPS:
            raise ValueError("regex literal %r is not a representative of the abstract alphabet" % c)
        return ("set", frozenset({c}))


class NFA:
    def __init__(self):
        self.n = 0
        self.eps = {}
        self.tr = {}

    def new(self):
        self.n += 1
        return self.n - 1

    def add_eps(self, a, b):
        self.eps.setdefault(a, set()).add(b)

    def add(self, a, sym_set, b):
        self.tr.setdefault(a, []).append((sym_set, b))

    def build(self, r):
        k = r[0]
        if k == "set":
            a, b = self.new(), self.new()
            self.add(a, r[1], b)
            return a, b
        if k == "cat":
            a = self.new()
            cur = a
            for it in r[1]:
                s, e = self.build(it)
                self.add_eps(cur, s)
                cur = e
            return a, cur
        if k == "alt":
            a, b = self.new(), self.new()
            for br in r[1]:
                s, e = self.build(br)
                self.add_eps(a, s)
                self.add_eps(e, b)
            return a, b
        if k in ("star", "plus", "opt"):
            s, e = self.build(r[1])
            a, b = self.new(), self.new()
            self.add_eps(a, s)
            self.add_eps(e, b)
            if k in ("star", "opt"):
                self.add_eps(a, b)
            if k in ("star", "plus"):
                self.add_eps(e, s)
            return a, b
        raise ValueError(k)

    def closure(self, states):
        out = set(states)
        todo = list(states)
        while todo:
            s = todo.pop()
            for t in self.eps.get(s, ()):
                if t not in out:
                    out.add(t)
                    todo.append(t)
        return frozenset(out)

    def step(self, states, ch):
        nxt = set()
        for s in states:
            for syms, t in self.tr.get(s, ()):
                if ch in syms:
                    nxt.add(t)
        return self.closure(nxt)


def compile_regex(pattern):
    nfa = NFA()
    s, e = nfa.build(P(pattern).parse())
    return nfa, nfa.closure({s}), e


def equivalent(p1, p2):
    """→ (True, None) or (False, witness string distinguishing the languages)"""
    n1, s1, f1 = compile_regex(p1)
    n2, s2, f2 = compile_regex(p2)
    seen = {(s1, s2): ""}
    todo = [(s1, s2)]
    while todo:
        a, b = todo.pop(0)
        w = seen[(a, b)]
        if (f1 in a) != (f2 in b):
            return False, w
        for ch in REPS:
            na, nb = n1.step(a, ch), n2.step(b, ch)
            if (na, nb) not in seen:
                seen[(na, nb)] = w + ch
                todo.append((na, nb))
    return True, None


def accepts(p, w):
    n, s, f = compile_regex(p)
    cur = s
    for ch in w:
        cur = n.step(cur, ch)
    return f in cur
