"""Symbolic rendering: what a `Display::fmt` (or any function writing to a formatter / text sink) emits, as a template.

The function is executed with E3; every write to the sink (`write!`, `writeln!`, `write_str`, `write_char`, `pad`,
calls into helpers — followed — and loops) becomes a segment:

    ("lit", text)                     fixed text
    ("arg", term, trait, spec)        a value rendered through Display/Debug with the given format spec
    ("each", iterator term, [pass, …], elem, index)     a loop; every pass is a segment list with its path condition
    ("joined", sequence term, separator)                the elements of a sequence separated by fixed text

`for (i, x) in xs.iter().enumerate() { if i > 0 { sep } item }` and `xs.iter().map(to_string).collect().join(sep)` are the
same rendering; both normalise to ("joined", xs, sep).
"""
from .symex import Executor, Client, State, lit
from .symdbg import fmt_term

SINK_WRITES = ("write_fmt", "write_str", "write_char", "pad", "write_all", "push_str", "push")


class RenderClient(Client):
    name = "render"
    inline_depth = 6

    def __init__(self, no_inline=()):
        self._no = tuple(no_inline)

    def no_inline(self, path):
        return any(x in path for x in self._no)


def _segments_of_fmt(t):
    out = []
    pieces, args = t[1], t[2]
    for p in pieces:
        if p[0] == "lit":
            out.append(("lit", p[1]))
        else:
            a = args[p[1]] if p[1] < len(args) else ("?",)
            out.append(("arg", a, p[2], p[3]))
    return out


def _merge(segs):
    out = []
    for s in segs:
        if s[0] == "lit" and out and out[-1][0] == "lit":
            out[-1] = ("lit", out[-1][1] + s[1])
        elif s[0] == "lit" and s[1] == "":
            continue
        else:
            out.append(s)
    return out


def segments(effs, sink):
    """segments written to `sink` along one path's effect list (nested loops kept as 'each')"""
    out = []
    for e in effs:
        k = e["k"]
        if k == "call" and len(e["args"]) >= 2 and e["args"][1] == sink:
            nm = e["args"][0][1].rsplit("::", 1)[-1]
            a = e["args"][2] if len(e["args"]) > 2 else None
            if nm == "write_fmt" and a is not None and a[0] == "fmt":
                out.extend(_segments_of_fmt(a))
            elif nm in ("write_str", "pad", "push_str", "write_char", "push") and a is not None:
                if a[0] == "lit" and isinstance(a[1], str):
                    out.append(("lit", a[1]))
                elif a[0] == "fmt":
                    out.extend(_segments_of_fmt(a))
                else:
                    out.append(("arg", a, "Display", ""))
            elif nm in ("width", "precision", "alternate", "fill", "sign_plus", "flags"):
                continue
            else:
                out.append(("other", nm, tuple(e["args"][2:])))
        elif k == "call" and len(e["args"]) == 3 and e["args"][2] == sink and e["args"][0][1].rsplit("::", 1)[-1] == "fmt":
            # <T as Display>::fmt(x, f) on a value whose impl is not followed
            tr = "Debug" if "Debug" in e["args"][0][1] else "Display"
            out.append(("arg", e["args"][1], tr, ""))
        elif k == "foreach":
            passes = []
            for p in e.get("paths", []):
                passes.append({"segs": _merge(segments(p["eff"], sink)), "conds": [(x["args"][0], x["args"][1]) for x in p["eff"] if x["k"] == "assume"]})
            exits = [p for p in e.get("exits", []) if not _is_sink_failure(p)]
            if any(p["segs"] for p in passes) or exits:
                out.append(("each", e["args"][0], passes, e.get("elem"), bool(exits)))
        elif k == "loop":
            inner = [s for p in e.get("paths", []) for s in segments(p["eff"], sink)]
            if inner:
                out.append(("other", "loop", ()))
    return _merge([_norm_joined(s) for s in out])


def _is_sink_failure(p):
    """an exit taken only because a write to the sink failed (`?` after write!)"""
    o = p["out"]
    return o[0] in ("ret", "val") and isinstance(o[1], tuple) and o[1][:1] == ("err",) and isinstance(o[1][1], tuple) and o[1][1][:1] == ("errof",)


def _norm_joined(s):
    if s[0] == "arg" and isinstance(s[1], tuple) and s[1][:2] == ("app", "join") and s[1][2][1][0] == "lit":
        return ("joined", s[1][2][0], s[1][2][1][1])
    if s[0] == "each" and not s[4]:
        it, passes, elem = s[1], s[2], s[3]
        if it[0] == "iter" and it[2] == "fwd" and it[3] == ("enumerate",) and len(passes) == 2:
            idx = ("sym", elem[1], "index")
            el_terms = (elem, ("app", "tuple_field", (("tuple", (idx, elem)), lit(1))))
            first = [p for p in passes if _says_first(p["conds"], idx)]
            later = [p for p in passes if _says_later(p["conds"], idx)]
            if len(first) == 1 and len(later) == 1:
                f, l = first[0]["segs"], later[0]["segs"]
                if len(f) == 1 and f[0][0] == "arg" and f[0][1] == elem and f[0][3] == "" and len(l) == 2 and l[0][0] == "lit" and l[1] == f[0]:
                    return ("joined", it[1], l[0][1])
    return s


def _says_first(conds, idx):
    for c, v in conds:
        s = fmt_term(c)
        i = fmt_term(idx)
        if s in ("gt(%s, 0)" % i, "ne(%s, 0)" % i, "ge(%s, 1)" % i) and v == lit(False):
            return True
        if s in ("eq(%s, 0)" % i, "lt(%s, 1)" % i) and v == lit(True):
            return True
    return False


def _says_later(conds, idx):
    for c, v in conds:
        s = fmt_term(c)
        i = fmt_term(idx)
        if s in ("gt(%s, 0)" % i, "ne(%s, 0)" % i, "ge(%s, 1)" % i) and v == lit(True):
            return True
        if s in ("eq(%s, 0)" % i, "lt(%s, 1)" % i) and v == lit(False):
            return True
    return False


def render_paths(fx, body, args, sink, no_inline=()):
    """[{conds, segs, out}] for every path of `body` on which all writes to the sink succeed"""
    ex = Executor(fx, RenderClient(no_inline))
    res = ex.run_body(body, list(args), State())
    out = []
    for s, o in res:
        failed = [e for e in s.eff if e["k"] == "assume_fail"]
        if failed:
            continue
        out.append({"conds": [(e["args"][0], e["args"][1]) for e in s.eff if e["k"] == "assume"], "segs": segments(s.eff, sink), "out": o, "eff": s.eff})
    return out


def template(segs, name_of):
    """flat template string: literals verbatim, every argument as {name_of(term)} ({?} when name_of gives None);
    loops that are not a recognised 'joined' make the template None"""
    tpl = ""
    for s in segs:
        if s[0] == "lit":
            tpl += s[1]
        elif s[0] == "arg":
            if s[3] not in ("", None):
                n = name_of(s[1])
                tpl += "{%s:%s}" % (n if n is not None else "?", s[3])
            else:
                n = name_of(s[1])
                tpl += "{%s}" % (n if n is not None else "?")
        elif s[0] == "joined":
            n = name_of(s[1])
            tpl += "{%s}" % (n if n is not None and s[2] == "," else "?")
        else:
            return None
    return tpl
