"""Models of std / third-party functions for the symbolic executor (DESIGN Appendix C).

model(...) returns None (no model: the executor inlines a local body or leaves the call
uninterpreted) or a list of (state, outcome)."""
from .symex import (UNIT, TRUE, FALSE, lit, is_lit, app, tnot, State, Unsupported)

IDENTITY_NAMES = {
    "to_string", "to_owned", "clone", "as_str", "as_ref", "as_mut", "deref", "deref_mut", "borrow", "borrow_mut",
    "as_slice", "as_mut_slice", "to_vec", "into_boxed", "as_bytes", "by_ref", "cloned", "copied", "as_deref", "into_string",
    "to_lowercase_noop",
}
PANIC_PREFIXES = ("core::panicking::", "std::panicking::", "std::rt::begin_panic", "std::rt::panic_fmt", "core::panic",
                  "std::process::abort", "core::option::expect_failed", "core::result::unwrap_failed",
                  "core::option::unwrap_failed", "std::rt::panic_display", "core::panicking::panic_display")

ITER_ADAPT = {"rev", "enumerate", "map", "filter", "flat_map", "zip", "chain", "take", "skip", "peekable", "filter_map",
              "flatten", "take_while", "skip_while", "step_by", "inspect", "fuse"}
ITER_START = {"iter", "iter_mut", "into_iter", "chars", "bytes", "keys", "values", "drain", "char_indices", "lines"}
ITER_DRIVE = {"collect", "for_each", "sum", "count", "all", "any", "position", "last", "fold", "find", "max", "min",
              "product", "try_for_each", "find_map", "nth", "unzip", "partition", "rposition", "max_by_key", "min_by_key"}


def _val(st, t):
    return [(st, ("val", t))]


def is_result_ty(ex, node):
    t = ex.fx.ty(node) or ""
    if t.startswith("std::result::Result<"):
        return "result"
    if t.startswith("std::option::Option<"):
        return "option"
    return None


def model(ex, path, cal, recv, args, node, st):
    name = cal.get("name") or path.rsplit("::", 1)[-1]
    d = cal.get("def") or path
    local = cal.get("inst_local") or (cal.get("local") and not cal.get("trait"))
    if local:
        return None
    allargs = ([recv] if recv is not None else []) + list(args)
    a0 = allargs[0] if allargs else None

    # ---- bool → integer conversions
    if name in ("from", "into") and len(allargs) == 1 and a0 is not None and a0[0] == "lit" and isinstance(a0[1], bool) and (
            (cal.get("self_ty") if name == "from" else (cal.get("gargs") or [None, None])[-1]) in ("u8", "u16", "u32", "u64", "usize", "i8", "i16", "i32", "i64", "isize", "u128", "i128")):
        return _val(st, lit(int(a0[1])))
    # ---- checked integer conversion: usize::try_from(n) on a signed n fails exactly when n < 0 (widths: trusted to fit —
    #      the documented quantities are i32 / u16 / u8 and the targets used are at least as wide, or the caller asserts)
    if name in ("try_from", "try_into") and len(allargs) == 1 and a0 is not None:
        tgt = cal.get("self_ty") if name == "try_from" else None
        src = (cal.get("gargs") or [None, None])[-1] if name == "try_from" else cal.get("self_ty")
        if name == "try_into":
            tgt = (cal.get("gargs") or [None, None])[-1]
        ints_u = ("u8", "u16", "u32", "u64", "usize", "u128")
        ints_s = ("i8", "i16", "i32", "i64", "isize", "i128")
        if tgt in ints_u and src in ints_s and (tgt, src) in (("usize", "i32"), ("u64", "i32"), ("u32", "i32"), ("usize", "i64"), ("u64", "i64"), ("usize", "isize"), ("u128", "i32"), ("usize", "i16"), ("usize", "i8")):
            neg = ex.binop("Lt", a0, lit(0))
            if neg == TRUE:
                return _val(st, ("err", app("try_from_error", a0)))
            if neg == FALSE:
                return _val(st, ("ok", app("cast", lit(tgt), a0)))
            s_neg = st.fork()
            ex.effect(st, "assume", (neg, FALSE), node=node)
            ex.effect(s_neg, "assume", (neg, TRUE), node=node)
            return [(st, ("val", ("ok", app("cast", lit(tgt), a0)))), (s_neg, ("val", ("err", app("try_from_error", a0))))]
    # ---- map entry API, desugared to the lookup and the insertion it stands for
    r_entry = _entry_model(ex, name, d, recv, args, node, st)
    if r_entry is not None:
        return r_entry
    # ---- panics
    if any(d.startswith(p) for p in PANIC_PREFIXES) or d in ("std::process::exit",):
        return [(st, ("panic", d))]
    if d.endswith("::must_use") or d == "std::hint::must_use" or d == "std::convert::identity":
        return _val(st, a0)
    if d in ("std::fmt::format", "alloc::fmt::format", "std::fmt::Arguments::<'a>::from_str", "std::fmt::Arguments::<'_>::from_str"):
        if a0 and a0[0] == "lit" and isinstance(a0[1], str):
            return _val(st, ("fmt", (("lit", a0[1]),), ()))
        return _val(st, a0)
    if d.endswith("Arguments::<'a>::from_str") or d.endswith("Arguments::from_str") or d.endswith("::from_str_nonconst"):
        if a0 and a0[0] == "lit":
            return _val(st, ("fmt", (("lit", a0[1]),), ()))
    if d == "std::io::Read::read_exact" and len(allargs) == 2:
        buf = allargs[1]
        n = None
        if buf[0] == "app" and buf[1] == "repeat_array" and is_lit(buf[2][1]):
            import re as _re
            m = _re.match(r"\[u8; (\d+)\]", str(buf[2][1][1]))
            n = int(m.group(1)) if m else None
        sym = ("sym", next(ex.counter), "bytes_read")
        fb = getattr(ex, "first_byte", None)
        marker = ("marker", "first read done")
        if fb is not None and n == 1 and not st.facts.get(marker):
            sym = app("array", lit(fb))          # the analysis fixes the tag byte: everything that depends on it is decided
        st.facts[marker] = True
        r = ("fall", next(ex.counter), "result", "read_exact")
        ex.effect(st, "read", (allargs[0], lit(n), sym), result=r, node=node)
        # the buffer local now holds the bytes read
        from .facts import peel as _peel
        argn = node["args"][-1] if node.get("args") else None
        a = _peel(argn) if argn else {}
        while a.get("k") in ("AddrOf",):
            a = _peel(a["e"])
        if a.get("k") == "Path" and a["res"].get("k") == "Local":
            st.env[a["res"]["lid"]] = sym
        return _val(st, r)
    # ---- Try / residuals (outside the `?` desugaring they are rare)
    if d == "std::ops::FromResidual::from_residual":
        return _val(st, a0)
    # ---- Box / Rc
    if d in ("std::boxed::Box::<T>::new", "std::boxed::Box::<T, A>::new", "std::boxed::box_new", "std::boxed::Box::new"):
        return _val(st, a0)
    # ---- conversions
    if name in ("into", "from") and d in ("std::convert::Into::into", "std::convert::From::from"):
        if not cal.get("inst_local"):
            inst = cal.get("inst", "")
            # foreign From impl (String from &str, Vec from VecDeque, anyhow::Error from E …): transparent
            return _val(st, app("conv", lit(cal.get("gargs", ["?"])[0] if name == "from" else (cal.get("gargs") or ["?", "?"])[-1]), a0)
                        if _lossy_conv(cal) else a0)
    if d.split("::")[0] in ("serde_json", "serde_yaml", "serde_lexpr"):
        return None          # format crates stay uninterpreted calls (C06 relates their inputs / outputs)
    if name in IDENTITY_NAMES and (recv is not None or len(allargs) == 1):
        return _val(st, allargs[0])
    if d in ("std::string::String::from", "std::borrow::ToOwned::to_owned", "std::string::ToString::to_string"):
        return _val(st, a0)
    # ---- Option / Result methods
    if d.startswith("std::option::Option") or d.startswith("std::result::Result") or d.startswith("anyhow::Context") or d.startswith("anyhow::context"):
        r = optres(ex, name, d, recv, args, node, st)
        if r is not None:
            return r
    # ---- iterators
    if name in ITER_START and recv is not None and not args:
        it = ex.as_iter(recv)
        if name in ("chars", "bytes", "keys", "values", "char_indices", "lines"):
            it = ("iter", app(name, recv), "fwd", ())
        return _val(st, it)
    if d == "std::iter::IntoIterator::into_iter":
        return _val(st, ex.as_iter(a0))
    if name in ITER_ADAPT and recv is not None and (d.startswith("std::iter::") or d.startswith("core::iter::")):
        it = ex.as_iter(recv)
        base, orient, flags = it[1], it[2], it[3]
        if name == "rev":
            # reversal of the underlying order; adaptors applied so far stay in place
            return _val(st, ("iter", base, "rev" if orient == "fwd" else "fwd", flags))
        if name == "enumerate":
            return _val(st, ("iter", base, orient, flags + ("enumerate",)))
        if name in ("map", "filter", "flat_map", "filter_map", "inspect", "take_while", "skip_while"):
            return _val(st, ("iter", base, orient, flags + ((name, args[0]),)))
        if name in ("zip", "chain"):
            return _val(st, ("iter", base, orient, flags + ((name, ex.as_iter(args[0])),)))
        if name in ("take", "skip", "step_by"):
            return _val(st, ("iter", base, orient, flags + ((name, args[0]),)))
        return _val(st, ("iter", base, orient, flags + ((name,),)))
    if d == "std::iter::repeat":
        return _val(st, ("iter", app("repeat", a0), "fwd", ()))
    if name in ITER_DRIVE and recv is not None and (d.startswith("std::iter::") or d.startswith("core::iter::")):
        return drive(ex, name, ex.as_iter(recv), args, node, st)
    if d == "std::iter::once" and len(allargs) == 1:
        return _val(st, ("iter", app("array", a0), "fwd", ()))
    if name in ("split_last", "split_first") and recv is not None and not args:
        ce = _concrete_elems(recv)
        if ce is not None:
            if not ce:
                return _val(st, ("none",))
            if name == "split_last":
                return _val(st, ("some", ("tuple", (ce[-1], app("array", *ce[:-1])))))
            return _val(st, ("some", ("tuple", (ce[0], app("array", *ce[1:])))))
        s_none = st.fork()
        ex.effect(s_none, "assume", (app("is_empty", recv), TRUE), node=node)
        ex.effect(st, "assume", (app("is_empty", recv), FALSE), node=node)
        one = app("last_of", recv) if name == "split_last" else app("first_of", recv)
        rest = app("init_of", recv) if name == "split_last" else app("rest_of", recv)
        return [(st, ("val", ("some", ("tuple", (one, rest))))), (s_none, ("val", ("none",)))]
    if name in ("last", "first") and recv is not None and not args:
        ce = _concrete_elems(recv)
        if ce is not None:
            return _val(st, ("some", ce[-1] if name == "last" else ce[0]) if ce else ("none",))
    # ---- Vec / slices / strings (pure queries)
    if name == "len" and recv is not None:
        return _val(st, tlen(recv))
    if name == "is_empty" and recv is not None:
        l = tlen(recv)
        if is_lit(l):
            return _val(st, lit(l[1] == 0))
        return _val(st, app("is_empty", recv))
    if d.endswith("box_assume_init_into_vec_unsafe") or d.endswith("box_assume_init"):
        return _val(st, a0)
    if d.endswith("intrinsics::write_box_via_move") or d.endswith("write_box_via_move"):
        return _val(st, allargs[1])
    if d.endswith("Box::<T>::new_uninit") or d.endswith("::new_uninit"):
        return _val(st, UNIT)
    if d.endswith("::into_vec") or d.endswith("slice::<impl [T]>::into_vec"):
        return _val(st, a0 if a0[0] == "app" and a0[1] == "array" else app("vec_of", a0))
    if d.endswith("vec::from_elem"):
        return _val(st, app("vec_repeat", allargs[0], allargs[1]))
    if name == "new" and (d.startswith("std::vec::Vec") or d.startswith("std::collections::") or d.startswith("indexmap::") or d.startswith("std::string::String")):
        kind = "Vec" if "Vec" in d else ("String" if "String" in d else "Map")
        return _val(st, ex.new_obj(kind))
    if name == "with_capacity" and d.startswith("std::vec::Vec"):
        return _val(st, ex.new_obj("Vec"))
    if d.startswith("std::mem::size_of"):
        return _val(st, app("size_of", lit((cal.get("gargs") or ["?"])[0])))
    # integer helpers
    if name in ("to_le_bytes", "to_be_bytes", "to_ne_bytes") and recv is not None:
        return _val(st, app(name, lit(cal.get("impl_self") or cal.get("inst_self") or _prim_of(d)), recv))
    if name in ("from_le_bytes", "from_be_bytes", "from_ne_bytes"):
        ce = _concrete_elems(a0) if a0 is not None and a0[0] == "app" else None
        if ce is not None and ce and all(is_lit(x) and isinstance(x[1], int) for x in ce):
            bs = bytes(x[1] & 0xFF for x in ce)
            ty = cal.get("impl_self") or cal.get("inst_self") or _prim_of(d)
            val = int.from_bytes(bs, "big" if name == "from_be_bytes" else "little", signed=str(ty).startswith("i"))
            return _val(st, lit(val))
        return _val(st, app(name, lit(cal.get("impl_self") or cal.get("inst_self") or _prim_of(d)), a0))
    if name.startswith(("wrapping_", "checked_", "saturating_", "overflowing_")) or name in ("rem_euclid", "div_euclid", "pow", "abs"):
        return _val(st, app(name, *allargs)) if not name.startswith("checked_") else None
    # comparisons through PartialEq/PartialOrd on references
    if d in ("std::cmp::PartialEq::eq", "std::cmp::PartialEq::ne") and len(allargs) == 2:
        return _val(st, ex.binop("Eq" if name == "eq" else "Ne", allargs[0], allargs[1]))
    if d.startswith("std::cmp::PartialOrd::") and len(allargs) == 2 and name in ("lt", "le", "gt", "ge"):
        return _val(st, ex.binop(name.capitalize(), allargs[0], allargs[1]))
    if d.startswith("std::ops::") and len(allargs) == 2 and name in ("add", "sub", "mul", "div", "rem", "bitand", "bitor", "shl", "shr"):
        return _val(st, app(name, allargs[0], allargs[1]))
    if d == "std::ops::Not::not":
        return _val(st, tnot(a0))
    if d == "std::ops::Neg::neg":
        return _val(st, app("neg", a0))
    if d in ("std::ops::Index::index", "std::ops::IndexMut::index_mut"):
        return _val(st, app("index", allargs[0], allargs[1]))
    if name == "to_lowercase" and recv is not None:
        return _val(st, app("to_lowercase", recv))
    if name == "join" and recv is not None and len(args) == 1:
        return _val(st, app("join", recv, args[0]))
    if name == "reverse" and recv is not None and not args:
        ex.effect(st, "reverse", (recv,), node=node)
        return _val(st, UNIT)
    return None


def _map_path(d):
    for m in ("std::collections::HashMap", "std::collections::BTreeMap", "indexmap::IndexMap", "indexmap::map::IndexMap", "std::collections::hash_map::HashMap"):
        if d.startswith(m):
            return m
    return None


def _entry_model(ex, name, d, recv, args, node, st):
    """`map.entry(key)` is a lookup whose outcome is matched as Occupied / Vacant; `vacant.insert(v)` and
    `entry.or_insert(v)` are the insertion. The effects recorded are the `get` and `insert` calls the API stands for, so
    rules written against get / insert see the same operations. The entry value is ("entry", map, key, lookup result)."""
    if recv is None:
        return None
    if name == "entry" and len(args) == 1 and _map_path(d):
        m = _map_path(d)
        r = ("fall", next(ex.counter), "option", "get")
        ex.effect(st, "call", (lit(m + "::<K, V, S>::get"), recv, args[0]), result=r, node=node, via="entry")
        return _val(st, ("entry", recv, args[0], r))
    is_occ = isinstance(recv, tuple) and recv[:1] == ("occupied",)
    is_vac = isinstance(recv, tuple) and recv[:1] == ("vacant",)
    is_ent = isinstance(recv, tuple) and recv[:1] == ("entry",)
    if not (is_occ or is_vac or is_ent):
        return None
    mp, key, r = recv[1], recv[2], recv[3]
    ins_name = "std::collections::HashMap::<K, V, S>::insert"
    if is_occ:
        if name in ("get", "get_mut", "into_mut"):
            return _val(st, ("payload", r))
        if name == "key":
            return _val(st, key)
        if name == "insert" and len(args) == 1:
            ex.effect(st, "call", (lit(ins_name), mp, key, args[0]), result=("some", ("payload", r)), node=node, via="entry", overwrites=True)
            return _val(st, ("payload", r))
        if name in ("remove", "remove_entry", "swap_remove", "shift_remove"):
            ex.effect(st, "call", (lit("std::collections::HashMap::<K, V, S>::remove"), mp, key), result=("some", ("payload", r)), node=node, via="entry")
            return _val(st, ("payload", r))
        return None
    if is_vac:
        if name == "insert" and len(args) == 1:
            ex.effect(st, "call", (lit(ins_name), mp, key, args[0]), result=("none",), node=node, via="entry")
            return _val(st, args[0])
        if name in ("key", "into_key"):
            return _val(st, key)
        return None
    # Entry combinators
    if name in ("or_insert", "or_insert_with", "or_default", "or_insert_with_key"):
        s_some = st
        s_none = st.fork()
        ex.effect(s_some, "assume", (app("is_some", r), TRUE), node=node)
        ex.effect(s_none, "assume", (app("is_some", r), FALSE), node=node)
        out = [(s_some, ("val", ("payload", r)))]
        if name == "or_insert":
            vals = [(s_none, ("val", args[0]))]
        elif name == "or_default":
            vals = [(s_none, ("val", app("default")))]
        else:
            vals = _apply(ex, args[0], (key,) if name == "or_insert_with_key" else (), s_none)
        for s2, o in vals:
            if o[0] == "val":
                ex.effect(s2, "call", (lit(ins_name), mp, key, o[1]), result=("none",), node=node, via="entry")
            out.append((s2, o))
        return out
    if name == "key":
        return _val(st, key)
    return None


def _mentions(t, sub):
    if t == sub:
        return True
    if isinstance(t, tuple):
        return any(_mentions(x, sub) for x in t if isinstance(x, tuple))
    return False


def _concrete_elems(base):
    if base[0] == "some":
        return (base[1],)           # an Option iterates over its payload, if any
    if base == ("none",):
        return ()
    if base[0] == "app" and base[1] == "array":
        return base[2]
    if base[0] == "app" and base[1] == "vec_of" and base[2][0][0] == "app" and base[2][0][1] == "array":
        return base[2][0][2]
    return None


def _lossy_conv(cal):
    return False


def _prim_of(d):
    for p in ("u8", "u16", "u32", "u64", "i8", "i16", "i32", "i64", "usize", "isize", "u128", "i128"):
        if ("::" + p + "::") in d or d.startswith(p + "::"):
            return p
    return "?"


def tlen(t):
    if t[0] == "app" and t[1] == "map_of":
        return tlen(t[2][0])
    if t[0] == "iter":
        return tlen(t[1])
    if t[0] == "app" and t[1] == "array":
        return lit(len(t[2]))
    if t[0] == "app" and t[1] == "vec_of" and t[2][0][0] == "app" and t[2][0][1] == "array":
        return lit(len(t[2][0][2]))
    if t[0] == "lit" and isinstance(t[1], (str, bytes)):
        return lit(len(t[1].encode()) if isinstance(t[1], str) else len(t[1]))
    return app("len", t)


def optres(ex, name, d, recv, args, node, st):
    v = recv
    if v is None:
        return None
    tag = v[0]
    concrete = tag in ("ok", "err", "some", "none")
    if name in ("expect", "unwrap"):
        return ex.split_fallible(st, v, node, on_fail="panic")
    if name in ("with_context", "context", "map_err", "attach", "inspect_err"):
        return [(st, ("val", v))]
    if name in ("or_else", "or"):
        # success keeps the value; failure is replaced by the alternative (a recovery)
        if tag in ("ok", "some"):
            return [(st, ("val", v))]
        alt_args = () if is_result_ty(ex, node) != "result" else (("errof", v),)
        if tag in ("err", "none"):
            return _apply(ex, args[0], alt_args if tag == "err" else (), st) if name == "or_else" else [(st, ("val", args[0]))]
        s_ok = st
        s_err = st.fork()
        ex.effect(s_ok, "assume_ok", (v,), node=node)
        ex.effect(s_err, "assume_fail", (v,), node=node)
        ex.effect(s_err, "recover", (v,), node=node)
        kind = "ok" if is_result_ty(ex, node) == "result" else "some"
        out = [(s_ok, ("val", (kind, ("payload", v))))]
        out += _apply(ex, args[0], alt_args, s_err) if name == "or_else" else [(s_err, ("val", args[0]))]
        return out
    if name in ("ok_or", "ok_or_else"):
        if tag == "some":
            return [(st, ("val", ("ok", v[1])))]
        if tag == "none":
            return [(st, ("val", ("err", args[0] if args else UNIT)))]
        return [(st, ("val", v))]  # same fallible symbol, now read as a Result
    if name == "ok":
        if tag == "ok":
            return [(st, ("val", ("some", v[1])))]
        if tag == "err":
            ex.effect(st, "discard_err", (v,), node=node)
            return [(st, ("val", ("none",)))]
        ex.effect(st, "discard_err", (v,), node=node)
        return [(st, ("val", v))]
    if name in ("map", "and_then"):
        f = args[0]
        if tag in ("err", "none"):
            return [(st, ("val", v))]
        if tag in ("ok", "some"):
            res = ex.bind(_apply(ex, f, (v[1],), st), lambda s, r: [(s, ("val", (tag, r) if name == "map" else r))])
            return res
        # symbolic: apply on the payload in the success path; failure path keeps the failure
        s_ok = st
        s_err = st.fork()
        ex.effect(s_ok, "assume_ok", (v,), node=node)
        ex.effect(s_err, "assume_fail", (v,), node=node)
        kind = "ok" if is_result_ty(ex, node) == "result" else "some"
        out = ex.bind(_apply(ex, f, (("payload", v),), s_ok), lambda s, r: [(s, ("val", (kind, r) if name == "map" else r))])
        out.append((s_err, ("val", ("err", ("errof", v)) if kind == "ok" else ("none",))))
        return out
    if name in ("filter", "is_some_and", "is_ok_and", "is_none_or") and args:
        # Option::filter(p): Some(x) if p(&x) else None; is_some_and(p): p(x) on Some, false on None
        f = args[0]
        if tag in ("err", "none"):
            return [(st, ("val", v if name == "filter" else lit(name == "is_none_or")))]
        outs = []
        if tag in ("ok", "some"):
            s_ok, pay = st, v[1]
        else:
            s_ok = st
            s_err = st.fork()
            ex.effect(s_ok, "assume_ok", (v,), node=node)
            ex.effect(s_err, "assume_fail", (v,), node=node)
            pay = ("payload", v)
            outs.append((s_err, ("val", ("none",) if name == "filter" else lit(name == "is_none_or"))))

        def decide(s, r):
            if name != "filter":
                return [(s, ("val", r))]
            if r == TRUE:
                return [(s, ("val", ("some", pay)))]
            if r == FALSE:
                return [(s, ("val", ("none",)))]
            s_no = s.fork()
            ex.effect(s, "assume", (r, TRUE), node=node)
            ex.effect(s_no, "assume", (r, FALSE), node=node)
            return [(s, ("val", ("some", pay))), (s_no, ("val", ("none",)))]
        return ex.bind(_apply(ex, f, (pay,), s_ok), decide) + outs
    if name in ("map_or", "map_or_else"):
        dflt, f = args[0], args[1]
        if tag in ("ok", "some"):
            return _apply(ex, f, (v[1],), st)
        if tag in ("err", "none"):
            return [(st, ("val", dflt))] if name == "map_or" else _apply(ex, dflt, (), st)
        s_ok = st
        s_err = st.fork()
        ex.effect(s_ok, "assume_ok", (v,), node=node)
        ex.effect(s_err, "assume_fail", (v,), node=node)
        ex.effect(s_err, "default_on_fail", (v,), node=node)
        out = _apply(ex, f, (("payload", v),), s_ok)
        out += [(s_err, ("val", dflt))] if name == "map_or" else _apply(ex, dflt, (), s_err)
        return out
    if name in ("unwrap_or", "unwrap_or_else", "unwrap_or_default"):
        if tag in ("ok", "some"):
            return [(st, ("val", v[1]))]
        if tag in ("err", "none"):
            if name == "unwrap_or":
                return [(st, ("val", args[0]))]
            if name == "unwrap_or_else":
                return _apply(ex, args[0], (), st)
            return [(st, ("val", _default_of(ex, node)))]
        s_ok = st
        s_err = st.fork()
        ex.effect(s_ok, "assume_ok", (v,), node=node)
        ex.effect(s_err, "assume_fail", (v,), node=node)
        ex.effect(s_err, "default_on_fail", (v,), node=node)
        if name == "unwrap_or":
            return [(s_ok, ("val", ("payload", v))), (s_err, ("val", args[0]))]
        if name == "unwrap_or_else":
            return [(s_ok, ("val", ("payload", v)))] + _apply(ex, args[0], (), s_err)
        return [(s_ok, ("val", ("payload", v))), (s_err, ("val", app("default")))]
    if name in ("is_some", "is_ok"):
        if concrete:
            return [(st, ("val", lit(tag in ("ok", "some"))))]
        return [(st, ("val", app("is_ok", v)))]
    if name in ("is_none", "is_err"):
        if concrete:
            return [(st, ("val", lit(tag in ("err", "none"))))]
        return [(st, ("val", tnot(app("is_ok", v))))]
    if name == "flatten":
        if tag == "some":
            return [(st, ("val", v[1]))]
        return [(st, ("val", v))]
    if name in ("as_ref", "as_mut", "cloned", "copied", "as_deref"):
        return [(st, ("val", v))]
    if name == "iter" or name == "into_iter":
        return [(st, ("val", ("iter", v, "fwd", ())))]
    return None


def _default_of(ex, node):
    """`Default::default()` of the node's type where that is a closed value: empty vector / string, 0, false"""
    t = (ex.fx.ty(node) or "") if node.get("id", -1) >= 0 else ""
    if t.startswith(("std::vec::Vec<", "std::collections::VecDeque<")):
        return ("app", "array", ())
    if t == "std::string::String":
        return lit("")
    if t in ("u8", "u16", "u32", "u64", "usize", "i8", "i16", "i32", "i64", "isize"):
        return lit(0)
    if t == "bool":
        return lit(False)
    return app("default")


def _apply(ex, f, args, st):
    if f[0] == "thunk":
        return _apply(ex, f[1], (), st)      # a nullary closure driven once per element (resize_with, repeat_with)
    if f[0] == "closure":
        return ex.apply_closure(f, args, st)
    if f[0] == "fnref":
        return ex.call_path(f[1], f[2], None, list(args), {"k": "Call", "id": -1}, st)
    return [(st, ("val", app("apply", f, *args)))]


_UNORDERED = ("std::collections::BTreeSet", "std::collections::HashSet", "std::collections::BTreeMap", "std::collections::HashMap",
              "std::collections::BinaryHeap", "std::collections::btree_set", "std::collections::hash_set", "std::collections::btree_map",
              "std::collections::hash_map", "std::collections::binary_heap")


def drive(ex, name, it, args, node, st):
    """The target collection of `collect` decides whether element order / multiplicity survive: anything but a
    sequence type yields an opaque `collect_into(<type>, seq)` term instead of the sequence itself."""
    res = _drive(ex, name, it, args, node, st)
    if name != "collect" or node.get("id", -1) < 0:
        return res
    core = ex.fx.ty(node) or ""
    for pre in ("std::result::Result<", "std::option::Option<"):
        if core.startswith(pre):
            core = core[len(pre):]
    if not core.startswith(_UNORDERED):
        return res
    kind = lit(core.split("<")[0])
    out = []
    for s2, o in res:
        if o[0] == "val":
            v = o[1]
            if v[0] == "ctor" and v[2] in ("Ok", "Some") and v[3]:
                v = (v[0], v[1], v[2], tuple((k, app("collect_into", kind, x)) for k, x in v[3]))
            else:
                v = app("collect_into", kind, v)
            o = ("val", v)
        out.append((s2, o))
    return out


def _drive(ex, name, it, args, node, st):
    """Drive a lazy iterator: one symbolic iteration through the adaptor pipeline."""
    base, orient, flags = it[1], it[2], it[3]
    if name in ("for_each", "try_for_each") and args and all(isinstance(f, tuple) and f and f[0] == "chain" for f in flags):
        # same machinery as a `for` loop (unrolling of known sequences, chain = consecutive loops, counters)
        outs, _e = ex.run_loop(st, name, node.get("id", 0) * 1000 + 9, it, None, None, node, closure=args[0])
        res = []
        for s2, o in outs:
            if o[0] == "stop":
                res.append((s2, ("val", o[1])))
            elif o == ("val", UNIT):
                res.append((s2, ("val", ("ok", UNIT) if name == "try_for_each" else UNIT)))
            else:
                res.append((s2, o))
        return res
    conc = _concrete_elems(base)
    if conc is not None and name == "collect" and all(isinstance(f, tuple) and f[0] == "map" for f in flags):
        # literal sequence: apply the (pure) closures element by element
        elems = list(conc) if orient == "fwd" else list(reversed(conc))
        n_eff = len(st.eff)
        out_elems = []
        cur = st
        ok = True
        for e0 in elems:
            v = e0
            for f in flags:
                r = _apply(ex, f[1], (v,), cur)
                if len(r) != 1 or r[0][1][0] != "val":
                    ok = False
                    break
                cur, v = r[0][0], r[0][1][1]
            if not ok:
                break
            out_elems.append(v)
        if ok and len(cur.eff) == n_eff:
            return [(cur, ("val", app("array", *out_elems)))]
    if name == "collect" and not flags and not is_result_ty(ex, node):
        return [(st, ("val", base if orient == "fwd" else app("reversed", base)))]
    if name == "collect" and base[0] == "app" and base[1] == "repeat" and len(flags) == 1 and isinstance(flags[0], tuple) and flags[0][0] == "take":
        return [(st, ("val", app("vec_repeat", base[2][0], flags[0][1])))]
    if (name == "collect" and len(flags) == 1 and isinstance(flags[0], tuple) and flags[0][0] == "map" and base[0] == "ctor"
            and (base[1] or "").endswith("Range") and dict(base[3]).get("start") == lit(0)):
        # (0..n).map(|_| <pure, element-independent>).collect()  ==  vec![value; n]
        probe = State(dict(st.env), [], dict(st.fields), dict(st.facts))
        el = ("sym", next(ex.counter), "elem")
        r = _apply(ex, flags[0][1], (el,), probe)
        if len(r) == 1 and r[0][1][0] == "val" and not r[0][0].eff and not _mentions(r[0][1][1], el) and not is_result_ty(ex, node):
            return [(st, ("val", app("vec_repeat", r[0][1][1], dict(base[3]).get("end"))))]
    if name == "collect" and flags and all(isinstance(f, tuple) and f[0] == "chain" for f in flags) and orient == "fwd":
        parts = [base] + [(f[1][1] if f[1][0] == "iter" and f[1][2] == "fwd" and not f[1][3] else f[1]) for f in flags]
        return [(st, ("val", app("concat", *parts)))]
    loop_id = node.get("id", 0) * 1000 + 7
    body_st = State(dict(st.env), [], dict(st.fields), dict(st.facts))
    elem = ("sym", next(ex.counter), "elem")
    cur_vals = [(body_st, elem)]
    enumerate_seen = False
    pipeline = []
    filtered = False
    # apply adaptors in order
    results = []   # (state, value) alive after the pipeline
    exits = []
    alive = [(body_st, elem)]
    for fl in flags:
        if fl == "enumerate":
            alive = [(s, ("tuple", (("sym", elem[1], "index"), v))) for s, v in alive]
            continue
        kind = fl[0]
        if kind in ("map", "inspect", "flat_map", "filter_map"):
            nxt = []
            for s, v in alive:
                for s2, o in _apply(ex, fl[1], (v,), s):
                    if o[0] == "val":
                        nxt.append((s2, o[1]))
                    else:
                        exits.append({"eff": s2.eff, "out": o})
            alive = nxt
            pipeline.append(kind)
        elif kind in ("filter", "take_while", "skip_while"):
            nxt = []
            for s, v in alive:
                for s2, o in _apply(ex, fl[1], (v,), s):
                    if o[0] != "val":
                        exits.append({"eff": s2.eff, "out": o})
                        continue
                    c = o[1]
                    if c == FALSE:
                        continue
                    if c != TRUE:
                        ex.effect(s2, "assume", (c, TRUE), node=node, filter=True)
                    nxt.append((s2, v))
            alive = nxt
            filtered = True
            pipeline.append(kind)
        elif kind in ("zip",):
            other = fl[1]
            alive = [(s, ("tuple", (v, ("sym", next(ex.counter), "zip_elem")))) for s, v in alive]
            pipeline.append(("zip", other))
        elif kind == "chain":
            pipeline.append(("chain", fl[1]))
        else:
            pipeline.append(fl)
    # the driver's own closure
    coll_kind = is_result_ty(ex, node)
    elem_fail = []
    final = []
    if name in ("for_each", "all", "any", "position", "find", "try_for_each", "find_map", "rposition", "max_by_key", "min_by_key") and args:
        nxt = []
        for s, v in alive:
            for s2, o in _apply(ex, args[0], (v,), s):
                if o[0] == "val":
                    nxt.append((s2, o[1]))
                else:
                    exits.append({"eff": s2.eff, "out": o})
        alive = nxt
    fold_kw = {}
    if name == "fold" and len(args) == 2:
        acc = ("sym", next(ex.counter), "acc")
        fold_kw = {"fold_init": args[0], "fold_acc": acc}
        nxt = []
        for s, v in alive:
            for s2, o in _apply(ex, args[1], (acc, v), s):
                if o[0] == "val":
                    nxt.append((s2, o[1]))
                else:
                    exits.append({"eff": s2.eff, "out": o})
        alive = nxt
    if name == "collect" and coll_kind == "result":
        # Result<Collection, E>: the first failing element fails the collection
        nxt = []
        for s, v in alive:
            if v[0] == "ok":
                nxt.append((s, v[1]))
            elif v[0] == "err":
                elem_fail.append({"eff": s.eff, "out": ("val", v)})
            elif v[0] == "fall":
                s_err = s.fork()
                ex.effect(s, "assume_ok", (v,), node=node)
                ex.effect(s_err, "assume_fail", (v,), node=node)
                nxt.append((s, ("payload", v)))
                elem_fail.append({"eff": s_err.eff, "out": ("val", ("err", ("errof", v)))})
            else:
                nxt.append((s, ("payload", v)))
                elem_fail.append({"eff": list(s.eff), "out": ("val", ("err", ("errof", v)))})
        alive = nxt
    if (name == "collect" and coll_kind is None and len(alive) == 1 and not alive[0][0].eff and not exits and pipeline
            and all(x == "map" for x in pipeline)):
        # pure element-wise mapping: keep it as a term (the mapped sequence has the base's length and order)
        if alive[0][1] == elem and orient == "fwd" and coll_kind is None and not (base[0] == "app" and base[1] in ("chars", "bytes", "keys", "values", "lines", "char_indices")):
            return [(st, ("val", base))]     # element-wise identity (e.g. boxing every element): the same sequence
        return [(st, ("val", app("map_of", ("iter", base, orient, ()), alive[0][1], elem)))]
    paths = [{"eff": s.eff, "out": ("val", v)} for s, v in alive]
    e = ex.effect(st, "foreach", (it,), node=node, loop=loop_id, elem=elem, paths=paths, exits=exits,
                  results=[v for _, v in alive], driver=name, pipeline=tuple(pipeline), elem_fail=elem_fail, filtered=filtered, **fold_kw)
    outs = []
    coll = app("collected", lit(loop_id))
    ex.loops = getattr(ex, "loops", {})
    ex.loops[loop_id] = e
    if name == "collect":
        if coll_kind == "result":
            if elem_fail:
                r = ("fall", next(ex.counter), "result", "collect")
                ex.collect_payload = getattr(ex, "collect_payload", {})
                ex.collect_payload[r] = coll
                e["collect_result"] = r
                outs.append((st, ("val", r)))
            else:
                outs.append((st, ("val", ("ok", coll))))
        else:
            outs.append((st, ("val", coll)))
    elif name in ("for_each",):
        outs.append((st, ("val", UNIT)))
    elif name in ("sum", "count", "product", "fold", "max", "min"):
        outs.append((st, ("val", app(name + "_of", lit(loop_id)))))
    elif name in ("all", "any"):
        outs.append((st, ("val", app(name + "_of", lit(loop_id)))))
    else:
        outs.append((st, ("val", ("fall", next(ex.counter), "option", name))))
    for p in exits:
        s2 = st.fork()
        s2.eff[-1] = dict(e, taken_exit=True)
        s2.eff.extend(p["eff"])
        outs.append((s2, p["out"]))
    return outs
