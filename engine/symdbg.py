"""debug: run the symbolic executor on a function and print its paths"""
import sys, json
from . import facts as F
from .symex import Executor, Client, State, paths_of

def fmt_term(t, depth=0):
    if not isinstance(t, tuple):
        return repr(t)
    if depth > 6:
        return "…"
    k = t[0]
    if k == "lit": return repr(t[1])
    if k == "var": return t[1]
    if k == "sym": return "%s#%d" % (t[2] or "s", t[1])
    if k == "obj": return "%s@%d" % (t[1], t[2])
    if k == "ctor": return "%s::%s{%s}" % ((t[1] or "?").rsplit("::",1)[-1], t[2], ", ".join("%s: %s" % (n, fmt_term(v, depth+1)) for n, v in t[3]))
    if k == "tuple": return "(" + ", ".join(fmt_term(x, depth+1) for x in t[1]) + ")"
    if k == "app": return "%s(%s)" % (t[1], ", ".join(fmt_term(x, depth+1) for x in t[2]))
    if k in ("ok","err","some","payload","errof"): return "%s(%s)" % (k, fmt_term(t[1], depth+1))
    if k == "none": return "none"
    if k == "fall": return "fall#%d<%s:%s>" % (t[1], t[2], t[3])
    if k == "iter": return "iter(%s,%s,%s)" % (fmt_term(t[1], depth+1), t[2], [f if isinstance(f,str) else f[0] for f in t[3]])
    if k == "closure": return "closure"
    if k == "fmt": return "fmt(%r; %s)" % ("".join(p[1] if p[0]=="lit" else "{%d}"%p[1] for p in t[1]), ", ".join(fmt_term(x, depth+1) for x in t[2]))
    if k == "fnref": return "fn:" + str(t[1])
    return str(t)[:80]

def show_eff(effs, ind=2):
    for e in effs:
        pre = " " * ind
        if e["k"] in ("foreach", "loop"):
            print("%s%s %s  driver=%s @%s" % (pre, e["k"], ", ".join(fmt_term(a) for a in e["args"]), e.get("driver"), e["at"]))
            for i, p in enumerate(e.get("paths", [])):
                print("%s  body path %d -> %s" % (pre, i, fmt_out(p["out"])))
                show_eff(p["eff"], ind + 4)
            for i, p in enumerate(e.get("exits", [])):
                print("%s  exit %d -> %s" % (pre, i, fmt_out(p["out"])))
                show_eff(p["eff"], ind + 4)
            for i, p in enumerate(e.get("elem_fail", [])):
                print("%s  elem_fail %d" % (pre, i))
        else:
            print("%s%s(%s)%s @%s" % (pre, e["k"], ", ".join(fmt_term(a) for a in e["args"]), (" -> " + fmt_term(e["res"])) if e.get("res") else "", e["at"]))

def fmt_out(o):
    return "%s %s" % (o[0], fmt_term(o[1]) if len(o) > 1 and isinstance(o[1], tuple) else (o[1] if len(o) > 1 else ""))

def main():
    fx = F.Facts(F.extract())
    path = sys.argv[1]
    b = fx.body(path)
    if b is None:
        cands = [p for p in fx.hir_by_path if path in p]
        print("candidates:", cands[:20]); return
    ex = Executor(fx, Client())
    args = [("var", p.get("name", "p%d" % i)) for i, p in enumerate(b["params"])]
    ps = paths_of(ex, b, args)
    for i, p in enumerate(ps):
        print("PATH %d -> %s" % (i, fmt_out(p["out"])))
        show_eff(p["eff"])
    print("unmodelled:", ex.unmodelled)

if __name__ == "__main__":
    main()
