"""E3 — symbolic executor over type-checked HIR producing effect templates.

No code of /repo runs: HIR bodies are interpreted over a term domain. Crate-local callees are
inlined, a client decides which callees are *tracked effects* (recorded, result symbolic), std
callees are replaced by small models. Undecidable branches fork; loops are summarised by one
symbolic iteration (`foreach` / `while` effects holding the body's paths).

Terms (tuples):
  ("lit", v)                      literal (int/str/bool/None for unit/char as 1-char str tagged by type)
  ("var", name)                   symbolic input
  ("sym", id, hint)               fresh symbol (result of a tracked effect, loop element, …)
  ("ctor", adt, variant, ((fname, term), …))
  ("tuple", (terms…))
  ("app", fname, (terms…))        uninterpreted / normalised pure application
  ("obj", kind, id)               abstract mutable object identity
  ("ok", t) ("err", t) ("some", t) ("none",)      Result/Option constructors
  ("fall", id, "result"|"option", hint)             symbolic fallible value
  ("payload", fall)  ("errof", fall)
  ("iter", base, orient, flags)   lazy iterator over base; orient in fwd/rev; flags: tuple of adaptor records
  ("closure", node, env, cid)
  ("fmt", template, (args…))
  ("unknown", why)
Outcomes: ("val", t) ("ret", t) ("brk", target, t) ("cont", target) ("panic", why)
"""
import itertools

from .facts import peel, callee_def, callee_name, loc, user_macros_of

UNIT = ("lit", None)
TRUE = ("lit", True)
FALSE = ("lit", False)


def lit(v):
    return ("lit", v)


def is_lit(t):
    return isinstance(t, tuple) and t and t[0] == "lit"


def app(f, *args):
    return ("app", f, tuple(args))


def tnot(t):
    if is_lit(t) and isinstance(t[1], bool):
        return lit(not t[1])
    if t[0] == "app" and t[1] == "not":
        return t[2][0]
    return app("not", t)


def tand(a, b):
    if a == FALSE or b == FALSE:
        return FALSE
    if a == TRUE:
        return b
    if b == TRUE:
        return a
    return app("and", a, b)


def tor(a, b):
    if a == TRUE or b == TRUE:
        return TRUE
    if a == FALSE:
        return b
    if b == FALSE:
        return a
    return app("or", a, b)


class State:
    __slots__ = ("env", "eff", "fields", "facts")

    def __init__(self, env=None, eff=None, fields=None, facts=None):
        self.env = env if env is not None else {}
        self.eff = eff if eff is not None else []
        self.fields = fields if fields is not None else {}
        self.facts = facts if facts is not None else {}

    def fork(self):
        return State(dict(self.env), list(self.eff), dict(self.fields), dict(self.facts))

    # -- path condition -----------------------------------------------------------
    def learn(self, cond, val):
        """record that `cond` holds / does not hold on this path"""
        if not isinstance(cond, tuple):
            return
        self.facts[cond] = val
        if cond[0] == "app":
            f, a = cond[1], cond[2]
            if f == "and" and val:
                self.learn(a[0], True)
                self.learn(a[1], True)
            elif f == "or" and not val:
                self.learn(a[0], False)
                self.learn(a[1], False)
            elif f == "not":
                self.learn(a[0], not val)
            elif f == "is_ok":
                pass

    def decide(self, cond):
        """True / False when the path condition decides `cond`, else None"""
        if cond == TRUE:
            return True
        if cond == FALSE:
            return False
        if cond in self.facts:
            return self.facts[cond]
        if isinstance(cond, tuple) and cond and cond[0] == "app":
            f, a = cond[1], cond[2]
            if f == "not":
                r = self.decide(a[0])
                return None if r is None else not r
            if f == "and":
                x, y = self.decide(a[0]), self.decide(a[1])
                if x is False or y is False:
                    return False
                if x is True and y is True:
                    return True
                return None
            if f == "or":
                x, y = self.decide(a[0]), self.decide(a[1])
                if x is True or y is True:
                    return True
                if x is False and y is False:
                    return False
                return None
            if f == "is_variant":
                # exclusivity: another variant of the same value is known to hold
                for k, v in self.facts.items():
                    if v and isinstance(k, tuple) and k[0] == "app" and k[1] == "is_variant" and k[2][0] == a[0] and k[2][1] != a[1]:
                        return False
        return None


def tnot_(t):
    if t == TRUE:
        return FALSE
    if t == FALSE:
        return TRUE
    if isinstance(t, tuple) and t[:2] == ("app", "not"):
        return t[2][0]
    return ("app", "not", (t,))


class Unsupported(Exception):
    pass


class Client:
    """Strategy: which callees are tracked effects / pure term builders / object constructors."""
    name = "generic"
    inline_depth = 8

    def tracked(self, ex, path, node, recv, args, st):
        """Return None, or an effect spec dict {kind, args, result: 'unit'|'sym'|'fall', hint}."""
        return None

    def pure(self, ex, path, node, recv, args):
        """Return None or a term."""
        return None

    def no_inline(self, path):
        return False

    def field_read(self, ex, base, name, node, st):
        return None


class Executor:
    def __init__(self, fx, client):
        self.fx = fx
        self.client = client
        self.counter = itertools.count(1)
        self.unmodelled = {}
        self.notes = []
        self.call_depth = 0
        self.stack = []

    # ------------------------------------------------------------------ helpers
    def fresh(self, hint=""):
        return ("sym", next(self.counter), hint)

    def new_obj(self, kind):
        return ("obj", kind, next(self.counter))

    def effect(self, st, kind, args, result=None, node=None, **kw):
        e = {"k": kind, "args": tuple(args), "res": result, "at": loc(node) if node else ""}
        e.update(kw)
        st.eff.append(e)
        if kind == "assume":
            st.learn(args[0], args[1] == TRUE)
        elif kind == "assume_ok":
            st.learn(app("is_ok", args[0]), True)
            st.learn(app("is_some", args[0]), True)
        elif kind == "assume_fail":
            st.learn(app("is_ok", args[0]), False)
            st.learn(app("is_some", args[0]), False)
        return e

    def bind(self, results, fn):
        """results: list of (st, out). For normal values call fn(st, term) -> list of (st,out)."""
        out = []
        for st, o in results:
            if o[0] == "val":
                out.extend(fn(st, o[1]))
            else:
                out.append((st, o))
        return out

    def ev_list(self, nodes, st):
        """Evaluate expressions left to right; returns list of (st, ('val', tuple-of-terms)) / abnormal."""
        res = [(st, ("val", ()))]
        for n in nodes:
            nxt = []
            for s, o in res:
                if o[0] != "val":
                    nxt.append((s, o))
                    continue
                acc = o[1]
                for s2, o2 in self.ev(n, s):
                    if o2[0] == "val":
                        nxt.append((s2, ("val", acc + (o2[1],))))
                    else:
                        nxt.append((s2, o2))
            res = nxt
        return res

    # ------------------------------------------------------------------ function entry
    def run_body(self, body, args, st=None, gargs=None):
        """Execute a HIR body with parameter terms `args`. Returns list of (st, outcome) where the
        outcome is ('val', t) for normal/explicit return, or ('panic', why).
        gargs: the call's generic arguments (strings, substitution order) — binds const generics."""
        st = st or State()
        saved_env = st.env
        st.env = {}
        self.bind_params(body["params"], args, st)
        self.call_depth += 1
        self.stack.append(body["path"])
        if not hasattr(self, "genv"):
            self.genv = [{}]
        names = body.get("generics") or []
        cur = self.genv[-1]
        g = {}
        if gargs and len(gargs) == len(names):
            for nme, val in zip(names, gargs):
                g[nme] = cur.get(val, val)      # a generic argument that is itself a parameter of the caller
        self.genv.append(g)
        try:
            res = self.ev(body["value"], st)
        finally:
            self.call_depth -= 1
            self.stack.pop()
            self.genv.pop()
        out = []
        for s, o in res:
            s.env = saved_env if s is st else dict(saved_env)
            if o[0] == "ret":
                out.append((s, ("val", o[1])))
            elif o[0] in ("brk", "cont"):
                out.append((s, ("panic", "stray break/continue")))
            else:
                out.append((s, o))
        return out

    def bind_params(self, params, args, st):
        for p, a in zip(params, args):
            ok = self.match_pat(p, a, st)
            # irrefutable by construction; ignore forks

    # ------------------------------------------------------------------ patterns
    def match_pat(self, p, v, st):
        """Try to match value v against pattern p in state st (binding into st.env).
        Returns True (matches), False (cannot match), or a condition term (symbolic)."""
        k = p["k"]
        if k in ("Wild", "Missing"):
            return True
        if k == "Binding":
            st.env[p["lid"]] = v
            if "sub" in p:
                return self.match_pat(p["sub"], v, st)
            return True
        if k in ("Ref", "Box", "Deref"):
            return self.match_pat(p["pat"], v, st)
        if k == "Guard":
            return self.match_pat(p["pat"], v, st)
        if k == "Lit":
            want = lit(p["lit"]["v"])
            if is_lit(v):
                return v == want
            return app("eq", v, want)
        if k == "Range":
            def bound(x):
                if isinstance(x, dict):
                    l = x.get("lit") or {}
                    if isinstance(l.get("v"), int) and not isinstance(l.get("v"), bool):
                        return l["v"]
                return None
            lo, hi = bound(p.get("lo")), bound(p.get("hi"))
            if is_lit(v) and isinstance(v[1], int) and not isinstance(v[1], bool) and ("lo" not in p or lo is not None) and ("hi" not in p or hi is not None):
                ok = (lo is None or v[1] >= lo) and (hi is None or (v[1] <= hi if p.get("inclusive", True) else v[1] < hi))
                return ok
            return app("in_range", v, lit(str(p.get("lo"))), lit(str(p.get("hi"))))
        if k == "Tuple":
            if v[0] == "tuple" and len(v[1]) == len(p["pats"]):
                cond = True
                for sp, sv in zip(p["pats"], v[1]):
                    c = self.match_pat(sp, sv, st)
                    cond = self._cand(cond, c)
                    if cond is False:
                        return False
                return cond
            cond = True
            for i, sp in enumerate(p["pats"]):
                c = self.match_pat(sp, app("tuple_field", v, lit(i)), st)
                cond = self._cand(cond, c)
            return cond
        if k == "Or":
            # first alternative that can match decides; symbolic → disjunction (bindings of or-patterns
            # are not used in anchored code)
            # alternatives that bind variables: the bindings are those of the alternative the path condition selects;
            # when it selects none, the bound variables are unknown (fresh symbols), never those of some alternative
            cond = False
            open_alts = []
            env0 = dict(st.env)
            for sp in p["pats"]:
                s_try = st.fork()
                s_try.env = dict(env0)
                c = self.match_pat(sp, v, s_try)
                if c is not True and c is not False:
                    d = st.decide(c)
                    if d is not None:
                        c = d
                if c is True:
                    st.env.update(s_try.env)
                    return True if cond is False else app("or", cond, TRUE) if False else True
                if c is not False:
                    open_alts.append(s_try)
                    cond = c if cond is False else app("or", cond, c)
            if open_alts:
                bound = {k for s2 in open_alts for k, val in s2.env.items() if env0.get(k) != val}
                if len(open_alts) == 1:
                    st.env.update(open_alts[0].env)
                else:
                    for k in bound:
                        vals = {s2.env.get(k) for s2 in open_alts}
                        st.env[k] = vals.pop() if len(vals) == 1 else ("sym", next(self.counter), "or-pattern binding")
            return cond
        if k in ("TupleStruct", "Struct", "Path"):
            res = p.get("res") or {}
            variant = res.get("variant")
            adt = res.get("adt")
            if variant is None and res.get("dk", "").startswith("Ctor(Struct") or (k == "Struct" and variant is None):
                # plain struct pattern: always matches; bind fields
                return self._bind_fields(p, v, st, None)
            if variant is None and k == "Path":
                # constant pattern
                return self.binop("Eq", v, self.const_value(res.get("path")))
            # Option/Result sugar
            if variant in ("Some", "None", "Ok", "Err") and adt in ("std::option::Option", "std::result::Result"):
                return self._match_optres(p, v, st, variant)
            # map entry: Occupied ⇔ the lookup found the key
            if variant in ("Occupied", "Vacant") and isinstance(v, tuple) and v[:1] == ("entry",):
                sub = p.get("pats", [None])[0] if p["k"] == "TupleStruct" and p.get("pats") else None
                inner = ("occupied" if variant == "Occupied" else "vacant",) + tuple(v[1:])
                cond = app("is_some", v[3]) if variant == "Occupied" else tnot_(app("is_some", v[3]))
                if sub is not None:
                    cond = self._cand(cond, self.match_pat(sub, inner, st))
                return cond
            if v[0] == "ctor":
                if v[2] != variant:
                    return False
                return self._bind_fields(p, v, st, variant)
            cond = app("is_variant", v, lit(variant))
            c2 = self._bind_fields(p, v, st, variant)
            return self._cand(cond, c2)
        if k == "Slice":
            from .stdmodels import _concrete_elems
            ce = _concrete_elems(v) if isinstance(v, tuple) and v and v[0] == "app" else None
            before, after, mid = p.get("before", []), p.get("after", []), p.get("mid")
            if ce is not None:
                ce = list(ce)
                if (mid is None and len(ce) != len(before) + len(after)) or len(ce) < len(before) + len(after):
                    return False
                cond = True
                for sp, sv in zip(before, ce[:len(before)]):
                    cond = self._cand(cond, self.match_pat(sp, sv, st))
                for sp, sv in zip(after, ce[len(ce) - len(after):] if after else []):
                    cond = self._cand(cond, self.match_pat(sp, sv, st))
                if mid is not None:
                    cond = self._cand(cond, self.match_pat(mid, app("array", *ce[len(before):len(ce) - len(after)]), st))
                return cond
            # symbolic sequence: the pattern fixes (or bounds) its length and names its elements
            n_fixed = len(before) + len(after)
            from .stdmodels import tlen
            ln = tlen(v)
            cond = app("eq", ln, lit(n_fixed)) if mid is None else tnot(app("lt", ln, lit(n_fixed))) if n_fixed else True
            for i, sp in enumerate(before):
                cond = self._cand(cond, self.match_pat(sp, app("index", v, lit(i)), st))
            for i, sp in enumerate(after):
                cond = self._cand(cond, self.match_pat(sp, app("index_from_end", v, lit(len(after) - 1 - i)), st))
            if mid is not None:
                cond = self._cand(cond, self.match_pat(mid, app("subslice", v, lit(len(before)), lit(len(after))), st))
            return cond
        raise Unsupported("pattern kind %s" % k)

    def _cand(self, a, b):
        if a is False or b is False:
            return False
        if a is True:
            return b
        if b is True:
            return a
        return app("and", a, b)

    def _bind_fields(self, p, v, st, variant):
        cond = True
        if p["k"] == "TupleStruct":
            for i, sp in enumerate(p["pats"]):
                sv = self.project(v, variant, str(i))
                cond = self._cand(cond, self.match_pat(sp, sv, st))
        elif p["k"] == "Struct":
            for f in p["fields"]:
                sv = self.project(v, variant, f["name"])
                cond = self._cand(cond, self.match_pat(f["pat"], sv, st))
        return cond

    def project(self, v, variant, fname):
        if v[0] == "ctor":
            for n, t in v[3]:
                if n == fname:
                    return t
            return ("unknown", "no field %s" % fname)
        if variant is None:
            return app("field", v, lit(fname))       # destructuring a struct = reading its fields
        return app("proj", v, lit(variant), lit(fname))

    def _match_optres(self, p, v, st, variant):
        tag = {"Some": "some", "None": "none", "Ok": "ok", "Err": "err"}[variant]
        sub = p.get("pats", [None])[0] if p["k"] == "TupleStruct" and p.get("pats") else None
        if p["k"] == "Struct" and p.get("fields"):
            sub = p["fields"][0]["pat"]
        if v[0] in ("ok", "err", "some", "none"):
            if v[0] != tag:
                return False
            if sub is not None:
                return self.match_pat(sub, v[1], st)
            return True
        # symbolic
        if tag in ("some", "ok"):
            inner = ("payload", v)
        elif tag == "err":
            inner = ("errof", v)
        else:
            inner = None
        cond = app("is_" + tag, v)
        if sub is not None and inner is not None:
            cond = self._cand(cond, self.match_pat(sub, inner, st))
        return cond

    # ------------------------------------------------------------------ expressions
    def ev(self, n, st):
        k = n["k"]
        m = getattr(self, "ev_" + k, None)
        if m is None:
            raise Unsupported("expression kind %s at %s" % (k, loc(n)))
        return m(n, st)

    def ev_Lit(self, n, st):
        l = n["lit"]
        if l["t"] == "bytes":
            return [(st, ("val", lit(bytes(l["v"]))))]
        return [(st, ("val", lit(l.get("v"))))]

    def ev_DropTemps(self, n, st):
        return self.ev(n["e"], st)

    ev_Use = ev_DropTemps
    ev_Type = ev_DropTemps

    def ev_AddrOf(self, n, st):
        return self.ev(n["e"], st)

    def ev_Unary(self, n, st):
        op = n["op"]
        def k(s, v):
            if op == "Deref":
                return [(s, ("val", v))]
            if op == "Not":
                return [(s, ("val", tnot(v)))]
            if op == "Neg":
                if is_lit(v) and isinstance(v[1], int):
                    return [(s, ("val", lit(-v[1])))]
                return [(s, ("val", app("neg", v)))]
            raise Unsupported("unary " + op)
        return self.bind(self.ev(n["e"], st), k)

    def ev_Cast(self, n, st):
        def k(s, v):
            if n.get("from") == n.get("to"):
                return [(s, ("val", v))]
            if v[0] == "lit" and isinstance(v[1], bool) and str(n.get("to")) in ("u8", "u16", "u32", "u64", "usize", "i8", "i16", "i32", "i64", "isize"):
                return [(s, ("val", lit(int(v[1]))))]
            return [(s, ("val", app("cast", lit(n.get("to")), v)))]
        return self.bind(self.ev(n["e"], st), k)

    def ev_Path(self, n, st):
        r = n["res"]
        if r["k"] == "Local":
            if r["lid"] in st.env:
                return [(st, ("val", st.env[r["lid"]]))]
            return [(st, ("val", ("var", r["name"])))]
        if r["k"] == "Def":
            dk = r.get("dk", "")
            if dk.startswith("Ctor") or dk == "Variant":
                if r.get("variant") == "None" and r.get("adt") == "std::option::Option":
                    return [(st, ("val", ("none",)))]
                # unit variant / unit struct
                return [(st, ("val", ("ctor", r.get("adt"), r.get("variant"), ())))]
            if dk in ("Fn", "AssocFn"):
                return [(st, ("val", ("fnref", (n.get("callee") or {}).get("inst") or r["path"], n.get("callee"))))]
            if dk.startswith("Const") or dk.startswith("AssocConst") or dk.startswith("Static"):
                return [(st, ("val", self.const_value(r["path"], static=dk.startswith("Static"))))]
        if r["k"] == "SelfCtor":
            return [(st, ("val", ("fnref", "ctor:" + r["path"], None)))]
        return [(st, ("val", ("unknown", "path %s" % r)))]

    def ev_Tup(self, n, st):
        if not n["elems"]:
            return [(st, ("val", UNIT))]
        return self.bind(self.ev_list(n["elems"], st), lambda s, vs: [(s, ("val", ("tuple", vs)))])

    def ev_Array(self, n, st):
        return self.bind(self.ev_list(n["elems"], st), lambda s, vs: [(s, ("val", app("array", *vs)))])

    def ev_Repeat(self, n, st):
        ty = self.fx.ty(n) or ""
        import re as _re
        for nme, val in (getattr(self, "genv", [{}])[-1] or {}).items():
            if _re.fullmatch(r"\d+", str(val)):
                ty = _re.sub(r"\b%s\b" % _re.escape(nme), str(val), ty)
        return self.bind(self.ev(n["e"], st), lambda s, v: [(s, ("val", app("repeat_array", v, lit(ty))))])

    def ev_Struct(self, n, st):
        r = n["res"]
        names = [f["name"] for f in n["fields"]]
        def k(s, vs):
            return [(s, ("val", ("ctor", r.get("adt") or r.get("path"), r.get("variant"), tuple(zip(names, vs)))))]
        return self.bind(self.ev_list([f["e"] for f in n["fields"]], st), k)

    def ev_Field(self, n, st):
        name = n["name"]
        def k(s, b):
            key = (b, name)
            if key in s.fields:
                return [(s, ("val", s.fields[key]))]
            if b[0] == "ctor":
                for fn_, t in b[3]:
                    if fn_ == name:
                        return [(s, ("val", t))]
            if b[0] == "tuple" and name.isdigit() and int(name) < len(b[1]):
                return [(s, ("val", b[1][int(name)]))]
            r = self.client.field_read(self, b, name, n, s)
            if r is not None:
                return [(s, ("val", r))]
            return [(s, ("val", app("field", b, lit(name))))]
        return self.bind(self.ev(n["base"], st), k)

    def ev_Index(self, n, st):
        def k(s, vs):
            b, i = vs
            from .stdmodels import _concrete_elems
            ce = _concrete_elems(b) if isinstance(b, tuple) and b and b[0] == "app" else None
            if ce is not None and is_lit(i) and isinstance(i[1], int) and not isinstance(i[1], bool):
                if 0 <= i[1] < len(ce):
                    return [(s, ("val", ce[i[1]]))]
                return [(s, ("panic", "index out of bounds"))]
            return [(s, ("val", app("index", b, i)))]
        return self.bind(self.ev_list([n["base"], n["idx"]], st), k)

    def ev_Binary(self, n, st):
        op = n["op"]
        if op in ("And", "Or"):
            out = []
            for s, o in self.ev(n["lhs"], st):
                if o[0] != "val":
                    out.append((s, o))
                    continue
                a = o[1]
                if op == "And" and a == FALSE:
                    out.append((s, ("val", FALSE)))
                    continue
                if op == "Or" and a == TRUE:
                    out.append((s, ("val", TRUE)))
                    continue
                n_eff = len(s.eff)
                for s2, o2 in self.ev(n["rhs"], s):
                    if o2[0] != "val":
                        out.append((s2, o2))
                        continue
                    b = o2[1]
                    if len(s2.eff) != n_eff and not (is_lit(a)):
                        s2.eff.insert(n_eff, {"k": "note", "args": ("effects under a symbolic short-circuit operand",), "res": None, "at": loc(n)})
                    out.append((s2, ("val", tand(a, b) if op == "And" else tor(a, b))))
            return out
        def k(s, vs):
            a, b = vs
            return [(s, ("val", self.binop(op, a, b, n)))]
        return self.bind(self.ev_list([n["lhs"], n["rhs"]], st), k)

    def binop(self, op, a, b, n=None):
        if is_lit(a) and is_lit(b):
            x, y = a[1], b[1]
            try:
                if op == "Eq":
                    return lit(x == y)
                if op == "Ne":
                    return lit(x != y)
                if isinstance(x, int) and isinstance(y, int) and not isinstance(x, bool):
                    r = {"Add": lambda: x + y, "Sub": lambda: x - y, "Mul": lambda: x * y,
                         "Lt": lambda: x < y, "Le": lambda: x <= y, "Gt": lambda: x > y, "Ge": lambda: x >= y}.get(op)
                    if r:
                        return lit(r())
            except Exception:
                pass
        prim = (n or {}).get("lprim")
        return ("app", op.lower(), (a, b)) if not prim else ("app", op.lower(), (a, b))

    def ev_Assign(self, n, st):
        def k(s, v):
            return self.assign(n["lhs"], v, s, n)
        return self.bind(self.ev(n["rhs"], st), k)

    def ev_AssignOp(self, n, st):
        op = n["op"].replace("Assign", "")
        def k(s, vs):
            old, v = vs
            return self.assign(n["lhs"], self.binop(op, old, v, n), s, n)
        return self.bind(self.ev_list([n["lhs"], n["rhs"]], st), k)

    def assign(self, lhs, v, st, node):
        l = peel(lhs)
        derefs = 0
        while l["k"] == "Unary" and l["op"] == "Deref":
            l = peel(l["e"])
            derefs += 1
        if l["k"] == "Path" and l["res"]["k"] == "Local":
            cur = st.env.get(l["res"]["lid"])
            if derefs and isinstance(cur, tuple) and len(cur) == 3 and cur[0] == "sym" and cur[2] == "elem":
                # `*slot = v` for the element a loop over `xs.iter_mut()` is visiting: a store into that sequence at the
                # position being visited (the same effect as `xs[i] = v` in an index loop)
                self.effect(st, "store_index", (("app", "iterated_by", (cur,)), cur, v), node=node)
                return [(st, ("val", UNIT))]
            if derefs and isinstance(cur, tuple) and cur[:1] == ("payload",):
                # `*slot = v` where slot came from `xs.get_mut(i)` (checked access): a store into xs at i
                for e in reversed(st.eff):
                    if e["k"] == "call" and e.get("res") == cur[1] and e["args"][0][1].rsplit("::", 1)[-1] == "get_mut" and len(e["args"]) == 3:
                        self.effect(st, "store_index", (e["args"][1], e["args"][2], v), node=node, checked=cur[1])
                        return [(st, ("val", UNIT))]
            st.env[l["res"]["lid"]] = v
            return [(st, ("val", UNIT))]
        if l["k"] == "Field":
            def k(s, b):
                s.fields[(b, l["name"])] = v
                self.effect(s, "set_field", (b, lit(l["name"]), v), node=node, adt=l.get("adt"))
                return [(s, ("val", UNIT))]
            return self.bind(self.ev(l["base"], st), k)
        if l["k"] == "Index":
            def k(s, vs):
                b, i = vs
                self.effect(s, "store_index", (b, i, v), node=node)
                return [(s, ("val", UNIT))]
            return self.bind(self.ev_list([l["base"], l["idx"]], st), k)
        raise Unsupported("assignment target %s at %s" % (l["k"], loc(node)))

    # -- blocks / control ----------------------------------------------------------
    def ev_Block(self, n, st):
        res = self.ev_block(n["block"], st)
        if "label" in n:
            out = []
            for s, o in res:
                if o[0] == "brk" and o[1] == n["id"]:
                    out.append((s, ("val", o[2] if o[2] is not None else UNIT)))
                else:
                    out.append((s, o))
            return out
        return res

    def ev_block(self, b, st):
        res = [(st, ("val", UNIT))]
        for stmt in b["stmts"]:
            nxt = []
            for s, o in res:
                if o[0] != "val":
                    nxt.append((s, o))
                    continue
                nxt.extend(self.ev_stmt(stmt, s))
            res = nxt
        if "expr" in b:
            return self.bind(res, lambda s, _: self.ev(b["expr"], s))
        return self.bind(res, lambda s, _: [(s, ("val", UNIT))])

    def ev_stmt(self, stmt, st):
        k = stmt["k"]
        if k == "Item":
            return [(st, ("val", UNIT))]
        if k in ("Expr", "Semi"):
            return self.bind(self.ev(stmt["e"], st), lambda s, _: [(s, ("val", UNIT))])
        if k == "Let":
            if "init" not in stmt:
                return [(st, ("val", UNIT))]
            def kk(s, v):
                c = self.match_pat(stmt["pat"], v, s)
                if c is True:
                    return [(s, ("val", UNIT))]
                if "els" in stmt:
                    out = []
                    if c is not False:
                        s_ok = s.fork()
                        self.effect(s_ok, "assume", (c, TRUE), node=stmt)
                        out.append((s_ok, ("val", UNIT)))
                    s_no = s.fork()
                    if c is not False:
                        self.effect(s_no, "assume", (c, FALSE), node=stmt)
                    out.extend(self.ev_block(stmt["els"], s_no))
                    return out
                # refutable let without else cannot type-check; treat symbolic condition as assumed
                if c is not False:
                    return [(s, ("val", UNIT))]
                return [(s, ("panic", "irrefutable let did not match"))]
            return self.bind(self.ev(stmt["init"], st), kk)
        raise Unsupported("stmt " + k)

    def ev_If(self, n, st):
        out = []
        for s, o in self.ev_cond(n["cond"], st):
            if o[0] != "val":
                out.append((s, o))
                continue
            c = o[1]
            d = s.decide(c)
            if d is not None:
                c = TRUE if d else FALSE
            if c == TRUE:
                out.extend(self.ev(n["then"], s))
            elif c == FALSE:
                out.extend(self.ev(n["else"], s) if "else" in n else [(s, ("val", UNIT))])
            else:
                s1 = s.fork()
                self.effect(s1, "assume", (c, TRUE), node=n)
                out.extend(self.ev(n["then"], s1))
                s2 = s.fork()
                self.effect(s2, "assume", (c, FALSE), node=n)
                out.extend(self.ev(n["else"], s2) if "else" in n else [(s2, ("val", UNIT))])
        return out

    def ev_cond(self, c, st):
        """Condition of an `if`: boolean expression or `let` pattern test (binds on success)."""
        c = peel(c)
        if c["k"] == "Let":
            def k(s, v):
                cond = self.match_pat(c["pat"], v, s)
                if cond is True:
                    return [(s, ("val", TRUE))]
                if cond is False:
                    return [(s, ("val", FALSE))]
                return [(s, ("val", cond))]
            return self.bind(self.ev(c["init"], st), k)
        return self.ev(c, st)

    def ev_Let(self, n, st):
        return self.ev_cond(n, st)

    def ev_Match(self, n, st):
        src = n.get("src")
        if src == "TryDesugar":
            return self.ev_try(n, st)
        if src == "ForLoopDesugar":
            return self.ev_for(n, st)
        out = []
        for s, o in self.ev(n["scrut"], st):
            if o[0] != "val":
                out.append((s, o))
                continue
            out.extend(self.match_arms(n, o[1], s))
        return out

    def match_arms(self, n, v, st):
        """First-match semantics over a set of states in which no earlier arm has matched."""
        out = []
        curs = [st]
        for i, arm in enumerate(n["arms"]):
            nxt = []
            for cur in curs:
                s_try = cur.fork()
                c = self.match_pat(arm["pat"], v, s_try)
                if c is not True and c is not False:
                    d = s_try.decide(c)
                    if d is not None:
                        c = d
                if c is False:
                    nxt.append(cur)
                    continue
                if "guard" not in arm:
                    if c is not True:
                        f = cur.fork()
                        self.effect(f, "assume", (c, FALSE), node=arm["pat"], arm=i)
                        nxt.append(f)
                        self.effect(s_try, "assume", (c, TRUE), node=arm["pat"], arm=i)
                    s_try.eff.append({"k": "arm", "args": (lit(i),), "res": None, "at": loc(arm["pat"]), "match": n["id"]})
                    out.extend(self.ev(arm["body"], s_try))
                    continue
                # guarded arm: the guard may itself fork
                pattern_fall = None
                if c is not True:
                    pattern_fall = cur.fork()
                    self.effect(pattern_fall, "assume", (c, FALSE), node=arm["pat"], arm=i)
                    self.effect(s_try, "assume", (c, TRUE), node=arm["pat"], arm=i)
                    nxt.append(pattern_fall)
                for sg, og in self.ev_cond(arm["guard"], s_try):
                    if og[0] != "val":
                        out.append((sg, og))
                        continue
                    g = og[1]
                    dg = sg.decide(g)
                    if dg is not None:
                        g = TRUE if dg else FALSE
                    if g != TRUE:
                        f2 = sg.fork()
                        f2.env = dict(cur.env)
                        if g != FALSE:
                            self.effect(f2, "assume", (g, FALSE), node=arm["pat"], arm=i)
                        nxt.append(f2)
                    if g == FALSE:
                        continue
                    if g != TRUE:
                        self.effect(sg, "assume", (g, TRUE), node=arm["pat"], arm=i)
                    sg.eff.append({"k": "arm", "args": (lit(i),), "res": None, "at": loc(arm["pat"]), "match": n["id"]})
                    out.extend(self.ev(arm["body"], sg))
            curs = nxt
            if not curs:
                break
        return out

    def ev_try(self, n, st):
        """`expr?`"""
        sc = n["scrut"]
        inner = sc["args"][0] if sc.get("k") == "Call" and sc.get("args") else sc
        def k(s, v):
            return self.split_fallible(s, v, n, on_fail="ret")
        return self.bind(self.ev(inner, st), k)

    def split_fallible(self, st, v, node, on_fail):
        """Continue with the success payload; the failure path returns/panics."""
        tag = v[0]
        if tag in ("ok", "some"):
            return [(st, ("val", v[1]))]
        if tag == "err":
            return [(st, ("ret", ("err", v[1])) if on_fail == "ret" else ("panic", "unwrap on Err"))]
        if tag == "none":
            return [(st, ("ret", ("none",)) if on_fail == "ret" else ("panic", "unwrap on None"))]
        # symbolic
        ty = self.fx.ty(node.get("scrut", {}).get("args", [node])[0]) if node.get("k") == "Match" else None
        s_ok = st
        s_err = st.fork()
        self.effect(s_ok, "assume_ok", (v,), node=node)
        self.effect(s_err, "assume_fail", (v,), node=node)
        fail_out = ("ret", ("err", ("errof", v))) if on_fail == "ret" else ("panic", "expect/unwrap on a failed value")
        payload = getattr(self, "collect_payload", {}).get(v, ("payload", v))
        return [(s_ok, ("val", payload)), (s_err, fail_out)]

    def ev_Ret(self, n, st):
        if "e" not in n:
            return [(st, ("ret", UNIT))]
        return self.bind(self.ev(n["e"], st), lambda s, v: [(s, ("ret", v))])

    def ev_Break(self, n, st):
        if "e" in n:
            return self.bind(self.ev(n["e"], st), lambda s, v: [(s, ("brk", n.get("target"), v))])
        return [(st, ("brk", n.get("target"), None))]

    def ev_Continue(self, n, st):
        return [(st, ("cont", n.get("target")))]

    def ev_Closure(self, n, st):
        return [(st, ("val", ("closure", id(n), n, st.env)))]

    def apply_closure(self, c, args, st):
        """Run closure body in st (env = captured env + params). Returns list of (st, out)."""
        node, cenv = c[2], c[3]
        saved = st.env
        env = dict(cenv)
        # captured variables may have been updated in the live environment
        for kx, vx in saved.items():
            if kx in cenv:
                env[kx] = vx
        st.env = env
        for p, a in zip(node["params"], args):
            self.match_pat(p, a, st)
        res = self.ev(node["body"], st)
        out = []
        for s, o in res:
            s.env = saved if s is st else dict(saved)
            if o[0] == "ret":
                out.append((s, ("val", o[1])))
            else:
                out.append((s, o))
        return out

    # -- loops ---------------------------------------------------------------------
    def assigned_locals(self, node):
        """lids assigned (or mutably method-called) inside a loop body."""
        from .facts import walk
        out = set()
        for x, _ in walk(node):
            if x.get("k") in ("Assign", "AssignOp"):
                l = peel(x["lhs"])
                while l.get("k") in ("Unary", "Index", "Field"):
                    l = peel(l.get("e") or l.get("base"))
                if l.get("k") == "Path" and l["res"].get("k") == "Local":
                    out.add((l["res"]["lid"], l["res"]["name"]))
        return out

    def loop_carried(self, node, st):
        """assigned locals plus the variables the executor rebinds when they are grown / reordered in place inside the
        loop (see ev_MethodCall) — those only when they hold a *term*: an object keeps its identity and its effects"""
        from .facts import walk
        out = set(self.assigned_locals(node))
        for x, _ in walk(node):
            if x.get("k") == "MethodCall" and (x["name"] in self.INPLACE or x["name"] in self.GROW):
                l = peel(x["recv"])
                if l.get("k") == "Path" and (l.get("res") or {}).get("k") == "Local":
                    cur = st.env.get(l["res"]["lid"])
                    if isinstance(cur, tuple) and cur[:1] not in (("obj",), ("iter",)):
                        out.add((l["res"]["lid"], l["res"]["name"]))
        return out

    def ev_for(self, n, st):
        """for PAT in ITER { BODY }  (desugared match into_iter(ITER) { mut iter => loop { match next(&mut iter) {…} } })"""
        sc = n["scrut"]
        iter_expr = sc["args"][0]
        loop = peel(n["arms"][0]["body"])
        inner = None
        blk = loop["body"]
        cand = blk.get("expr") or (blk["stmts"][0]["e"] if blk["stmts"] else None)
        inner = peel(cand)
        some_arm = None
        for a in inner["arms"]:
            if (a["pat"].get("res") or {}).get("variant") == "Some":
                some_arm = a
        sp = some_arm["pat"]
        pat = sp["pats"][0] if "pats" in sp else sp["fields"][0]["pat"]
        body = some_arm["body"]
        loop_id = loop["id"]
        def k(s, itv):
            itv = self.as_iter(itv)
            return self.run_loop(s, "foreach", loop_id, itv, pat, body, n)[0]
        return self.bind(self.ev(iter_expr, st), k)

    def run_loop(self, st, kind, loop_id, itv, pat, body, node, closure=None):
        """One symbolic iteration. Records a `foreach` effect holding the body's paths.
        A sequence of known elements is executed element by element instead; `a.chain(b)` runs as two loops."""
        if itv[0] == "iter" and itv[3] and all(isinstance(f, tuple) and f and f[0] == "chain" for f in itv[3]) and itv[2] == "fwd":
            parts = [("iter", itv[1], "fwd", ())] + [self.as_iter(f[1]) for f in itv[3]]
            outs = [(st, ("val", UNIT))]
            last_e = None
            for pi, part in enumerate(parts):
                nxt = []
                for s, o in outs:
                    if o != ("val", UNIT):
                        nxt.append((s, o))
                        continue
                    r, last_e = self.run_loop(s, kind, loop_id * 10 + pi, part, pat, body, node, closure)
                    nxt.extend(r)
                outs = nxt
            return outs, last_e
        if itv[0] == "iter" and not itv[3]:
            from .stdmodels import _concrete_elems
            elems = _concrete_elems(itv[1])
            if elems is not None and len(elems) <= 8:
                elems = list(elems) if itv[2] == "fwd" else list(reversed(elems))
                live = [st]
                outs = []
                for el in elems:
                    nxt = []
                    for s in live:
                        if closure is None:
                            self.match_pat(pat, el, s)
                            res = self.ev(body, s)
                        else:
                            res = self.apply_closure(closure, (el,), s)
                        for s2, o in res:
                            if o[0] in ("val", "cont"):
                                if closure is not None and o[0] == "val" and kind == "try_for_each":
                                    v = o[1]
                                    if v[0] == "err":
                                        outs.append((s2, ("stop", v)))
                                        continue
                                    if v[0] == "fall":
                                        s_err = s2.fork()
                                        self.effect(s2, "assume_ok", (v,), node=node)
                                        self.effect(s_err, "assume_fail", (v,), node=node)
                                        outs.append((s_err, ("stop", ("err", ("errof", v)))))
                                nxt.append(s2)
                            elif o[0] == "brk" and o[1] == loop_id:
                                outs.append((s2, ("val", UNIT)))
                            else:
                                outs.append((s2, o))
                    live = nxt
                return [(s, ("val", UNIT)) for s in live] + outs, None
        lid_names = self.loop_carried(body, st) if body is not None else set()
        body_st = State(dict(st.env), [], dict(st.fields), dict(st.facts))
        for lid, name in lid_names:
            if lid in body_st.env:
                body_st.env[lid] = ("sym", next(self.counter), "loopvar:" + name)
        body_st_env0 = dict(body_st.env)
        elem = ("sym", next(self.counter), "elem")
        if closure is None:
            self.match_pat(pat, self.elem_term(itv, elem), body_st)
            self.loop_depth = getattr(self, "loop_depth", 0) + 1
            try:
                res = self.ev(body, body_st)
            finally:
                self.loop_depth -= 1
        else:
            self.loop_depth = getattr(self, "loop_depth", 0) + 1
            try:
                res = self.apply_closure(closure, (self.elem_term(itv, elem),), body_st)
            finally:
                self.loop_depth -= 1
            if kind == "try_for_each":
                # the closure's Result decides: Err stops the traversal and becomes the value of try_for_each
                res2 = []
                for s, o in res:
                    if o[0] == "val" and o[1][0] == "err":
                        res2.append((s, ("stop", o[1])))
                    elif o[0] == "val" and o[1][0] == "fall":
                        s_err = s.fork()
                        self.effect(s, "assume_ok", (o[1],), node=node)
                        self.effect(s_err, "assume_fail", (o[1],), node=node)
                        res2.append((s, ("val", UNIT)))
                        res2.append((s_err, ("stop", ("err", ("errof", o[1])))))
                    else:
                        res2.append((s, o))
                res = res2
        paths = []
        exits = []
        results = []
        finals = []
        for s, o in res:
            p = {"eff": s.eff, "out": o}
            if o[0] in ("val", "cont") or (o[0] == "brk" and o[1] == loop_id):
                paths.append(p)
                finals.append((s, o))
                if o[0] == "val":
                    results.append(o[1])
            else:
                exits.append(p)
        e = self.effect(st, "foreach", (itv,), node=node, loop=loop_id, elem=elem, paths=paths, exits=exits, results=results)
        # `for slot in xs.iter_mut() { *slot = v }`: afterwards xs holds what was stored (like `xs[i] = v` in an index loop)
        if paths and all(len([x for x in p["eff"] if x["k"] == "store_index" and x["args"][0] == ("app", "iterated_by", (elem,))]) == 1 for p in paths) and itv[0] == "iter":
            stored = ("sym", next(self.counter), "after_loop:stored")
            for k2 in list(st.env):
                st.env[k2] = _subst_term(st.env[k2], itv[1], stored)
        unfiltered = itv[0] == "iter" and not any(isinstance(f, tuple) and f and f[0] in ("filter", "take_while", "skip_while", "filter_map", "flat_map", "take", "skip", "step_by") for f in itv[3])
        every_iteration = unfiltered and all(o[0] == "val" for _, o in finals) and bool(finals)
        # after the loop, loop-assigned locals are unknown — except counters: x = x + c on every iteration
        lv_of = {}
        for lid, name in lid_names:
            if lid in body_st_env0:
                lv_of[lid] = body_st_env0[lid]
        for lid, name in lid_names:
            if lid in st.env:
                after = ("sym", next(self.counter), "after_loop:" + name)
                if every_iteration and lid in lv_of:
                    steps = {s.env.get(lid) for s, _ in finals}
                    lv = lv_of[lid]
                    if len(steps) == 1:
                        stp = next(iter(steps))
                        if stp == lv:
                            after = st.env[lid]
                        elif stp in (("app", "add", (lv, lit(1))), ("app", "add", (lit(1), lv))):
                            from .stdmodels import tlen
                            n_it = tlen(itv)
                            after = n_it if st.env[lid] == lit(0) else ("app", "add", (st.env[lid], n_it))
                if after[0] == "sym" and lid in lv_of:
                    # loop-carried variable: value before the loop, its symbol inside the body, its value at the end of
                    # each pass (an accumulation `acc = f(acc, elem)` is a fold — see as_left_fold)
                    e.setdefault("carried", {})[after] = {"name": name, "init": st.env[lid], "acc": lv_of[lid],
                                                          "steps": [s.env.get(lid) for s, _ in finals], "every_iteration": every_iteration,
                                                          "conds": [[(x["args"][0], x["args"][1]) for x in s.eff if x["k"] == "assume"] for s, _ in finals],
                                                          "effs": [s.eff for s, _ in finals]}
                st.env[lid] = after
        # a loop that pushes exactly one value per iteration onto a vector that was empty is a `map(..).collect()`
        if every_iteration and closure is None:
            self._push_loop_as_collect(st, e, paths, loop_id)
        outs = [(st, ("val", UNIT))]
        # abnormal exits (return / panic from inside the loop) continue as separate paths
        for p in exits:
            s2 = st.fork()
            s2.eff[-1] = dict(e, taken_exit=True)
            s2.eff.extend(p["eff"])
            outs.append((s2, p["out"]))
        return outs, e

    def _counted_loop(self, st, e, paths, init):
        """A `while` whose condition makes it run exactly n times is the loop `for _ in 0..n`:
             while c > 0 / c != 0 { c -= 1; .. }            (c starts at n, nothing else touches it)
             while v.len() < n { v.push(..) once; .. }      (v starts empty, n is not changed)
        The effect is rewritten in place to a `foreach` over 0..n; True when that happened."""
        cont = [p for p in paths if p["out"][0] in ("val", "cont")]
        leave = [p for p in paths if p["out"][0] == "brk"]
        if not cont or len(leave) != 1 or any(x["k"] not in ("assume", "arm") for x in leave[0]["eff"]):
            return False
        def first_cond(p):
            for x in p["eff"]:
                if x["k"] == "assume":
                    c, v = x["args"]
                    neg = v != TRUE
                    while c[0] == "app" and c[1] == "not":
                        c, neg = c[2][0], not neg
                    return c, not neg
                if x["k"] != "arm":
                    return None, None
            return None, None
        conds = {first_cond(p) for p in cont}
        if len(conds) != 1:
            return False
        c, pos = next(iter(conds))
        if c is None or c[0] != "app":
            return False
        op, a = c[1], c[2]
        if not pos:
            op = {"gt": "le", "lt": "ge", "ge": "lt", "le": "gt", "ne": "eq", "eq": "ne"}.get(op)
        n_term = None
        if op in ("gt", "ne") and len(a) == 2 and a[0] in init and a[1] == lit(0):
            ctr = a[0]
            if all((p.get("next") or {}).get(ctr) in (("app", "sub", (ctr, lit(1))),) for p in cont):
                n_term = init[ctr]
        elif op == "lt" and len(a) == 2 and a[0][0] == "app" and a[0][1] == "len" and a[0][2][0][0] == "obj":
            vec = a[0][2][0]
            is_push = lambda x: x["k"] == "call" and x["args"][0][1].endswith("::push") and len(x["args"]) == 3 and x["args"][1] == vec
            if all(len([x for x in p["eff"] if is_push(x)]) == 1 for p in cont) and not any(
                    x["k"] == "call" and len(x["args"]) > 1 and x["args"][1] == vec for x in st.eff[:-1]) and not _mentions_term(a[1], vec) and a[1] not in init:
                n_term = a[1]
        if n_term is None:
            return False
        rng = ("ctor", "std::ops::Range", None, (("start", lit(0)), ("end", n_term)))
        e["k"] = "foreach"
        e["args"] = (("iter", rng, "fwd", ()),)
        e["elem"] = ("sym", next(self.counter), "elem")
        e["paths"] = [dict(p, out=("val", UNIT)) for p in cont]
        e["results"] = [UNIT for _ in cont]
        e["counted_while"] = True
        return True

    def _push_loop_as_collect(self, st, e, paths, loop_id):
        def is_push(x):
            return x["k"] == "call" and x["args"][0][1].endswith("::push") and len(x["args"]) == 3 and x["args"][1][0] == "obj" and x["args"][1][1] == "Vec"
        cands = {x["args"][1] for p in paths for x in p["eff"] if is_push(x)}
        if len(cands) != 1:
            return
        obj = next(iter(cands))
        results = []
        for p in paths:
            pushes = [x for x in p["eff"] if is_push(x) and x["args"][1] == obj]
            others = [x for x in p["eff"] if x["k"] == "call" and not is_push(x) and len(x["args"]) > 1 and x["args"][1] == obj]
            nested = [x for x in p["eff"] if x["k"] in ("foreach", "loop") and _mentions_term(x, obj)]
            if len(pushes) != 1 or others or nested:
                return
            results.append(pushes[0]["args"][2])
        if any(x["k"] == "call" and len(x["args"]) > 1 and x["args"][1] == obj for x in st.eff[:-1]):
            return      # not empty when the loop starts
        itv = e["args"][0]
        if len(paths) == 1 and not e.get("exits") and all(x is pushes0 for x in paths[0]["eff"] for pushes0 in [[y for y in paths[0]["eff"] if is_push(y)][0]]
                                                          if x["k"] not in ("assume", "arm")) and itv[0] == "iter" and all(f == "enumerate" for f in itv[3]) and not itv[3]:
            # nothing but the push happens: the pure element-wise mapping `base.iter().map(f).collect()`
            coll = app("map_of", ("iter", itv[1], itv[2], ()), results[0], e["elem"])
            if results[0] == e["elem"] and itv[2] == "fwd" and not (itv[1][0] == "app" and itv[1][1] in ("chars", "bytes", "keys", "values", "lines", "char_indices")):
                coll = itv[1]       # element-wise identity: the same sequence
            if st.eff and st.eff[-1] is e:
                st.eff.pop()
            for k2 in list(st.env):
                st.env[k2] = _subst_term(st.env[k2], obj, coll)
            for k2 in list(st.fields):
                st.fields[k2] = _subst_term(st.fields[k2], obj, coll)
            return
        e["results"] = results
        e["driver"] = "collect"
        e["pipeline"] = ("map",)
        e["elem_fail"] = []
        e["filtered"] = False
        e["pushes_into"] = obj
        self.loops = getattr(self, "loops", {})
        self.loops[loop_id] = e
        coll = app("collected", lit(loop_id))
        for k2 in list(st.env):
            st.env[k2] = _subst_term(st.env[k2], obj, coll)
        for k2 in list(st.fields):
            st.fields[k2] = _subst_term(st.fields[k2], obj, coll)

    def elem_term(self, itv, elem):
        flags = itv[3] if itv[0] == "iter" else ()
        if "enumerate" in flags:
            return ("tuple", (("sym", elem[1], "index"), elem))
        return elem

    def as_iter(self, v):
        if v[0] == "iter":
            return v
        return ("iter", v, "fwd", ())

    def const_value(self, path, static=False):
        """a crate-local `const` / associated const is its initialiser when that evaluates, without effects, to a closed
        value (a literal, or a constructor / array / tuple of such); otherwise the opaque term const(path)"""
        opaque = app("const", lit(path))
        if static:
            return opaque
        memo = self.__dict__.setdefault("_consts", {})
        if path in memo:
            return memo[path]
        memo[path] = opaque          # recursion guard
        bs = [b for b in self.fx.hir_by_path.get(path, []) if str(b.get("dk", "")).startswith(("Const", "AssocConst"))]
        if len(bs) == 1:
            try:
                res = self.ev(bs[0]["value"], State())
            except Exception:   # noqa
                res = []
            if len(res) == 1 and res[0][1][0] == "val" and not res[0][0].eff and _closed(res[0][1][1]):
                memo[path] = res[0][1][1]
        return memo[path]

    def _while_let_next(self, n, st):
        """`while let Some(PAT) = IT.next() { BODY }` over a local iterator is `for PAT in IT { BODY }` (a body that
        advances IT itself shows that as `next` calls on the iterator inside the pass). Returns (pat, iterator, body)."""
        if n.get("src") != "While":
            return None
        blk = n["body"]
        if blk.get("stmts") or not blk.get("expr"):
            return None
        iff = peel(blk["expr"])
        if iff.get("k") != "If" or peel(iff["cond"]).get("k") != "Let" or "else" not in iff:
            return None
        let = peel(iff["cond"])
        pat, init = let["pat"], peel(let["init"])
        if pat.get("k") != "TupleStruct" or (pat.get("res") or {}).get("variant") != "Some" or len(pat.get("pats", [])) != 1:
            return None
        if init.get("k") != "MethodCall" or init["name"] != "next" or init["args"]:
            return None
        rcv = peel(init["recv"])
        if rcv.get("k") != "Path" or (rcv.get("res") or {}).get("k") != "Local":
            return None
        itv = st.env.get(rcv["res"]["lid"])
        if not (isinstance(itv, tuple) and itv[:1] == ("iter",)):
            return None
        els = peel(iff["else"])
        eb = els.get("block") if els.get("k") == "Block" else None
        only_break = eb is not None and not eb.get("expr") and len(eb.get("stmts", [])) == 1 and peel(eb["stmts"][0].get("e") or {}).get("k") == "Break"
        if not only_break:
            return None
        return pat["pats"][0], itv, iff["then"]

    def ev_Loop(self, n, st):
        wl = self._while_let_next(n, st)
        if wl is not None:
            return self.run_loop(st, "foreach", n["id"], wl[1], wl[0], wl[2], n)[0]
        src = n.get("src")
        body = n["body"]
        loop_id = n["id"]
        lid_names = self.loop_carried({"k": "Block", "block": body, "id": -1}, st)
        body_st = State(dict(st.env), [], dict(st.fields), dict(st.facts))
        init = {}
        lv = {}
        for lid, name in lid_names:
            if lid in body_st.env:
                sym = ("sym", next(self.counter), "loopvar:" + name)
                init[sym] = st.env[lid]
                lv[lid] = sym
                body_st.env[lid] = sym
        self.loop_depth = getattr(self, "loop_depth", 0) + 1
        try:
            res = self.ev_block(body, body_st)
        finally:
            self.loop_depth -= 1
        paths, exits = [], []
        for s, o in res:
            p = {"eff": s.eff, "out": o, "next": {sym: s.env.get(lid) for lid, sym in lv.items()}}
            if o[0] in ("val", "cont") or (o[0] == "brk" and o[1] == loop_id):
                paths.append(p)
            else:
                exits.append(p)
        e = self.effect(st, "loop", (), node=n, loop=loop_id, src=src, paths=paths, exits=exits, init=init)
        counted = self._counted_loop(st, e, paths, init)
        for lid, name in lid_names:
            if lid in st.env:
                st.env[lid] = ("sym", next(self.counter), "after_loop:" + name)
        if counted:
            self._push_loop_as_collect(st, e, e["paths"], loop_id)
        outs = [(st, ("val", UNIT))]
        if src == "Loop" and not any(p["out"][0] == "brk" for p in paths):
            outs = []        # `loop { .. }` without a `break` is only ever left through return / panic
        for p in exits:
            s2 = st.fork()
            s2.eff[-1] = dict(e, taken_exit=True)
            s2.eff.extend(p["eff"])
            outs.append((s2, p["out"]))
        return outs

    # -- format_args -----------------------------------------------------------------
    def ev_FormatArgs(self, n, st):
        tpl = []
        for p in n["pieces"]:
            if "lit" in p:
                tpl.append(("lit", p["lit"]))
            else:
                tpl.append(("arg", p["arg"], p["tr"], p.get("spec", "")))
        args = [a for a in n["args"]]
        known = [a for a in args if a.get("k") != "Unknown"]
        def k(s, vs):
            it = iter(vs)
            full = tuple(next(it) if a.get("k") != "Unknown" else ("unknown", "inlined literal") for a in args)
            return [(s, ("val", canon_fmt(tuple(tpl), full)))]
        return self.bind(self.ev_list(known, st), k)

    # -- calls -----------------------------------------------------------------------
    def ev_Call(self, n, st):
        if "ctor" in n:
            c = n["ctor"]
            def k(s, vs):
                variant, adt = c.get("variant"), c.get("adt")
                if adt == "std::option::Option" and variant == "Some":
                    return [(s, ("val", ("some", vs[0])))]
                if adt == "std::result::Result" and variant in ("Ok", "Err"):
                    return [(s, ("val", (variant.lower(), vs[0])))]
                return [(s, ("val", ("ctor", adt or c.get("path"), variant, tuple((str(i), v) for i, v in enumerate(vs)))))]
            return self.bind(self.ev_list(n["args"], st), k)
        cal = n.get("callee")
        if cal is None:
            # call of a closure / fn value
            def k(s, vs):
                f, args = vs[0], vs[1:]
                if f[0] == "closure":
                    return self.apply_closure(f, args, s)
                if f[0] == "fnref":
                    return self.call_path(f[1], f[2], None, list(args), n, s)
                return [(s, ("val", app("call_value", f, *args)))]
            return self.bind(self.ev_list([n["fun"]] + n["args"], st), k)
        path = cal.get("inst") or cal.get("def")
        return self.bind(self.ev_list(n["args"], st), lambda s, vs: self.call_path(path, cal, None, list(vs), n, s))

    # in-place operations that give the *same variable* a different sequence value
    INPLACE = {"sort": "sorted", "sort_unstable": "sorted", "sort_by": "sorted", "sort_by_key": "sorted", "sort_unstable_by": "sorted",
               "sort_unstable_by_key": "sorted", "sort_by_cached_key": "sorted", "dedup": "dedup", "dedup_by": "dedup", "dedup_by_key": "dedup",
               "retain": "retained", "retain_mut": "retained", "rotate_left": "permuted", "rotate_right": "permuted", "swap": "permuted",
               "shuffle": "permuted", "truncate": "shrunk", "drain": "shrunk", "swap_remove": "shrunk", "clear": "shrunk", "split_off": "shrunk"}

    GROW = ("push", "push_back", "push_front", "extend", "append", "extend_from_slice", "push_str", "resize_with")

    def ev_MethodCall(self, n, st):
        cal = n.get("callee") or {}
        path = cal.get("inst") or cal.get("def") or ("?::" + n["name"])
        head = self.INPLACE.get(n["name"])
        grow = n["name"] in self.GROW and not (cal.get("local") or cal.get("inst_local"))
        rcv = peel(n["recv"]) if (head or grow) else None
        lid = rcv["res"]["lid"] if rcv and rcv.get("k") == "Path" and (rcv.get("res") or {}).get("k") == "Local" else None
        if grow and lid is not None and n["name"] == "resize_with" and len(n["args"]) == 2:
            # `v.resize_with(n, f)` on an empty vector: f() called n times, the results in call order — the same
            # sequence as `(0..n).map(|_| f()).collect()`
            cur = st.env.get(lid)
            empty = cur == ("app", "array", ()) or (isinstance(cur, tuple) and cur[:1] == ("obj",) and not any(
                e["k"] == "call" and len(e["args"]) > 1 and e["args"][1] == cur and e["args"][0][1].rsplit("::", 1)[-1] not in ("with_capacity", "reserve", "len", "is_empty", "capacity")
                for e in st.eff))
            if empty:
                from . import stdmodels as _sm

                def kr(s, vs):
                    rng = ("ctor", "std::ops::Range", None, (("start", lit(0)), ("end", vs[0])))
                    outs = _sm.drive(self, "collect", ("iter", rng, "fwd", (("map", ("thunk", vs[1])),)), [], {"k": "MethodCall", "id": -n.get("id", 0) - 7, "sp": n.get("sp")}, s)
                    res = []
                    for s2, o in outs:
                        if o[0] == "val":
                            s2.env[lid] = o[1]
                            res.append((s2, ("val", UNIT)))
                        else:
                            res.append((s2, o))
                    return res
                return self.bind(self.ev_list(n["args"], st), kr)
        if grow and lid is not None and len(n["args"]) == 1:
            rty = (self.fx.ty(rcv) or "")
            cur = st.env.get(lid)
            owned = rty.startswith(("std::vec::Vec<", "std::collections::VecDeque<", "std::collections::vec_deque::VecDeque<"))
            if owned and n["name"] == "extend" and getattr(self, "loop_depth", 0) == 0 and isinstance(cur, tuple) and cur[:1] == ("obj",) and not any(
                    e["k"] == "call" and len(e["args"]) > 1 and e["args"][1] == cur and e["args"][0][1].rsplit("::", 1)[-1] not in ("with_capacity", "reserve", "len", "is_empty", "capacity")
                    for e in st.eff) and not _mentions_term([v for k9, v in st.env.items() if k9 != lid], cur):
                # a fresh, still empty vector outside any loop: `extend` gives it exactly the extension's elements
                cur = ("app", "array", ())
                st.env[lid] = cur
            is_seq_term = isinstance(cur, tuple) and cur[:1] in (("var",), ("app",), ("payload",)) and not (cur[:1] == ("app",) and cur[1] in ("call",))
            if rty == "std::string::String" and n["name"] in ("push_str", "push") and isinstance(cur, tuple) and cur[:1] in (("lit",), ("app",), ("var",), ("fmt",), ("payload",), ("sym",)):
                # an owned String that holds a text term and is appended to: it holds the longer text from here on
                def ks(s, vs):
                    old = s.env.get(lid)
                    parts = (old[2] if old[:2] == ("app", "concat_str") else (old,)) + (vs[0],)
                    s.env[lid] = ("app", "concat_str", tuple(parts))
                    return [(s, ("val", UNIT))]
                return self.bind(self.ev_list(n["args"], st), ks)
            if owned and is_seq_term:
                # an *owned* vector that holds a sequence term (a parameter, the result of a call, a concatenation) and is
                # grown in place: from here on the variable holds the longer sequence — `concat(old, [x])`, `concat(old, ys)`
                def kg(s, vs):
                    x = vs[0]
                    if n["name"] in ("extend", "append", "extend_from_slice"):
                        part = x[1] if (x[:1] == ("iter",) and x[2] == "fwd" and not x[3]) else x
                        if part[:1] == ("some",):
                            part = app("array", part[1])        # extending by an Option: its payload, if any
                        elif part == ("none",):
                            part = ("app", "array", ())
                        if part[:1] == ("iter",):
                            # an adapted iterator (`extend(xs.iter().map(f))`): what it yields, collected
                            from . import stdmodels as _sm
                            outs = _sm.drive(self, "collect", part, [], {"k": "MethodCall", "id": -n.get("id", 0) - 9, "sp": n.get("sp")}, s)
                            res2 = []
                            for s2, o in outs:
                                if o[0] != "val":
                                    res2.append((s2, o))
                                    continue
                                old2 = s2.env.get(lid)
                                flat = []
                                for q in (old2, o[1]):
                                    flat.extend(q[2] if (q[:2] == ("app", "concat")) else (q,))
                                flat = [q for q in flat if q != ("app", "array", ())]
                                s2.env[lid] = flat[0] if len(flat) == 1 else ("app", "concat", tuple(flat))
                                res2.append((s2, ("val", UNIT)))
                            return res2
                    else:
                        part = app("array", x)
                    old = s.env.get(lid)
                    parts = (part, old) if n["name"] == "push_front" else (old, part)
                    flat = []
                    for q in parts:
                        flat.extend(q[2] if (q[:2] == ("app", "concat")) else (q,))
                    flat = [q for q in flat if q != ("app", "array", ())] or [("app", "array", ())]
                    s.env[lid] = flat[0] if len(flat) == 1 else ("app", "concat", tuple(flat))
                    return [(s, ("val", UNIT))]
                res = []
                ok = True
                for s0, o0 in self.ev_list(n["args"], st):
                    if o0[0] != "val":
                        res.append((s0, o0))
                        continue
                    r = kg(s0, o0[1])
                    if r is None:
                        ok = False
                        break
                    res.extend(r)
                if ok:
                    return res

        def k(s, vs):
            res = self.call_path(path, cal, vs[0], list(vs[1:]), n, s)
            if head is not None and lid is not None and isinstance(vs[0], tuple) and vs[0][:1] not in (("obj",), ("iter",)) and not (cal.get("local") or cal.get("inst_local")):
                # `xs.sort_by_key(f)` on a variable that holds a sequence *term* (a parameter, a field, a collected copy of
                # one): from here on the variable holds the reordered / shrunk sequence, not the original one
                new = app(head, vs[0], *vs[1:])
                for s2, o in res:
                    if s2.env.get(lid) == vs[0]:
                        s2.env[lid] = new
            return res
        return self.bind(self.ev_list([n["recv"]] + n["args"], st), k)

    def call_path(self, path, cal, recv, args, node, st):
        """Dispatch a resolved call. recv is the receiver term for method syntax (else None)."""
        allargs = ([recv] if recv is not None else []) + list(args)
        # 1. client: tracked effect
        spec = self.client.tracked(self, path, node, recv, args, st)
        if spec is not None:
            return self.do_tracked(spec, node, st)
        # 2. client: pure term
        t = self.client.pure(self, path, node, recv, args)
        if t is not None:
            return [(st, ("val", t))]
        # 3. std / language models
        from . import stdmodels
        r = stdmodels.model(self, path, cal or {}, recv, args, node, st)
        if r is not None:
            return r
        # 4. inline a crate-local body
        did = (cal or {}).get("inst_did") if (cal or {}).get("inst_local") else ((cal or {}).get("did") if (cal or {}).get("local") else None)
        body = self.fx.hir_by_did.get(did) if did else None
        if body is not None and not self.client.no_inline(path):
            if self.call_depth >= self.client.inline_depth or self.stack.count(body["path"]) >= 2:
                self.effect(st, "call", (lit(path),) + tuple(allargs), result=None, node=node, reason="inline bound")
                return [(st, ("val", self.fresh("ret:" + path.rsplit("::", 1)[-1])))]
            mark = next(self.counter)
            n_before = len(st.eff)
            res = self.run_body(body, allargs, st, gargs=(cal or {}).get("gargs"))
            return [self._settle_returned_vec(s, o, mark, n_before) for s, o in res]
        # 5. unmodelled external call: recorded as an effect; fallible when the type says so
        self.unmodelled[path] = self.unmodelled.get(path, 0) + 1
        from .stdmodels import is_result_ty
        rk = is_result_ty(self, node) if node.get("id", -1) >= 0 else None
        if rk:
            r = ("fall", next(self.counter), rk, path.rsplit("::", 1)[-1])
        else:
            t = self.fx.ty(node) if node.get("id", -1) >= 0 else None
            r = UNIT if t == "()" else ("app", "call:" + path, tuple(allargs))
        self.effect(st, "call", (lit(path),) + tuple(allargs), result=r, node=node)
        return [(st, ("val", r))]

    def _settle_returned_vec(self, s, o, mark, n_before):
        """a function that returns a vector it created and filled by straight-line push / extend calls returns those
        contents: the object is replaced by the canonical term and the build calls leave the effect list"""
        if o[0] != "val" or not isinstance(o[1], tuple) or o[1][:2] != ("obj", "Vec") or o[1][2] <= mark:
            return (s, o)
        obj = o[1]
        span = s.eff[n_before:]
        if _mentions_term([e for e in s.eff[:n_before]], obj) or _mentions_term(list(s.env.values()), obj) or _mentions_term(list(s.fields.values()), obj):
            return (s, o)
        built = seq_build(obj, span)
        if built is None:
            return (s, o)
        keep = [e for e in span if not (e["k"] == "call" and len(e["args"]) > 1 and e["args"][1] == obj)]
        if _mentions_term(keep, obj):
            return (s, o)
        s.eff[n_before:] = keep
        return (s, ("val", built))

    def do_tracked(self, spec, node, st):
        kind = spec["kind"]
        res_kind = spec.get("result", "unit")
        if res_kind == "unit":
            self.effect(st, kind, spec.get("args", ()), result=None, node=node, **spec.get("extra", {}))
            return [(st, ("val", UNIT))]
        if res_kind == "sym":
            r = self.fresh(spec.get("hint", kind))
            self.effect(st, kind, spec.get("args", ()), result=r, node=node, **spec.get("extra", {}))
            return [(st, ("val", r))]
        if res_kind == "term":
            self.effect(st, kind, spec.get("args", ()), result=spec["term"], node=node, **spec.get("extra", {}))
            return [(st, ("val", spec["term"]))]
        if res_kind in ("result", "option"):
            r = ("fall", next(self.counter), res_kind, spec.get("hint", kind))
            self.effect(st, kind, spec.get("args", ()), result=r, node=node, **spec.get("extra", {}))
            return [(st, ("val", r))]
        raise Unsupported("tracked result kind " + res_kind)


def _closed(t):
    if not isinstance(t, tuple) or not t:
        return False
    if t[0] == "lit":
        return True
    if t[0] == "ctor":
        return all(_closed(v) for _, v in t[3])
    if t[0] == "tuple":
        return all(_closed(v) for v in t[1])
    if t[0] == "app" and t[1] in ("array", "cast", "neg"):
        return all(_closed(v) for v in t[2])
    return False


def vec_contents(obj, effs):
    """elements of a vector object that was only ever pushed to, one element at a time, outside loops: tuple, else None"""
    out = []
    for e in effs:
        if e["k"] in ("foreach", "loop") and _mentions_term({k: v for k, v in e.items() if k in ("paths", "exits", "args")}, obj):
            return None
        if e["k"] == "call" and len(e["args"]) > 1 and e["args"][1] == obj:
            if e["args"][0][1].endswith("::push") and len(e["args"]) == 3:
                out.append(e["args"][2])
            elif not e["args"][0][1].endswith(("::len", "::is_empty", "::iter", "::as_slice")):
                return None
    return tuple(out)


def as_left_fold(t, effs):
    """`t` as an accumulation over a sequence: {'seq': iterator term, 'init', 'acc', 'elem', 'steps': [term, …]} when t is
    the value of `iter.fold(init, |acc, elem| step)` or of a variable updated as `acc = step` on every pass of a for
    loop; None otherwise. Orientation and adaptors stay visible in 'seq'."""
    for e in _all_effs(effs):
        if e["k"] != "foreach":
            continue
        if t == ("app", "fold_of", (("lit", e.get("loop")),)) and e.get("driver") == "fold" and "fold_acc" in e:
            return {"seq": e["args"][0], "init": e["fold_init"], "acc": e["fold_acc"], "elem": e["elem"], "steps": list(e["results"]),
                    "complete": not e.get("exits") and not e.get("filtered"), "effect": e}
        c = (e.get("carried") or {}).get(t)
        if c is not None:
            return {"seq": e["args"][0], "init": c["init"], "acc": c["acc"], "elem": e["elem"], "steps": list(c["steps"]),
                    "complete": c["every_iteration"] and not e.get("exits"), "effect": e}
    return None


def _all_effs(effs):
    for e in effs:
        yield e
        for p in (e.get("paths") or []) + (e.get("exits") or []):
            yield from _all_effs(p["eff"])


def vec_build(obj, effs):
    """canonical contents of a vector object built outside loops by push / extend / append / extend_from_slice only:
    `concat(part, …)` with consecutive pushes grouped as `array(x, …)`; None when it is touched any other way"""
    parts = []
    for e in effs:
        if e["k"] in ("foreach", "loop") and _mentions_term({k: v for k, v in e.items() if k in ("paths", "exits", "args")}, obj):
            return None
        if e["k"] == "call" and len(e["args"]) > 1 and e["args"][1] == obj:
            nm = e["args"][0][1]
            if nm.endswith("::push") and len(e["args"]) == 3:
                if parts and parts[-1][0] == "app" and parts[-1][1] == "array" and parts[-1][3:] == ("pushed",):
                    parts[-1] = ("app", "array", parts[-1][2] + (e["args"][2],), "pushed")
                else:
                    parts.append(("app", "array", (e["args"][2],), "pushed"))
            elif nm.endswith(("::extend", "::append", "::extend_from_slice")) and len(e["args"]) == 3:
                x = e["args"][2]
                if x[0] == "iter" and x[2] == "fwd" and not x[3]:
                    x = x[1]
                parts.append(x)
            elif not nm.endswith(("::len", "::is_empty", "::iter", "::as_slice", "::reserve", "::capacity", "::with_capacity")):
                return None
    parts = [p[:3] if p[3:] == ("pushed",) else p for p in parts]
    if not parts:
        return ("app", "array", ())
    return parts[0] if len(parts) == 1 else ("app", "concat", tuple(parts))


def seq_build(base, effs):
    """contents of the sequence `base` (a parameter / variable, or a fresh vector object) after the straight-line
    push / push_back / push_front / insert(0, _) / extend / append calls made on it: a canonical `concat(part, …)` with
    adjacent single elements grouped as `array(…)`; None when it is modified in a loop or in any other way"""
    fresh = isinstance(base, tuple) and base[:1] == ("obj",)
    parts = [] if fresh else [base]

    def one(x, front):
        tgt = 0 if front else len(parts) - 1
        if parts and parts[tgt][0] == "app" and parts[tgt][1] == "array" and parts[tgt][3:] == ("built",):
            xs = parts[tgt][2]
            parts[tgt] = ("app", "array", ((x,) + xs) if front else (xs + (x,)), "built")
        elif front:
            parts.insert(0, ("app", "array", (x,), "built"))
        else:
            parts.append(("app", "array", (x,), "built"))
    touched = False
    for e in effs:
        if e["k"] in ("foreach", "loop") and _mentions_term({k: v for k, v in e.items() if k in ("paths", "exits", "args")}, base):
            return None
        if e["k"] == "call" and len(e["args"]) > 1 and e["args"][1] == base:
            nm = e["args"][0][1].rsplit("::", 1)[-1]
            n = len(e["args"])
            if nm in ("push", "push_back") and n == 3:
                one(e["args"][2], False)
                touched = True
            elif nm == "push_front" and n == 3:
                one(e["args"][2], True)
                touched = True
            elif nm == "insert" and n == 4 and e["args"][2] == ("lit", 0):
                one(e["args"][3], True)
                touched = True
            elif nm in ("extend", "append", "extend_from_slice") and n == 3:
                x = e["args"][2]
                if x[0] == "iter" and x[2] == "fwd" and not x[3]:
                    x = x[1]
                parts.append(x)
                touched = True
            elif nm not in ("len", "is_empty", "iter", "as_slice", "reserve", "capacity", "with_capacity"):
                return None
    if not touched and not fresh:
        return base
    parts = [p[:3] if p[3:] == ("built",) else p for p in parts]
    if not parts:
        return ("app", "array", ())
    return parts[0] if len(parts) == 1 else ("app", "concat", tuple(parts))


def canon_fmt(tpl, args):
    """a format template with its literal arguments written out: `("{},{},{}", t, 'A', m)` is `("{},A,{}", t, m)` — text,
    char, integer and bool literals displayed with the default spec become part of the text; arguments are renumbered"""
    keep = []
    index = {}
    pieces = []
    for p in tpl:
        if p[0] == "arg" and p[1] < len(args):
            a = args[p[1]]
            if p[2] == "Display" and p[3] in ("", None) and isinstance(a, tuple) and a[:1] == ("lit",) and isinstance(a[1], (str, int, bool)) and not isinstance(a[1], bytes):
                text = ("true" if a[1] else "false") if isinstance(a[1], bool) else str(a[1])
                if pieces and pieces[-1][0] == "lit":
                    pieces[-1] = ("lit", pieces[-1][1] + text)
                else:
                    pieces.append(("lit", text))
                continue
            if p[1] not in index:
                index[p[1]] = len(keep)
                keep.append(a)
            pieces.append(("arg", index[p[1]], p[2], p[3]))
        elif p[0] == "lit" and pieces and pieces[-1][0] == "lit":
            pieces[-1] = ("lit", pieces[-1][1] + p[1])
        else:
            pieces.append(p)
    # arguments that no piece refers to (captured but unused) keep their place at the end
    for i, a in enumerate(args):
        if i not in index and not (isinstance(a, tuple) and a[:1] == ("lit",)):
            keep.append(a)
    return ("fmt", tuple(pieces), tuple(keep))


def flatten_concat(t):
    """concat(concat(a, b), c) = concat(a, b, c), everywhere inside t"""
    if not isinstance(t, tuple):
        return t
    t = tuple(flatten_concat(x) if isinstance(x, tuple) else x for x in t)
    if t[:2] == ("app", "concat"):
        flat = []
        for q in t[2]:
            flat.extend(q[2] if (isinstance(q, tuple) and q[:2] == ("app", "concat")) else (q,))
        return ("app", "concat", tuple(flat))
    return t


def resolve_built(t, effs):
    """replace every vector object inside term t by its canonical contents (vec_build) where those are known"""
    t = flatten_concat(t)
    if isinstance(t, tuple):
        if t[:1] == ("obj",) and len(t) == 3 and t[1] == "Vec":
            b = vec_build(t, effs)
            return b if b is not None else t
        return tuple(resolve_built(x, effs) if isinstance(x, tuple) else x for x in t)
    return t


def _subst_term(t, a, b):
    if t == a:
        return b
    if isinstance(t, tuple):
        return tuple(_subst_term(x, a, b) if isinstance(x, tuple) else x for x in t)
    return t


def _mentions_term(x, obj):
    if x == obj:
        return True
    if isinstance(x, dict):
        return any(_mentions_term(v, obj) for v in x.values())
    if isinstance(x, (tuple, list)):
        return any(_mentions_term(v, obj) for v in x)
    return False


def paths_of(ex, body, args):
    """Convenience: run a body; returns list of dict(eff, out)."""
    res = ex.run_body(body, args, State())
    return [{"eff": s.eff, "out": o} for s, o in res]
