"""E2 — match-table extraction and finite first-match evaluation.

A `match` whose scrutinee is a scalar or tuple and whose patterns are literals / enum variants /
wildcards / bindings / or-patterns (optionally guarded by boolean combinations of `binding == literal`)
is a finite decision table. The input domain is partitioned into cells (every literal that occurs,
plus one fresh OTHER per component; every variant of an enum); the first matching arm per cell is
computed from pattern-matching semantics — no repo code runs."""
from .facts import walk, walk_body, peel

OTHER = "<other>"


def find_matches(body, pred=None):
    out = []
    for n, ps in walk_body(body):
        if n.get("k") == "Match" and n.get("src") == "Normal" and (pred is None or pred(n)):
            out.append(n)
    return out


def pat_components(p, arity):
    """split a tuple pattern into per-component patterns (wildcard/binding applies to all)"""
    k = p["k"]
    if k == "Tuple":
        return [p["pats"][i] for i in range(arity)]
    if arity == 1:
        return [p]
    if k in ("Wild", "Binding"):
        return [p] * arity
    return None


def literals_in_pat(p, acc):
    k = p["k"]
    if k == "Lit":
        acc.add(p["lit"]["v"])
    elif k == "Or":
        for x in p["pats"]:
            literals_in_pat(x, acc)
    elif k in ("Ref", "Box", "Deref"):
        literals_in_pat(p["pat"], acc)
    elif k == "Binding" and "sub" in p:
        literals_in_pat(p["sub"], acc)


def variants_in_pat(p, acc):
    k = p["k"]
    if k in ("TupleStruct", "Struct", "Path") and (p.get("res") or {}).get("variant"):
        acc.add(p["res"]["variant"])
    elif k == "Or":
        for x in p["pats"]:
            variants_in_pat(x, acc)
    elif k in ("Ref", "Box", "Deref"):
        variants_in_pat(p["pat"], acc)


def pat_matches(p, cell):
    """Does simple pattern p match the cell value? cell: literal value, OTHER, or ('variant', name)"""
    k = p["k"]
    if k in ("Wild", "Binding"):
        if k == "Binding" and "sub" in p:
            return pat_matches(p["sub"], cell)
        return True
    if k in ("Ref", "Box", "Deref"):
        return pat_matches(p["pat"], cell)
    if k == "Lit":
        return cell != OTHER and not isinstance(cell, tuple) and cell == p["lit"]["v"] and type(cell) == type(p["lit"]["v"])
    if k == "Or":
        return any(pat_matches(x, cell) for x in p["pats"])
    if k in ("TupleStruct", "Struct", "Path"):
        v = (p.get("res") or {}).get("variant")
        return isinstance(cell, tuple) and cell[0] == "variant" and cell[1] == v
    if k == "Range":
        return None
    return None


def binding_names(p, comp_index, acc):
    k = p["k"]
    if k == "Binding":
        acc[p["lid"]] = comp_index
        if "sub" in p:
            binding_names(p["sub"], comp_index, acc)
    elif k in ("Ref", "Box", "Deref"):
        binding_names(p["pat"], comp_index, acc)


def eval_guard(g, binds, cell):
    """Evaluate a guard built from `binding == literal`, ||, &&, ! over the cell. None = unknown."""
    g = peel(g)
    k = g.get("k")
    if k == "Binary":
        op = g["op"]
        if op in ("Or", "And"):
            a, b = eval_guard(g["lhs"], binds, cell), eval_guard(g["rhs"], binds, cell)
            if op == "Or":
                if a is True or b is True:
                    return True
                if a is False and b is False:
                    return False
                return None
            if a is False or b is False:
                return False
            if a is True and b is True:
                return True
            return None
        if op in ("Eq", "Ne"):
            l, r = peel(g["lhs"]), peel(g["rhs"])
            for x, y in ((l, r), (r, l)):
                while x.get("k") in ("Unary", "AddrOf") and (x.get("k") == "AddrOf" or x.get("op") == "Deref"):
                    x = peel(x["e"])
                if x.get("k") == "Path" and x["res"].get("k") == "Local" and x["res"]["lid"] in binds and y.get("k") == "Lit":
                    c = cell[binds[x["res"]["lid"]]]
                    if isinstance(c, tuple):
                        return None
                    eq = (c != OTHER and c == y["lit"]["v"])
                    return eq if op == "Eq" else not eq
            return None
    if k == "Unary" and g.get("op") == "Not":
        a = eval_guard(g["e"], binds, cell)
        return None if a is None else not a
    if k == "Lit" and g["lit"].get("t") == "bool":
        return g["lit"]["v"]
    return None


def literals_in_guard(g, acc):
    for x, _ in walk(g):
        if x.get("k") == "Lit" and x["lit"].get("t") in ("str", "char", "int"):
            acc.add(x["lit"]["v"])


class Table:
    """first-match table of a Match node over explicit cells"""

    def __init__(self, fx, m, enum_variants=None):
        self.m = m
        sc = peel(m["scrut"])
        self.arity = len(sc["elems"]) if sc.get("k") == "Tup" else 1
        self.scrut = sc
        # a top-level or-pattern `(a, X) | (b, X) => body` is several arms sharing one body
        self.arms = []
        self.arm_index = []   # virtual arm -> index of the real arm
        for ai, arm in enumerate(m["arms"]):
            if arm["pat"]["k"] == "Or":
                for alt in arm["pat"]["pats"]:
                    va = dict(arm)
                    va["pat"] = alt
                    self.arms.append(va)
                    self.arm_index.append(ai)
            else:
                self.arms.append(arm)
                self.arm_index.append(ai)
        self.lits = [set() for _ in range(self.arity)]
        self.variants = [set() for _ in range(self.arity)]
        self.ok = True
        for arm in self.arms:
            comps = pat_components(arm["pat"], self.arity)
            if comps is None:
                self.ok = False
                continue
            for i, c in enumerate(comps):
                literals_in_pat(c, self.lits[i])
                variants_in_pat(c, self.variants[i])
            if "guard" in arm:
                binds = {}
                for i, c in enumerate(comps):
                    binding_names(c, i, binds)
                # literals compared in guards belong to the component their binding names
                for x, _ in walk(arm["guard"]):
                    if x.get("k") == "Binary" and x["op"] in ("Eq", "Ne"):
                        l, r = peel(x["lhs"]), peel(x["rhs"])
                        for a, b in ((l, r), (r, l)):
                            if a.get("k") == "Path" and a["res"].get("k") == "Local" and a["res"]["lid"] in binds and b.get("k") == "Lit":
                                self.lits[binds[a["res"]["lid"]]].add(b["lit"]["v"])
        self.enum_variants = enum_variants or [None] * self.arity

    def cells(self, i, extra=()):
        if self.variants[i]:
            ev = self.enum_variants[i]
            names = ev if ev else sorted(self.variants[i])
            return [("variant", v) for v in names]
        return sorted(self.lits[i] | set(extra), key=repr) + [OTHER]

    def first_match(self, cell):
        """index of the first arm matching `cell` (tuple of component cells); None if undecidable"""
        for ai, arm in enumerate(self.arms):
            comps = pat_components(arm["pat"], self.arity)
            ms = [pat_matches(c, cell[i]) for i, c in enumerate(comps)]
            if any(m is None for m in ms):
                return None
            if not all(ms):
                continue
            if "guard" in arm:
                binds = {}
                for i, c in enumerate(comps):
                    binding_names(c, i, binds)
                g = eval_guard(arm["guard"], binds, cell)
                if g is None:
                    return None
                if not g:
                    continue
            return self.arm_index[ai]
        return -1


def simple_enum_table(fx, body, enum_path):
    """`match self { Enum::V => <literal> }` → {variant: literal}; None if not of that shape."""
    for m in find_matches(body):
        out = {}
        ok = True
        for arm in m["arms"]:
            vs = set()
            variants_in_pat(arm["pat"], vs)
            b = peel(arm["body"])
            if not vs:
                ok = False
                break
            if b.get("k") == "Lit":
                for v in vs:
                    out[v] = b["lit"]["v"]
            elif b.get("k") == "Call" and "ctor" in b:  # Some(X)/Ok(X)
                inner = peel(b["args"][0]) if b["args"] else {}
                for v in vs:
                    out[v] = ("ctor", b["ctor"].get("variant"), inner.get("res", {}).get("variant") or (inner.get("lit") or {}).get("v"))
            elif b.get("k") == "Path":
                for v in vs:
                    out[v] = ("path", b["res"].get("variant") or b["res"].get("path"))
            else:
                ok = False
                break
        if ok and out:
            return out
    return None


def literal_to_value_table(fx, body):
    """`match s { "lit" | "lit2" => <variant/value>, … , _ => …}` → ({literal: result}, default)"""
    for m in find_matches(body):
        out = {}
        default = None
        ok = True
        for arm in m["arms"]:
            ls = set()
            literals_in_pat(arm["pat"], ls)
            b = peel(arm["body"])
            res = result_of(b)
            if not ls:
                if arm["pat"]["k"] in ("Wild", "Binding"):
                    default = res
                    continue
                ok = False
                break
            for l in ls:
                if l not in out:
                    out[l] = res
        if ok and out:
            return out, default
    return None, None


def result_of(b):
    b = peel(b)
    k = b.get("k")
    if k == "Lit":
        return ("lit", b["lit"]["v"])
    if k == "Path":
        r = b["res"]
        return ("path", r.get("variant") or r.get("path"))
    if k == "Call" and "ctor" in b:
        inner = result_of(b["args"][0]) if b["args"] else None
        return ("ctor", b["ctor"].get("variant"), inner)
    if k == "Call" and b.get("callee"):
        return ("call", b["callee"].get("inst") or b["callee"].get("def"))
    if k == "MethodCall":
        return ("call", (b.get("callee") or {}).get("inst") or (b.get("callee") or {}).get("def") or b["name"])
    if k == "Block":
        blk = b["block"]
        if "expr" in blk and not blk["stmts"]:
            return result_of(blk["expr"])
        # diverging block (bail!/panic!)
        return ("block",)
    if k == "Ret":
        return ("ret", result_of(b["e"]) if "e" in b else None)
    return (k,)
